"""Scenario engine for the check-level properties: TLC-simulated call histories -> real calls -> transition records."""
import multiprocessing as mp
import os
import random
import shutil
import time
import traceback

from pv import art
from pv import checks
from pv import gen
from pv import shim
from pv import tlc

EC_MAX_DIFF_QUICK = 2 ** 12


def gen_behaviours(cfg, num, seed, depth=6):
  simdir = os.path.join(tlc.BUILD, 'sim-%s-%d' % (cfg.replace('.cfg', ''), os.getpid()))
  shutil.rmtree(simdir, ignore_errors=True)
  os.makedirs(simdir)
  r = tlc.run('MC_ChecksGen', cfg, workers=1, coverage=False, simulate='file=%s/tr,num=%d' % (simdir, num), depth=depth, seed=seed)
  if r.violated:
    raise tlc.MachineryError('ChecksGen %s: %s' % (cfg, r.error_text))
  beh = tlc.parse_sim_files(simdir)
  shutil.rmtree(simdir, ignore_errors=True)
  if len(beh) < max(1, num // 2):
    raise tlc.MachineryError('ChecksGen %s produced %d behaviours' % (cfg, len(beh)))
  out = []
  for name, states in beh:
    st = states[-1][1]
    out.append((name, tlc.tla_value(st['cls']), tlc.tla_value(st['hist'])))
  return out, r


# ---------------------------------------------------------------- class instantiation

def make_rsa(rng, clsmap):
  arts = {}
  shared = None
  tri = None
  nm1 = None
  for slot in sorted(clsmap):
    c = clsmap[slot]
    aid = slot
    if c == 'healthy':
      arts[slot] = gen.rsa_healthy(rng, aid, 2048)
    elif c == 'healthy3072':
      arts[slot] = gen.rsa_healthy(rng, aid, 3072)
    elif c == 'healthy4096':
      arts[slot] = gen.rsa_healthy(rng, aid, 4096)
    elif c == 'lhwA':
      # primes of Hamming weight 8 and of unequal size (512 and 540 bits): CheckLowHammingWeight reports a suspicion without factors
      # (positive entry with severity UNKNOWN)
      from pv import weak
      p_, q_ = weak.hamming_prime(rng, 512, 8), weak.hamming_prime(rng, 540, 8)
      crit = dict({x: 'may' for x in gen.RSA_CHECKS}, CheckExponents='mustnot')
      arts[slot] = checks.Art(aid, 'rsa', art.rsa_key(p_ * q_), 'lhw-suspect', n=p_ * q_, p=p_, q=q_, e=65537, crit=crit)
    elif c == 'healthypad':
      # a healthy key whose fields are encoded with leading zero bytes (fixed-width encoders do that): the same integers
      k = gen.rsa_healthy(rng, aid, 2048)
      k.proto.rsa_info.e = b'\x00' * rng.choice([1, 5]) + bytes(k.proto.rsa_info.e)
      k.proto.rsa_info.n = b'\x00' * rng.choice([1, 2]) + bytes(k.proto.rsa_info.n)
      arts[slot] = k
    elif c == 'small':
      arts[slot] = gen.rsa_small(rng, aid)
    elif c == 'exponent':
      arts[slot] = gen.rsa_bad_exponent(rng, aid)
    elif c == 'fermat':
      arts[slot] = gen.rsa_fermat(rng, aid)
    elif c in ('sharedA', 'sharedB'):
      if shared is None:
        shared = gen.rsa_shared_pair(rng, 'x', 'y')
      src = shared[0] if c == 'sharedA' else shared[1]
      arts[slot] = checks.Art(aid, 'rsa', art.rsa_key(src.meta['n']), 'sharedprime', **dict(src.meta))
    elif c in ('nm1A', 'nm1B'):
      if nm1 is None:
        nm1 = gen.rsa_nm1_pair(rng, 'x', 'y')
      src = nm1[0] if c == 'nm1A' else nm1[1]
      arts[slot] = checks.Art(aid, 'rsa', art.rsa_key(src.meta['n']), src.cls, **dict(src.meta))
    elif c in ('prime', 'even', 'square', 'pow2', 'oddlen', 'bits64', 'bits65', 'three', 'huge_e', 'empty_e'):
      arts[slot] = gen.rsa_degenerate(rng, aid, c)
    elif c.startswith('bits') and c[4:].isdigit() and c not in ('bits64', 'bits65'):
      b_ = int(c[4:])
      for _ in range(500):
        nn = art.rand_prime_top2(rng, (b_ + 1) // 2) * art.rand_prime(rng, b_ - (b_ + 1) // 2 + 1)
        if nn.bit_length() == b_:
          break
      arts[slot] = checks.Art(aid, 'rsa', art.rsa_key(nn), 'deg-' + c, n=nn, e=65537, crit={x: 'may' for x in gen.RSA_CHECKS})
    elif c.startswith('kptab') and c[5:].isdigit():
      # a modulus of the given size whose 64 leading bits are a key of the shipped Keypair table (the check regenerates
      # primes for it) although the vulnerable generator did not produce it
      from paranoid_crypto.lib import rsa_single_checks
      tab = sorted(rsa_single_checks.CheckKeypairDenylist()._table)   # pylint: disable=protected-access
      b_ = int(c[5:])
      nn = (tab[rng.randrange(len(tab))] << (b_ - 64)) | (rng.getrandbits(b_ - 64) if b_ > 64 else 0) | 1
      if b_ == 64:
        nn = tab[rng.randrange(len(tab))]
      arts[slot] = checks.Art(aid, 'rsa', art.rsa_key(nn), 'deg-' + c, n=nn, e=65537, crit={x: 'may' for x in gen.RSA_CHECKS})
    elif c == 'pattern4096':
      from pv import weak
      k = None
      # a 255-bit word on a 3072-bit modulus: factored through pattern size 255 only (255 > 1024 // 8, so a preceding
      # 1024-bit key must not influence it)
      for _ in range(3):
        k = weak.pattern_key(rng, aid, 3072, 255, 16)
        if k is not None:
          break
      if k is None:
        k = gen.rsa_healthy(rng, aid, 3072)
      k.meta.pop('attrs', None)
      k.meta['crit'] = dict({x: 'may' for x in gen.RSA_CHECKS}, CheckSizes='mustnot', CheckExponents='mustnot')
      arts[slot] = k
    elif c in ('tri', 'triP', 'triQ'):
      if tri is None:
        tri = [art.rand_prime_top2(rng, 700) for _ in range(3)] + [art.rand_prime_top2(rng, 1024), art.rand_prime_top2(rng, 1024)]
      n = {'tri': tri[0] * tri[1] * tri[2], 'triP': tri[0] * tri[3], 'triQ': tri[1] * tri[4]}[c]
      crit = {x: 'may' for x in gen.RSA_CHECKS}
      arts[slot] = checks.Art(aid, 'rsa', art.rsa_key(n), 'sharedprime', n=n, e=65537, crit=crit)
    elif c == 'copy1':
      arts[slot] = None
    else:
      raise ValueError(c)
  for slot, c in clsmap.items():
    if c == 'copy1':
      src = arts.get('s1')
      if src is None or slot == 's1':
        arts[slot] = gen.rsa_healthy(rng, slot, 2048)
      else:
        arts[slot] = gen.rsa_copy(src, slot)
  return arts


def make_ec(rng, clsmap):
  arts = {}
  close_d = None
  far_d = None
  for slot in sorted(clsmap):
    c = clsmap[slot]
    if c == 'healthy':
      arts[slot] = gen.ec_key(rng, slot, 'secp256r1')
    elif c == 'healthy384':
      arts[slot] = gen.ec_key(rng, slot, 'secp384r1')
    elif c in ('healthy224', 'healthy521', 'healthyk1', 'healthybp256', 'healthybp384', 'healthybp512'):
      arts[slot] = gen.ec_key(rng, slot, {'healthy224': 'secp224r1', 'healthy521': 'secp521r1', 'healthyk1': 'secp256k1',
                                          'healthybp256': 'brainpoolP256r1', 'healthybp384': 'brainpoolP384r1',
                                          'healthybp512': 'brainpoolP512r1'}[c])
    elif c == 'weakcurve':
      arts[slot] = gen.ec_key(rng, slot, 'secp192r1', cls='healthy')
    elif c == 'weakprivate':
      arts[slot] = gen.ec_weak_private(rng, slot, 'secp256r1')
    elif c == 'weakprivateneg':
      # private key n - (32-bit value << 8j): the search finds it as a NEGATIVE logarithm
      rc = gen.named_curves()['secp256r1'][2]
      j = 8 * rng.randrange(0, 20)
      a = gen.ec_key(rng, slot, 'secp256r1', d=rc.n - ((rng.randrange(2, 2 ** 15) | 1) << j), cls='weakprivate')
      a.meta['crit'] = dict(a.meta['crit'], CheckWeakECPrivateKey='may')
      arts[slot] = a
    elif c == 'weakprivatetop':
      # a 32-bit private value at the far end of the searched range (last giant steps)
      a = gen.ec_key(rng, slot, 'secp256r1', d=rng.randrange(2 ** 32 - 2 ** 20, 2 ** 32), cls='weakprivate')
      a.meta['crit'] = dict(a.meta['crit'], CheckWeakECPrivateKey='must')
      arts[slot] = a
    elif c.startswith('weakprivateedge') and c[15:].isdigit():
      # a 32-bit private value that is reached through the LAST entry of the baby-step table when exactly b keys of secp256r1 are
      # searched together: ExtendedBatchDL derives 36 points per key, BatchDL builds a table of T = isqrt(2^32 * 36 * b) multiples
      # and takes giant steps of 2T - 1 (Bsgs.tla); d = j (2T - 1) + (T - 1)
      import math
      b_ = int(c[15:])
      T = math.isqrt(2 ** 32 * 36 * b_)
      t = 2 * T - 1
      j = rng.randrange(1, (2 ** 32 - T) // t)
      sign = rng.choice([1, -1])
      a = gen.ec_key(rng, slot, 'secp256r1', d=j * t + sign * (T - 1), cls='weakprivate')
      a.meta['crit'] = dict(a.meta['crit'], CheckWeakECPrivateKey='must')
      arts[slot] = a
    elif c.startswith('weakprivatestep') and c[15:].isdigit():
      # a 32-bit private value that is an EXACT multiple of the giant step when b keys of secp256r1 are searched together
      # (the difference point is the point at infinity at that step)
      import math
      b_ = int(c[15:])
      t = 2 * math.isqrt(2 ** 32 * 36 * b_) - 1
      a = gen.ec_key(rng, slot, 'secp256r1', d=t * rng.randrange(1, (2 ** 32 - 1) // t), cls='weakprivate')
      a.meta['crit'] = dict(a.meta['crit'], CheckWeakECPrivateKey='must')
      arts[slot] = a
    elif c in ('farA', 'farB'):
      # two keys whose private values differ by more than the quick tier's max_diff (2^12) but by less than the baby-step table
      # a search for weak private keys leaves behind (393216 entries for one key)
      if far_d is None:
        far_d = rng.randrange(2 ** 200, 2 ** 250)
      arts[slot] = gen.ec_key(rng, slot, 'secp256r1', d=far_d if c == 'farA' else far_d + rng.randrange(5000, 300000), cls='healthy')
    elif c in ('closeA', 'closeB'):
      if close_d is None:
        close_d = rng.randrange(2 ** 200, 2 ** 250)
      d = close_d if c == 'closeA' else close_d + rng.randrange(1, EC_MAX_DIFF_QUICK)
      arts[slot] = gen.ec_key(rng, slot, 'secp256r1', d=d, cls='close')
    elif c in ('offcurve', 'zero', 'huge', 'xplusp', 'y0'):
      arts[slot] = gen.ec_invalid(rng, slot, 'secp256r1', c)
    elif c == 'coordp':
      arts[slot] = gen.ec_invalid(rng, slot, 'secp256r1', 'p')
    elif c == 'unknowncurve':
      arts[slot] = gen.ec_unknown_curve(rng, slot, 0)
    elif c == 'binarycurve':
      arts[slot] = gen.ec_unknown_curve(rng, slot, rng.randrange(7, 17))
    elif c == 'curve25':
      arts[slot] = gen.ec_unknown_curve(rng, slot, 25)
    elif c in ('copy1', 'unreduced1', 'unreducedx1', 'unreducedy1'):
      arts[slot] = None
    else:
      raise ValueError(c)
  for slot, c in clsmap.items():
    if c == 'copy1':
      src = arts.get('s1')
      arts[slot] = gen.ec_key(rng, slot, 'secp256r1') if (src is None or slot == 's1') else gen.ec_copy(src, slot)
    elif c in ('unreduced1', 'unreducedx1', 'unreducedy1'):
      # the key of slot s1 with coordinates congruent to, but larger than, the field prime (x + p, y) or (x, y + p)
      src = arts.get('s1')
      if src is None or slot == 's1' or src.meta.get('curve') is None:
        arts[slot] = gen.ec_key(rng, slot, 'secp256r1')
      else:
        rc = gen.named_curves()[src.meta['curve']][2]
        x = art.b2i(src.proto.ec_info.x)
        y = art.b2i(src.proto.ec_info.y)
        if c == 'unreducedx1' or (c == 'unreduced1' and rng.random() < 0.5):
          x += rc.p
        else:
          y += rc.p
        crit = {k: 'may' for k in gen.EC_CHECKS}
        crit['CheckValidECKey'] = 'must'
        arts[slot] = checks.Art(slot, 'ec', art.ec_key(src.proto.ec_info.curve_type, x, y), 'invalid-unreduced', curve=src.meta['curve'],
                                point=(x, y), crit=crit)
  return arts


def make_ecdsa(rng, clsmap):
  """Each slot is a GROUP of signatures of one issuer (a batch is the concatenation of the chosen groups)."""
  groups = {}
  close192 = None
  nc = gen.named_curves()
  for slot in sorted(clsmap):
    c = clsmap[slot]
    if c in ('healthyA', 'healthyB'):
      groups[slot] = gen.healthy_sigs(rng, slot + '-', 'secp256r1', 3)
    elif c == 'healthy384':
      groups[slot] = gen.healthy_sigs(rng, slot + '-', 'secp384r1', 3)
    elif c == 'healthy521':
      groups[slot] = gen.healthy_sigs(rng, slot + '-', 'secp521r1', 3)
    elif c == 'healthyk1':
      groups[slot] = gen.healthy_sigs(rng, slot + '-', 'secp256k1', 3)
    elif c == 'healthy12':
      groups[slot] = gen.healthy_sigs(rng, slot + '-', 'secp256r1', 12)
    elif c in ('healthy23', 'healthy24', 'healthy25', 'healthy48', 'healthy120'):
      # exactly one / two / five full lattice windows of one honest issuer
      groups[slot] = gen.healthy_sigs(rng, slot + '-', 'secp256r1', int(c[7:]))
    elif c == 'crowd':
      # 400 honest issuers with two signatures each: one lattice guess per issuer, some hundred guesses on one curve in one call
      groups[slot] = [sg for j in range(400) for sg in gen.healthy_sigs(rng, '%s-%d-' % (slot, j), 'secp256r1', 2)]
    elif c == 'lcgA':
      # nonces from GMP's truncated LCG (size 32) through the system libgmp: the LCG check must flag them
      from pv import drive_C08
      rc = nc['secp256r1'][2]
      d = rng.randrange(2 ** 200, rc.n)
      ks = drive_C08.nonce_gen('lcg', rc, 32, rng, 4)
      if ks is None:
        groups[slot] = gen.healthy_sigs(rng, slot + '-', 'secp256r1', 3)
      else:
        sigs = [gen.ecdsa_sig(rng, '%s-%d' % (slot, i), 'secp256r1', d, k, 'lcg32') for i, k in enumerate(ks)]
        for sg in sigs:
          sg.meta['crit'] = dict({x: 'may' for x in gen.ECDSA_CHECKS}, CheckLCGNonceGMP='must', CheckIssuerKey='mustnot')
        groups[slot] = sigs
    elif c in ('close192A', 'close192B'):
      if close192 is None:
        close192 = rng.randrange(2 ** 150, 2 ** 180)
      d = close192 if c == 'close192A' else close192 + 5
      sigs = gen.healthy_sigs(rng, slot + '-', 'secp192r1', 2, d=d)
      for sg in sigs:
        sg.cls = 'close192'
        sg.meta['crit'] = dict({x: 'may' for x in gen.ECDSA_CHECKS})
      groups[slot] = sigs
    elif c in ('msbA', 'msbB', 'msbC'):
      groups[slot] = gen.msb_biased_sigs(rng, slot + '-', 'secp256r1', 10, 64)   # 1.25 x the documented margin: the margin itself is C08's business (catalogue instances)
    elif c in ('tinyissuerA', 'tinyissuerB'):
      # honest nonces, but the issuer's private key is tiny (CheckWeakECPrivateKey, CRITICAL) AND close to the other tiny issuer
      # (CheckECKeySmallDifference, HIGH): the issuer-key entry must carry the higher of the two severities
      d = 5 if c == 'tinyissuerA' else 11
      sigs = gen.healthy_sigs(rng, slot + '-', 'secp256r1', 2, d=d)
      for sg in sigs:
        sg.cls = 'tinyissuer'
        sg.meta['crit'] = dict({x: 'may' for x in gen.ECDSA_CHECKS}, CheckIssuerKey='must')
      groups[slot] = sigs
    elif c == 'u2fA':
      # the Cr50 U2F flaw: every byte of the nonce repeated four times; two signatures suffice
      from pv import drive_C08
      rc = nc['secp256r1'][2]
      d = rng.randrange(2 ** 200, rc.n)
      sigs = [gen.ecdsa_sig(rng, '%s-%d' % (slot, i), 'secp256r1', d, k, 'u2f') for i, k in enumerate(drive_C08.nonce_gen('u2f', rc, 0, rng, 3))]
      for sg in sigs:
        sg.meta['crit'] = dict({x: 'may' for x in gen.ECDSA_CHECKS}, CheckCr50U2f='must', CheckIssuerKey='mustnot')
      groups[slot] = sigs
    elif c == 'msb384':
      groups[slot] = gen.msb_biased_sigs(rng, slot + '-', 'secp384r1', 14, 64)
    elif c == 'msbweak':
      # bias below the documented margin: the lattice returns noise, which must be filtered out
      sigs = gen.msb_biased_sigs(rng, slot + '-', 'secp256r1', 10, 8)
      for sg in sigs:
        sg.cls = 'msbweak'
        sg.meta['crit'] = dict({x: 'may' for x in gen.ECDSA_CHECKS}, CheckIssuerKey='mustnot')
      groups[slot] = sigs
    elif c == 'msbneg':
      # strongly biased nonces, but the issuer key carried by the signatures is the NEGATED public point: the private key
      # a lattice recovers is not the logarithm of the recorded key, so nothing may be flagged with it
      rc = nc['secp256r1'][2]
      d = rng.randrange(2 ** 200, rc.n)
      P = rc.mul(d, rc.g)
      neg = rc.neg(P)
      sigs = []
      for i in range(8):
        k = rng.randrange(1, 2 ** (256 - 64))
        sg = gen.ecdsa_sig(rng, '%s-%d' % (slot, i), 'secp256r1', d, k, 'msbneg', pub=neg)
        sg.meta['crit'] = dict({x: 'may' for x in gen.ECDSA_CHECKS}, CheckIssuerKey='mustnot')
        sigs.append(sg)
      groups[slot] = sigs
    elif c == 'invalidissuer':
      rc = nc['secp256r1'][2]
      d = rng.randrange(2, rc.n)
      P = rc.mul(d, rc.g)
      bad = (P[0], (P[1] + 1) % rc.p)
      sigs = [gen.ecdsa_sig(rng, '%s-%d' % (slot, i), 'secp256r1', d, rng.randrange(1, rc.n), 'invalidissuer', pub=bad) for i in range(2)]
      for s in sigs:
        s.meta['crit'] = dict({x: 'may' for x in gen.ECDSA_CHECKS}, CheckIssuerKey='must')
        s.meta['issuer_sev'] = 2
      groups[slot] = sigs
    elif c == 'unknowncurve':
      rc = nc['secp256r1'][2]
      d = rng.randrange(2, rc.n)
      sigs = [gen.ecdsa_sig(rng, '%s-%d' % (slot, i), 'secp256r1', d, rng.randrange(1, rc.n), 'unknowncurve', curve_label=0) for i in range(2)]
      for s in sigs:
        s.meta['crit'] = {'CheckIssuerKey': 'must'}
        s.meta['issuer_sev'] = 2
      groups[slot] = sigs
    elif c in ('emptyhash', 'hash64', 'rs_edge', 'healthy521', 'brainpool'):
      curve = {'healthy521': 'secp521r1', 'brainpool': 'brainpoolP256r1'}.get(c, 'secp256r1')
      rc = nc[curve][2]
      d = rng.randrange(2, rc.n)
      sigs = gen.healthy_sigs(rng, slot + '-', curve, 2, d=d)
      for sg in sigs:
        sg.cls = c
        sg.meta['crit'] = dict({x: 'may' for x in gen.ECDSA_CHECKS}, CheckIssuerKey='mustnot')
        if c == 'emptyhash':
          sg.proto.ecdsa_sig_info.message_hash = b''
        elif c == 'hash64':
          sg.proto.ecdsa_sig_info.message_hash = bytes(rng.getrandbits(8) for _ in range(64))
        elif c == 'rs_edge':
          sg.proto.ecdsa_sig_info.r = art.i2b(rng.choice([1, rc.n - 1]))
          sg.proto.ecdsa_sig_info.s = art.i2b(rng.choice([1, rc.n - 1]))
      groups[slot] = sigs
    elif c in ('copy1', 'samexy'):
      groups[slot] = None
    else:
      raise ValueError(c)
  for slot, c in clsmap.items():
    if c == 'samexy':
      # the issuer coordinates of slot s1 (a valid secp256r1 point) under the label secp256k1, where they are off-curve
      src = groups.get('s1')
      rc = nc['secp256r1'][2]
      k1 = nc['secp256k1'][0]
      if not src or slot == 's1' or src[0].meta.get('curve') != 'secp256r1' or src[0].cls not in ('healthy',):
        groups[slot] = gen.healthy_sigs(rng, slot + '-', 'secp256r1', 2)
      else:
        P = src[0].meta['point']
        sigs = [gen.ecdsa_sig(rng, '%s-%d' % (slot, i), 'secp256k1', rng.randrange(2, rc.n), rng.randrange(1, rc.n), 'samexy', pub=P, curve_label=k1)
                for i in range(2)]
        for sg in sigs:
          sg.meta['crit'] = dict({x: 'may' for x in gen.ECDSA_CHECKS}, CheckIssuerKey='must')
          sg.meta['issuer_sev'] = 2
        groups[slot] = sigs
  for slot, c in clsmap.items():
    if c == 'copy1':
      src = groups.get('s1')
      if not src or slot == 's1':
        groups[slot] = gen.healthy_sigs(rng, slot + '-', 'secp256r1', 2)
      else:
        out = []
        # a "must" of a nonce check is a statement about the issuer's whole signature set (C08's margin counts signatures): when the
        # source carries one, the copy is the whole set, so that the obligation still holds in a batch that contains only the copy
        group_must = any(v == 'must' and k != 'CheckIssuerKey' for a in src for k, v in a.meta.get('crit', {}).items())
        for i, a in enumerate(src if group_must else src[:2]):
          p = gen.pbmod().ECDSASignature()
          p.ecdsa_sig_info.CopyFrom(a.proto.ecdsa_sig_info)
          p.issuer_key_info.CopyFrom(a.proto.issuer_key_info)
          out.append(checks.Art('%s-%d' % (slot, i), 'ecdsa', p, a.cls + '-copy', **dict(a.meta)))
        groups[slot] = out
  return groups


# ---------------------------------------------------------------- running

def _registry(kind, cheap_ec):
  shim.install()
  from paranoid_crypto.lib import paranoid
  if kind == 'rsa':
    return paranoid, paranoid.GetRSAAllChecks(), paranoid.CheckAllRSA
  if cheap_ec:
    _install_cheap_ec(paranoid)
  if kind == 'ec':
    return paranoid, paranoid.GetECAllChecks(), paranoid.CheckAllEC
  return paranoid, paranoid.GetECDSAAllChecks(), paranoid.CheckAllECDSASigs


def _install_cheap_ec(paranoid):
  """Quick tier: the small-difference check is constructed with max_diff = 2^12 (a constructor parameter the property
  quantifies over) instead of the default 2^24, whose table needs ~2 GB per curve."""
  from paranoid_crypto.lib import ec_aggregate_checks
  paranoid.GetECAllChecks()
  cheap = ec_aggregate_checks.CheckECKeySmallDifference(max_diff=EC_MAX_DIFF_QUICK)
  for key in (getattr(paranoid, '_EC_AGGREGATES', 'ec_aggregates'), getattr(paranoid, '_EC_ALL', 'ec_all')):
    if 'CheckECKeySmallDifference' in paranoid._check_factory.get(key, {}):
      paranoid._check_factory[key]['CheckECKeySmallDifference'] = cheap


def crit_for(kind, batch, max_diff):
  if kind == 'rsa':
    return gen.rsa_joint_crit(batch)
  if kind == 'ec':
    return gen.ec_joint_crit(batch, max_diff)
  # ecdsa: nonce checks judge (curve, issuer) groups; criterion per signature is fixed by its class
  crit = {a.aid: dict(a.meta.get('crit', {})) for a in batch}
  _issuer_oracle(batch, crit)
  return crit


def _issuer_oracle(batch, crit):
  """A signature's issuer-key verdict equals the verdict of the EC checks on that key: the library's own CheckAllEC on fresh
  copies of the distinct issuer keys of THIS batch is the oracle for CheckIssuerKey (verdict and severity)."""
  from paranoid_crypto.lib import paranoid
  pb = gen.pbmod()
  keys, idx = [], {}
  for a in batch:
    info = a.proto.issuer_key_info
    k = (info.curve_type, bytes(info.x), bytes(info.y))
    if k not in idx:
      idx[k] = len(keys)
      keys.append(pb.ECKey(ec_info=info))
  if not keys:
    return
  try:
    paranoid.CheckAllEC(keys)
  except Exception:  # pylint: disable=broad-except
    return
  for a in batch:
    info = a.proto.issuer_key_info
    key = keys[idx[(info.curve_type, bytes(info.x), bytes(info.y))]]
    pos = [int(r.severity) for r in key.test_info.test_results if r.result]
    crit[a.aid]['CheckIssuerKey'] = 'must' if key.test_info.weak else 'mustnot'
    a.meta['issuer_sev'] = max(pos) if pos else 0


def run_scenario(args):
  """Worker: one behaviour. Returns (sid, records, error text)."""
  kind, sid, clsmap, hist, seed, cheap_ec, pre_annotate = args
  try:
    rng = random.Random('%s-%s' % (sid, seed))
    paranoid, registry, entry = _registry(kind, cheap_ec)
    max_diff = EC_MAX_DIFF_QUICK if cheap_ec else 2 ** 24
    if kind == 'rsa':
      slots = make_rsa(rng, clsmap)
      groups = {k: [v] for k, v in slots.items()}
    elif kind == 'ec':
      slots = make_ec(rng, clsmap)
      groups = {k: [v] for k, v in slots.items()}
    else:
      groups = make_ecdsa(rng, clsmap)
    recs = []
    if pre_annotate:
      # an earlier library run left an annotation: round-trip through serialisation
      for g in groups.values():
        for a in g:
          if rng.random() < 0.3:
            data = a.proto.SerializeToString()
            a.proto.ParseFromString(data)
    for ci, call in enumerate(hist):
      batch = [a for slot in call['batch'] for a in groups[slot]]
      if kind == 'ecdsa' and len(batch) > 1 and not call.get('keep_order') and rng.random() < 0.5:
        rng.shuffle(batch)          # interleave issuers
      protos = [a.proto for a in batch]
      crit = crit_for(kind, batch, max_diff)
      if call['all']:
        ll = call.get('log_level')
        rec = checks.record_call('%s-c%d' % (sid, ci), kind, batch, (lambda: entry(protos)) if ll is None else (lambda: entry(protos, log_level=ll)), None, crit)
      else:
        chk = registry.get(call['check'])
        if chk is None:
          rec = {'sid': '%s-c%d' % (sid, ci), 'ev': 'call', 'kind': kind, 'all': False, 'checks': [call['check']],
                 'libversion': art.lib_version(), 'raised': 'CheckMissingFromRegistry', 'ret': False, 'ret_is_bool': False, 'arts': []}
        else:
          rec = checks.record_call('%s-c%d' % (sid, ci), kind, batch, lambda: chk.Check(protos), [call['check']], crit)
      rec['scenario'] = {'classes': clsmap, 'call': call, 'n': len(batch)}
      recs.append(rec)
    return sid, recs, None
  except Exception:  # pylint: disable=broad-except
    return sid, [], traceback.format_exc()


CROSS_CLASSES = {'rsa': {'s1': 'healthy', 's2': 'small', 's3': 'sharedA', 's4': 'sharedB'},
                 'ec': {'s1': 'healthy', 's2': 'weakprivate', 's3': 'healthy384'},
                 'ecdsa': {'s1': 'healthyA', 's2': 'msbA'}}


def run_cross(args):
  """One process, the three entry points one after the other (the registries of the three artifact kinds are process-wide state)."""
  sid, order, seed, cheap_ec = args
  try:
    rng = random.Random('%s-%s' % (sid, seed))
    max_diff = EC_MAX_DIFF_QUICK if cheap_ec else 2 ** 24
    built = {}
    recs = []
    for ci, kind in enumerate(order):
      paranoid, registry, entry = _registry(kind, cheap_ec)
      if kind not in built:
        if kind == 'rsa':
          built[kind] = [v for _, v in sorted(make_rsa(rng, CROSS_CLASSES[kind]).items())]
        elif kind == 'ec':
          built[kind] = [v for _, v in sorted(make_ec(rng, CROSS_CLASSES[kind]).items())]
        else:
          built[kind] = [a for _, g in sorted(make_ecdsa(rng, CROSS_CLASSES[kind]).items()) for a in g]
      batch = built[kind]
      protos = [a.proto for a in batch]
      crit = crit_for(kind, batch, max_diff)
      rec = checks.record_call('%s-c%d' % (sid, ci), kind, batch, lambda: entry(protos), None, crit)
      rec['scenario'] = {'classes': CROSS_CLASSES[kind], 'call': {'all': True, 'check': 'ALL', 'kind': kind, 'entry_points_before': list(order[:ci])},
                         'n': len(batch)}
      recs.append(rec)
    return sid, recs, None
  except Exception:  # pylint: disable=broad-except
    return sid, [], traceback.format_exc()


def run_any(args):
  return run_cross(args[1:]) if args[0] == 'cross' else run_scenario(args)


def run_parallel(jobs, procs=14, timeout=3600):
  """jobs: list of run_scenario args. Fresh worker per job (maxtasksperchild=1) keeps curve tables from piling up."""
  from pv import proc
  out = []
  t0 = time.time()
  for res in proc.imap_unordered(run_any, jobs, procs=min(procs, max(1, len(jobs)))):
    out.append(res)
    if time.time() - t0 > timeout:
      raise tlc.MachineryError('scenario replay exceeded %ss' % timeout)
  return out


# ---------------------------------------------------------------- C17: the same call in five settings

def _clone(a, suffix=''):
  """Fresh protobuf copy of an artifact (no annotation)."""
  p = type(a.proto)()
  p.CopyFrom(a.proto)
  p.ClearField('test_info')
  b = checks.Art(a.aid, a.kind, p, a.cls, **dict(a.meta))
  return b


FORK_SLOTS = None     # optional multiprocessing semaphore: how many forked settings may RUN at once (memory bound of the thorough tier)


def _forked(fn):
  """Runs fn() in a forked child of the current (pristine or warmed) process; returns its picklable result.
  The child is forked now (so it has the parent's present state) but waits for a slot before it runs anything."""
  import pickle
  r, w = os.pipe()
  pid = os.fork()
  if pid == 0:
    code = 0
    try:
      os.close(r)
      try:
        if FORK_SLOTS is not None:
          FORK_SLOTS.acquire()
        try:
          res = ('ok', fn())
        finally:
          if FORK_SLOTS is not None:
            FORK_SLOTS.release()
      except Exception:  # pylint: disable=broad-except
        res = ('err', traceback.format_exc())
      with os.fdopen(w, 'wb') as f:
        pickle.dump(res, f)
    except BaseException:  # pylint: disable=broad-except
      code = 1
    finally:
      os._exit(code)
  os.close(w)
  return pid, r


def _collect(pid, r):
  import pickle
  with os.fdopen(r, 'rb') as f:
    data = f.read()
  os.waitpid(pid, 0)
  if not data:
    return ('err', 'child died without output')
  return pickle.loads(data)


def _do_call(kind, call, arts, cheap_ec):
  """Runs the call on fresh clones of arts in THIS process; returns ({aid: TI}, raised)."""
  paranoid, registry, entry = _registry(kind, cheap_ec)
  clones = [_clone(a) for a in arts]
  protos = [c.proto for c in clones]
  raised = 'none'
  try:
    if call['all']:
      entry(protos)
    else:
      registry[call['check']].Check(protos)
  except Exception as e:  # pylint: disable=broad-except
    raised = type(e).__name__
  return {c.aid: checks.project(c) for c in clones}, raised


def run_scenario_c17(args):
  kind, sid, clsmap, hist, seed, cheap_ec = args
  try:
    rng = random.Random('%s-%s' % (sid, seed))
    shim.install()
    max_diff = EC_MAX_DIFF_QUICK if cheap_ec else 2 ** 24
    if kind == 'rsa':
      groups = {k: [v] for k, v in make_rsa(rng, clsmap).items()}
      extra = [gen.rsa_healthy(rng, 'extra%d' % i, 2048) for i in range(2)]
    elif kind == 'ec':
      groups = {k: [v] for k, v in make_ec(rng, clsmap).items()}
      extra = [gen.ec_key(rng, 'extra0', 'secp256r1'), gen.ec_key(rng, 'extra1', 'secp384r1')]
    else:
      groups = make_ecdsa(rng, clsmap)
      extra = gen.healthy_sigs(rng, 'extra', 'secp256r1', 2)
    recs = []
    # the fresh-process settings of EVERY call are forked now, before this process runs any check
    pending = []
    for ci, call in enumerate(hist):
      batch = []
      for slot in call['batch']:
        for a in groups[slot]:
          if a not in batch:
            batch.append(a)
      perm = list(batch)
      rng.shuffle(perm)
      if len(perm) > 1 and perm == batch:
        perm = perm[1:] + perm[:1]
      plus = list(batch) + extra
      rng.shuffle(plus)
      def solo_fn(batch=batch, call=call):
        out = {}
        for a in batch:
          tis, raised = _do_call(kind, call, [a], cheap_ec)
          out[a.aid] = tis[a.aid]
          if raised != 'none':
            out['__raised__'] = raised
        return out
      jobs = {'solo': _forked(solo_fn),
              'fresh': _forked(lambda batch=batch, call=call: _do_call(kind, call, batch, cheap_ec)),
              'perm': _forked(lambda perm=perm, call=call: _do_call(kind, call, perm, cheap_ec)),
              'plus': _forked(lambda plus=plus, call=call: _do_call(kind, call, plus, cheap_ec))}
      pending.append((ci, call, batch, jobs))
    # now the behaviour itself, in this process, call after call
    for ci, call, batch, jobs in pending:
      got, raised = _do_call(kind, call, batch, cheap_ec)
      res = {k: _collect(*v) for k, v in jobs.items()}
      for k, v in res.items():
        if v[0] != 'ok':
          return sid, [], 'setting %s failed: %s' % (k, v[1])
      solo = res['solo'][1]
      if '__raised__' in solo:
        raised = solo['__raised__']
      for k in ('fresh', 'perm', 'plus'):
        if res[k][1][1] != 'none':
          raised = res[k][1][1]
      crit = crit_for(kind, batch, max_diff)
      rec = {'sid': '%s-c%d' % (sid, ci), 'ev': 'cmp', 'kind': kind, 'all': bool(call['all']),
             'checks': [] if call['all'] else [call['check']], 'raised': raised,
             'scenario': {'classes': clsmap, 'call': call, 'history_before': hist[:ci]},
             'arts': [{'id': a.aid, 'cls': a.cls, 'crit': crit.get(a.aid, {}), 'got': got[a.aid], 'solo': solo[a.aid],
                       'fresh': res['fresh'][1][0][a.aid], 'perm': res['perm'][1][0][a.aid], 'plus': res['plus'][1][0][a.aid]}
                      for a in batch]}
      recs.append(rec)
    return sid, recs, None
  except Exception:  # pylint: disable=broad-except
    return sid, [], traceback.format_exc()


def run_parallel_fn(fn, jobs, procs=6):
  from pv import proc
  return list(proc.imap_unordered(fn, jobs, procs=min(procs, max(1, len(jobs)))))
