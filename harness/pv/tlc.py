"""Thin driver around TLC: model checking, scenario generation, trace validation."""
import json
import os
import re
import shutil
import subprocess
import time

HOME = os.environ.get('VERIF_HOME', '/verif')
SPEC = os.path.join(HOME, 'spec')
BUILD = os.path.join(HOME, 'build')
JAR = '/opt/veriftools/tla/tla2tools.jar:/opt/veriftools/tla/CommunityModules-deps.jar'


class MachineryError(Exception):
  """TLC crashed / output unparsable / vacuous model: exit code 2, never a VIOLATION."""


class TlcResult:

  def __init__(self):
    self.generated = 0
    self.distinct = 0
    self.depth = 0
    self.violated = None  # name of violated invariant / property or 'error'
    self.error_text = ''
    self.prints = {}  # tag -> list of decoded json payloads (or raw tuples)
    self.coverage = {}  # action name -> (distinct, generated)
    self.output = ''
    self.wall = 0.0
    self.cmd = ''


_PRINT_RE = re.compile(r'^<<"([A-Z_]+)", (.*)>>$')
_COV_RE = re.compile(r'^<(\w+) line \d+, col \d+ to line \d+, col \d+ of module (\w+)(?: \([\d ]+\))?>: (\d+):(\d+)')


def _decode_print(payload):
  payload = payload.strip()
  if payload.startswith('"'):
    try:
      s = json.loads(payload)
    except ValueError:
      return payload
    try:
      return json.loads(s)
    except ValueError:
      return s
  # tuple of scalars: 3, "x", 4
  parts = [p.strip() for p in payload.split(',')]
  out = []
  for p in parts:
    if re.fullmatch(r'-?\d+', p):
      out.append(int(p))
    elif p.startswith('"') and p.endswith('"'):
      out.append(p[1:-1])
    elif p in ('TRUE', 'FALSE'):
      out.append(p == 'TRUE')
    else:
      out.append(p)
  return out


def run(module, cfg=None, workers=16, timeout=1800, env=None, extra=(), simulate=None,
        depth=None, seed=None, coverage=True, heap='8g', deadlock=None, cwd=None):
  """Runs TLC on spec/<module>.tla with spec/<cfg>; returns a TlcResult."""
  cwd = cwd or SPEC
  cfg = cfg or (module + '.cfg')
  os.makedirs(BUILD, exist_ok=True)
  meta = os.path.join(BUILD, 'tlc-%s-%d-%d' % (module, os.getpid(), int(time.time() * 1e6) % 10**9))
  cmd = ['java', '-XX:+UseParallelGC', '-Xmx' + heap, '-Xss64m', '-cp', JAR, 'tlc2.TLC',
         '-workers', str(workers), '-metadir', meta, '-noGenerateSpecTE', '-config', cfg]
  if coverage and not simulate:
    cmd += ['-coverage', '1']
  if simulate:
    cmd += ['-simulate', simulate]
  if depth:
    cmd += ['-depth', str(depth)]
  if seed is not None:
    cmd += ['-seed', str(seed)]
  if deadlock is False:
    pass
  cmd += list(extra)
  cmd.append(module + '.tla')
  e = dict(os.environ)
  e.pop('JAVA_TOOL_OPTIONS', None)
  if env:
    e.update({k: str(v) for k, v in env.items()})
  t0 = time.time()
  try:
    p = subprocess.run(cmd, cwd=cwd, env=e, capture_output=True, text=True, timeout=timeout)
    out = p.stdout + p.stderr
  except subprocess.TimeoutExpired as ex:
    out = (ex.stdout or b'').decode('utf8', 'replace') if isinstance(ex.stdout, bytes) else (ex.stdout or '')
    shutil.rmtree(meta, ignore_errors=True)
    raise MachineryError('TLC timeout after %ss on %s/%s\n%s' % (timeout, module, cfg, out[-2000:]))
  finally:
    shutil.rmtree(meta, ignore_errors=True)
  r = TlcResult()
  r.wall = time.time() - t0
  r.output = out
  r.cmd = 'tlc -workers %s -config %s %s%s' % (
      workers, cfg, ('-simulate %s ' % simulate) if simulate else '', module + '.tla')
  for line in out.splitlines():
    m = _PRINT_RE.match(line)
    if m:
      r.prints.setdefault(m.group(1), []).append(_decode_print(m.group(2)))
      continue
    m = _COV_RE.match(line)
    if m:
      name = m.group(1)
      d, g = int(m.group(3)), int(m.group(4))
      od, og = r.coverage.get(name, (0, 0))
      r.coverage[name] = (od + d, og + g)
      continue
    m = re.match(r'^(\d+) states generated, (\d+) distinct states found', line)
    if m:
      r.generated, r.distinct = int(m.group(1)), int(m.group(2))
      continue
    m = re.match(r'^The depth of the complete state graph search is (\d+)', line)
    if m:
      r.depth = int(m.group(1))
      continue
    m = re.match(r'^Error: Invariant (\w+) is violated', line)
    if m and not r.violated:
      r.violated = m.group(1)
      continue
    m = re.match(r'^Error: Action property (\w+) is violated', line)
    if m and not r.violated:
      r.violated = m.group(1)
      continue
    m = re.match(r'^Error: Temporal properties were violated', line)
    if m and not r.violated:
      r.violated = 'temporal'
      continue
    if line.startswith('Error:') and not r.violated:
      if 'Deadlock reached' in line:
        r.violated = 'deadlock'
      else:
        r.violated = 'error'
      r.error_text = line
  if r.violated == 'error':
    i = out.find('Error:')
    r.error_text = out[i:i + 3000]
  if 'Finished in' not in out and not r.violated and not simulate:
    raise MachineryError('TLC did not finish on %s/%s:\n%s' % (module, cfg, out[-3000:]))
  return r


def mc(module, cfg=None, require_actions=(), **kw):
  """Model-checks; raises MachineryError on TLC errors or vacuity. Returns TlcResult.

  A violated invariant is NOT a machinery error: the caller decides (it may be a
  design-level counterexample that is expected, or a spec bug).
  """
  r = run(module, cfg, **kw)
  if r.violated == 'error':
    raise MachineryError('TLC error on %s/%s: %s' % (module, cfg or module, r.error_text))
  for a in require_actions:
    d, g = r.coverage.get(a, (0, 0))
    if g == 0:
      raise MachineryError('vacuity: action %s of %s never taken' % (a, module))
  return r


def expect_holds(module, cfg=None, **kw):
  r = mc(module, cfg, **kw)
  if r.violated:
    raise MachineryError('specification %s/%s violates %s — the model itself is wrong:\n%s' %
                         (module, cfg or module, r.violated, r.output[-3000:]))
  if r.distinct < 1:
    raise MachineryError('no states for %s' % module)
  return r


def validate_trace(module, cfg, records, name, workers=1, timeout=1800, env=None, heap='8g'):
  """Writes records as ndjson, runs the trace spec, returns (consumed, failures, result).

  The trace specification consumes every record and appends failing clauses to a
  register; POSTCONDITION prints CONSUMED and FAIL lines.
  """
  os.makedirs(BUILD, exist_ok=True)
  path = os.path.join(BUILD, 'trace-%s-%d.ndjson' % (name, os.getpid()))
  with open(path, 'w') as f:
    for rec in records:
      f.write(json.dumps(rec, separators=(',', ':')) + '\n')
  e = {'TRACE_FILE': path}
  if env:
    e.update(env)
  r = run(module, cfg, workers=workers, timeout=timeout, env=e, coverage=False, heap=heap)
  if r.violated:
    raise MachineryError('trace spec %s failed to run: %s\n%s' % (module, r.violated, (r.error_text or r.output[-3000:])))
  cons = r.prints.get('CONSUMED')
  if not cons:
    raise MachineryError('trace spec %s printed no CONSUMED line:\n%s' % (module, r.output[-3000:]))
  consumed, total = cons[-1][0], cons[-1][2]
  if total != len(records):
    raise MachineryError('trace spec %s read %s records, harness wrote %s' % (module, total, len(records)))
  if consumed != total:
    raise MachineryError('trace spec %s consumed %s of %s records (spec must be total)' % (module, consumed, total))
  fails = r.prints.get('FAIL', [])
  try:
    os.unlink(path)
  except OSError:
    pass
  return consumed, fails, r


def parse_sim_files(prefix_dir):
  """Parses `-simulate file=<dir>/tr` behaviour files into lists of {var: text} states."""
  import glob
  out = []
  for path in sorted(glob.glob(os.path.join(prefix_dir, 'tr_*'))):
    txt = open(path).read()
    states = []
    # each state: "\* <Action ...>\nSTATE_n ==\n/\ v = ...\n/\ w = ..." (values may continue on following lines)
    action, st, cur = None, None, None
    for line in txt.split('\n'):
      m = re.match(r'^\\\* <(\w+)', line)
      if m:
        action = m.group(1)
        continue
      if re.match(r'^STATE_\d+ ==', line):
        if st is not None:
          states.append((prev_action, st))
        st, cur = {}, None
        prev_action = action or 'Init'
        action = None
        continue
      if st is None:
        continue
      if line.startswith('/\\ '):
        k, _, v = line[3:].partition(' = ')
        cur = k.strip()
        st[cur] = v
      elif cur and line.strip() and not line.startswith(('\\*', '====', '----')):
        st[cur] += ' ' + line.strip()
      elif not line.strip():
        cur = None
    if st is not None:
      states.append((prev_action, st))
    out.append((os.path.basename(path), states))
  return out


def tla_value(text):
  """Parses a printed TLA+ value (ints, strings, booleans, tuples, sets, records, functions) to Python."""
  pos = [0]
  s = text.strip()

  def ws():
    while pos[0] < len(s) and s[pos[0]].isspace():
      pos[0] += 1

  def parse():
    ws()
    c = s[pos[0]]
    if s.startswith('<<', pos[0]):
      pos[0] += 2
      items = []
      ws()
      if s.startswith('>>', pos[0]):
        pos[0] += 2
        return items
      while True:
        items.append(parse())
        ws()
        if s.startswith('>>', pos[0]):
          pos[0] += 2
          return items
        assert s[pos[0]] == ',', (s, pos[0])
        pos[0] += 1
    if c == '{':
      pos[0] += 1
      items = []
      ws()
      if s[pos[0]] == '}':
        pos[0] += 1
        return items
      while True:
        items.append(parse())
        ws()
        if s[pos[0]] == '}':
          pos[0] += 1
          return items
        assert s[pos[0]] == ',', (s, pos[0])
        pos[0] += 1
    if c == '[':
      pos[0] += 1
      d = {}
      while True:
        ws()
        m = re.compile(r'(\w+) \|-> ').match(s, pos[0])
        assert m, (s, pos[0])
        pos[0] = m.end()
        d[m.group(1)] = parse()
        ws()
        if s[pos[0]] == ']':
          pos[0] += 1
          return d
        assert s[pos[0]] == ',', (s, pos[0])
        pos[0] += 1
    if c == '(':
      # function printed as (k1 :> v1 @@ k2 :> v2)
      pos[0] += 1
      d = {}
      while True:
        k = parse()
        ws()
        assert s.startswith(':>', pos[0])
        pos[0] += 2
        v = parse()
        d[k if not isinstance(k, list) else tuple(k)] = v
        ws()
        if s[pos[0]] == ')':
          pos[0] += 1
          return d
        assert s.startswith('@@', pos[0]), (s, pos[0])
        pos[0] += 2
    if c == '"':
      m = re.compile(r'"((?:[^"\\]|\\.)*)"').match(s, pos[0])
      pos[0] = m.end()
      return m.group(1)
    m = re.compile(r'-?\d+').match(s, pos[0])
    if m:
      pos[0] = m.end()
      return int(m.group(0))
    m = re.compile(r'\w+').match(s, pos[0])
    pos[0] = m.end()
    w = m.group(0)
    if w == 'TRUE':
      return True
    if w == 'FALSE':
      return False
    return w

  return parse()


def validate_trace_parallel(module, cfg, records, name, jobs=12, chunk=None, **kw):
  """Splits the records into chunks validated by concurrent TLC processes (each -workers 1).

  Only for trace specifications whose records are independent of each other.
  Returns (consumed, failures, list of TlcResult).
  """
  from concurrent.futures import ThreadPoolExecutor
  if not records:
    return 0, [], []
  if chunk is None:
    chunk = max(1, (len(records) + jobs - 1) // jobs)
  parts = [records[i:i + chunk] for i in range(0, len(records), chunk)]
  def one(ip):
    i, part = ip
    return validate_trace(module, cfg, part, '%s-%d' % (name, i), **kw)
  with ThreadPoolExecutor(max_workers=jobs) as ex:
    results = list(ex.map(one, enumerate(parts)))
  consumed = sum(r[0] for r in results)
  fails = [f for r in results for f in r[1]]
  return consumed, fails, [r[2] for r in results]


def run_many(jobs, workers_each=5, **kw):
  """Runs several TLC jobs [(module, cfg)] concurrently; returns the TlcResults in order."""
  from concurrent.futures import ThreadPoolExecutor
  with ThreadPoolExecutor(max_workers=len(jobs)) as ex:
    return list(ex.map(lambda mc_: run(mc_[0], mc_[1], workers=workers_each, **kw), jobs))
