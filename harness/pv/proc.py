"""Process isolation for replays that run native code or may hang."""
import multiprocessing as mp
import os
import pickle
import tempfile


class Crashed(Exception):

  def __init__(self, marker, code):
    super().__init__('child died with %s at %s' % (code, marker))
    self.marker = marker
    self.code = code


_marker_path = None


def mark(text):
  """Called by the child before a risky call; the parent reads it if the child dies."""
  if _marker_path:
    with open(_marker_path, 'w') as f:
      f.write(text)


def _child(fn, args, marker_path, out_path):
  global _marker_path
  _marker_path = marker_path
  res = fn(*args)
  with open(out_path, 'wb') as f:
    pickle.dump(res, f)


def run_isolated(fn, args=(), timeout=None):
  """Runs fn(*args) in a forked child; returns its result or raises Crashed(marker, exitcode)."""
  d = tempfile.mkdtemp(prefix='pviso', dir=os.path.join(os.environ.get('VERIF_HOME', '/verif'), 'build'))
  mpath, opath = os.path.join(d, 'marker'), os.path.join(d, 'out')
  ctx = mp.get_context('fork')
  p = ctx.Process(target=_child, args=(fn, args, mpath, opath))
  p.start()
  p.join(timeout)
  try:
    if p.is_alive():
      p.kill()
      p.join()
      raise Crashed(open(mpath).read() if os.path.exists(mpath) else '?', 'timeout')
    if p.exitcode != 0 or not os.path.exists(opath):
      raise Crashed(open(mpath).read() if os.path.exists(mpath) else '?', p.exitcode)
    with open(opath, 'rb') as f:
      return pickle.load(f)
  finally:
    for x in (mpath, opath):
      if os.path.exists(x):
        os.unlink(x)
    os.rmdir(d)
