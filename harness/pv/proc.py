"""Process isolation for replays that run native code or may hang."""
import multiprocessing as mp
import os
import pickle
import tempfile


class Crashed(Exception):

  def __init__(self, marker, code):
    super().__init__('child died with %s at %s' % (code, marker))
    self.marker = marker
    self.code = code


_marker_path = None


def mark(text):
  """Called by the child before a risky call; the parent reads it if the child dies."""
  if _marker_path:
    with open(_marker_path, 'w') as f:
      f.write(text)


def _child(fn, args, marker_path, out_path):
  global _marker_path
  _marker_path = marker_path
  res = fn(*args)
  with open(out_path, 'wb') as f:
    pickle.dump(res, f)


def run_isolated(fn, args=(), timeout=None):
  """Runs fn(*args) in a forked child; returns its result or raises Crashed(marker, exitcode)."""
  d = tempfile.mkdtemp(prefix='pviso', dir=os.path.join(os.environ.get('VERIF_HOME', '/verif'), 'build'))
  mpath, opath = os.path.join(d, 'marker'), os.path.join(d, 'out')
  ctx = mp.get_context('fork')
  p = ctx.Process(target=_child, args=(fn, args, mpath, opath))
  p.start()
  p.join(timeout)
  try:
    if p.is_alive():
      p.kill()
      p.join()
      raise Crashed(open(mpath).read() if os.path.exists(mpath) else '?', 'timeout')
    if p.exitcode != 0 or not os.path.exists(opath):
      raise Crashed(open(mpath).read() if os.path.exists(mpath) else '?', p.exitcode)
    with open(opath, 'rb') as f:
      return pickle.load(f)
  finally:
    for x in (mpath, opath):
      if os.path.exists(x):
        os.unlink(x)
    os.rmdir(d)


class WorkerDied(Exception):
  """A worker process died twice on the same job (killed by the kernel - out of memory - or crashed natively)."""


def imap_unordered(fn, jobs, procs=15, chunk=1, retries=1):
  """multiprocessing.Pool.imap_unordered without its failure mode: a Pool whose worker is killed (e.g. by the OOM killer) waits
  for ever.  Every chunk of jobs runs in a freshly forked child (so nothing piles up between jobs, like maxtasksperchild);
  a child that dies without delivering is detected through its sentinel, its jobs are retried one by one with nothing else
  running, and a second death raises WorkerDied naming the job."""
  from multiprocessing import connection
  jobs = list(jobs)
  ctx = mp.get_context('fork')
  todo = [list(range(i, min(i + chunk, len(jobs)))) for i in range(0, len(jobs), chunk)]
  todo.reverse()
  retry = []
  running = {}      # sentinel -> (process, connection, indices, attempt)

  def child(conn, idxs):
    try:
      conn.send([fn(jobs[i]) for i in idxs])
    finally:
      conn.close()

  def start(idxs, attempt):
    r, w = ctx.Pipe(duplex=False)
    p = ctx.Process(target=child, args=(w, idxs))
    p.start()
    w.close()
    running[p.sentinel] = (p, r, idxs, attempt)

  while todo or retry or running:
    while todo and len(running) < procs:
      start(todo.pop(), 0)
    if not todo and not running and retry:
      start(retry.pop(), 1)                      # retried alone
    ready = connection.wait([v[1] for v in running.values()] + list(running), timeout=5)
    for sent in list(running):
      p, r, idxs, attempt = running[sent]
      got = None
      if r in ready or sent in ready:
        try:
          if r.poll(0):
            got = r.recv()
        except (EOFError, OSError):
          got = None
        if got is None and p.is_alive() and sent not in ready:
          continue
        if got is None and p.is_alive():
          continue
        p.join()
        r.close()
        del running[sent]
        if got is not None:
          for x in got:
            yield x
        elif attempt < retries:
          for i in idxs:
            retry.append([i])
        else:
          raise WorkerDied('worker died twice (exit code %s) on job %r' % (p.exitcode, jobs[idxs[0]] if len(repr(jobs[idxs[0]])) < 300 else idxs[0]))


def start_background(fn, args=()):
  """Runs fn(*args) in a forked child started from the CALLING thread (never fork from a helper thread: the child may inherit a lock
  held by another thread); collect with finish_background."""
  d = tempfile.mkdtemp(prefix='pvbg', dir=os.path.join(os.environ.get('VERIF_HOME', '/verif'), 'build'))
  mpath, opath = os.path.join(d, 'marker'), os.path.join(d, 'out')
  p = mp.get_context('fork').Process(target=_child, args=(fn, args, mpath, opath))
  p.start()
  return p, d, mpath, opath


def finish_background(handle, timeout=None):
  p, d, mpath, opath = handle
  p.join(timeout)
  try:
    if p.is_alive():
      p.kill()
      p.join()
      raise Crashed('background job', 'timeout')
    if p.exitcode != 0 or not os.path.exists(opath):
      raise Crashed(open(mpath).read() if os.path.exists(mpath) else 'background job', p.exitcode)
    with open(opath, 'rb') as f:
      return pickle.load(f)
  finally:
    for x in (mpath, opath):
      if os.path.exists(x):
        os.unlink(x)
    os.rmdir(d)
