"""C17 — a verdict does not depend on batch neighbours, batch order or earlier calls."""
import json

from pv import drive_C16
from pv import scen
from pv import tlc

DIRECTED = [
    ('ecdsa', 'xy-order', {'s1': 'healthyA', 's2': 'samexy'}, [{'all': False, 'check': 'CheckIssuerKey', 'batch': ['s1', 's2']}]),
    ('ec', 'tables', {'s1': 'closeA', 's2': 'closeB', 's3': 'healthy384', 's4': 'weakprivate'},
     [{'all': False, 'check': 'CheckECKeySmallDifference', 'batch': ['s3']},
      {'all': False, 'check': 'CheckWeakECPrivateKey', 'batch': ['s4', 's1']},
      {'all': False, 'check': 'CheckECKeySmallDifference', 'batch': ['s1', 's2', 's4']}]),
    ('ec', 'warm-table', {'s1': 'healthy', 's2': 'healthy', 's3': 'healthy', 's4': 'weakprivatetop'},
     [{'all': False, 'check': 'CheckWeakECPrivateKey', 'batch': ['s1', 's2', 's3', 's4']},
      {'all': False, 'check': 'CheckWeakECPrivateKey', 'batch': ['s4']}]),
    # a healthy artifact behind weak ones / behind another curve keeps the verdict it has alone
    ('rsa', 'behind-nm1-pair', {'s1': 'healthy', 's2': 'nm1A', 's3': 'nm1B', 's4': 'healthy', 's5': 'healthy3072'},
     [{'all': False, 'check': 'CheckGCDN1', 'batch': ['s1', 's2', 's3', 's4', 's5']}]),
    ('ecdsa', 'behind-other-curve-and-weak', {'s1': 'healthyk1', 's2': 'healthyA', 's3': 'msbA'},
     [{'all': False, 'check': 'CheckNonceMSB', 'batch': ['s1', 's2', 's3']}]),
    # a key that occurs twice next to a close key: every copy gets the verdict of the first, in every order
    ('ec', 'duplicate-and-close', {'s1': 'closeA', 's2': 'closeB', 's3': 'copy1', 's4': 'healthy'},
     [{'all': False, 'check': 'CheckECKeySmallDifference', 'batch': ['s1', 's2', 's3']},
      {'all': False, 'check': 'CheckECKeySmallDifference', 'batch': ['s3', 's4', 's1', 's2']},
      {'all': False, 'check': 'CheckECKeySmallDifference', 'batch': ['s2', 's1', 's4', 's3']}]),
    # logarithms on the last entry of the baby-step table for the batch size at hand
    ('ec', 'table-edge', {'s1': 'weakprivateedge2', 's2': 'healthy', 's3': 'weakprivateedge4', 's4': 'healthy', 's5': 'healthy', 's6': 'weakprivateedge1'},
     [{'all': False, 'check': 'CheckWeakECPrivateKey', 'batch': ['s1', 's2']},
      {'all': False, 'check': 'CheckWeakECPrivateKey', 'batch': ['s3', 's2', 's4', 's5']},
      {'all': False, 'check': 'CheckWeakECPrivateKey', 'batch': ['s6']}]),
    # two keys further apart than max_diff, after a search that left a larger table on the curve (fix of BatchDLOfDifferences)
    ('ec', 'difference-inside-the-older-table', {'s1': 'weakprivate', 's2': 'farA', 's3': 'farB', 's4': 'healthy'},
     [{'all': False, 'check': 'CheckWeakECPrivateKey', 'batch': ['s1']}, {'all': False, 'check': 'CheckECKeySmallDifference', 'batch': ['s2', 's3', 's4']}]),
    ('rsa', 'lhw-suspicion-first', {'s1': 'lhwA', 's2': 'healthy', 's3': 'small'},
     [{'all': False, 'check': 'CheckLowHammingWeight', 'batch': ['s1', 's2', 's3']}]),
    ('rsa', 'mixed-sizes', {'s1': 'small', 's2': 'pattern4096', 's3': 'healthy'},
     [{'all': False, 'check': 'CheckBitPatterns', 'batch': ['s1', 's2', 's3']}, {'all': True, 'check': 'ALL', 'batch': ['s3', 's1', 's2']}]),
    ('rsa', 'sizes', {'s1': 'small', 's2': 'healthy3072', 's3': 'fermat', 's4': 'sharedA'},
     [{'all': True, 'check': 'ALL', 'batch': ['s2', 's1']}, {'all': True, 'check': 'ALL', 'batch': ['s3', 's4', 's1']},
      {'all': False, 'check': 'CheckUnseededRand', 'batch': ['s1', 's2', 's3']}]),
]


def run(ctx):
  ctx.trust('TLC 1.8', 'pv.checks.project', 'os.fork: a child forked before the scenario process has run any check is the "fresh process"')
  ctx.assume('permutation / healthy-neighbour clauses for joint checks apply to artifacts whose verdict is decided (must / mustnot); '
             'near the margin of a lattice attack ("may") the verdict may legitimately depend on the row order')
  drive_C16.model_check(ctx)
  r = tlc.expect_holds('Bsgs', 'MC_Bsgs_quick.cfg', timeout=3600)
  ctx.note_mc(r, 'Bsgs: completeness in every reachable cache state (the per-curve table shared by three searches)')
  q = ctx.quick
  # thorough: the EC scenarios run with the default max_diff = 2^24 (a 2 GB table per curve and setting, minutes each), which bounds
  # how many of them fit into an hour
  plans = [('rsa', 'GEN_Checks_rsa.cfg', 6 if q else 60, 4), ('ec', 'GEN_Checks_ec.cfg', 4 if q else 12, 3),
           ('ecdsa', 'GEN_Checks_ecdsa.cfg', 2 if q else 10, 2)]
  jobs = []
  for kind, cfg, num, depth in plans:
    beh, rr = scen.gen_behaviours(cfg, num, ctx.seed + 17, depth)
    ctx.checker_cmds.append(rr.cmd)
    for name, clsmap, hist in beh:
      jobs.append((kind, 'C17-%s-%s' % (kind, name), clsmap, hist, ctx.seed, q))
  for kind, name, clsmap, hist in DIRECTED:
    jobs.append((kind, 'C17-%s-directed-%s' % (kind, name), clsmap, hist, ctx.seed, q))
  if ctx.only_sid:
    jobs = [j for j in jobs if ctx.only_sid.startswith(j[1])]
  import multiprocessing as mp
  # every call of every scenario forks four settings up front; at most this many of them run at a time (each may hold a 2 GB table)
  scen.FORK_SLOTS = mp.get_context('fork').BoundedSemaphore(12 if q else 6)
  results = scen.run_parallel_fn(scen.run_scenario_c17, jobs, procs=5 if q else 4)
  recs = []
  for sid, rs, err in results:
    if err:
      raise tlc.MachineryError('scenario %s crashed in the harness:\n%s' % (sid, err))
    recs += rs
  if ctx.only_sid:
    recs = [x for x in recs if x['sid'] == ctx.only_sid]
  ctx.replayed = len(recs)
  ctx.notes['behaviours_replayed'] = len(jobs)
  ctx.notes['executions_per_call'] = 'got + solo(each artifact) + fresh + permuted + with healthy neighbours'
  if not recs:
    return
  ctx.sample({'sid': recs[0]['sid'], 'scenario': recs[0]['scenario'],
              'first_artifact': {k: recs[0]['arts'][0][k]['entries'] for k in ('got', 'solo', 'fresh', 'perm', 'plus')} if recs[0]['arts'] else None})
  c, fails, trs = tlc.validate_trace_parallel('SoloTrace', 'SoloTrace.cfg', recs, 'C17', jobs=6, timeout=3600)
  ctx.note_mc(trs[0], 'SoloTrace (first of %d chunks)' % len(trs))
  ctx.validated = c
  by = {x['sid']: x for x in recs}
  def det(rec, f):
    out = {'kind': rec['kind'], 'scenario': rec['scenario'], 'raised': rec['raised']}
    diffs = []
    for a in rec['arts']:
      for k in ('solo', 'fresh', 'perm', 'plus'):
        if [(e['name'], e['result'], e['sev']) for e in a[k]['entries']] != [(e['name'], e['result'], e['sev']) for e in a['got']['entries']]:
          diffs.append({'id': a['id'], 'cls': a['cls'], 'setting': k,
                        'got': [(e['name'], e['result']) for e in a['got']['entries'] if e['result']],
                        'other': [(e['name'], e['result']) for e in a[k]['entries'] if e['result']]})
    out['differences'] = diffs[:6]
    return out
  ctx.trace_failures(fails, by, det)
  ctx.distinct = set(by)


def selftest(ctx):
  res = scen.run_scenario_c17(('rsa', 'self', {'s1': 'healthy', 's2': 'small'}, [{'all': False, 'check': 'CheckSizes', 'batch': ['s1', 's2']}], 1, True))
  assert res[2] is None, res[2]
  recs = res[1]
  bad = json.loads(json.dumps(recs[0]))
  bad['sid'] = 'corrupt'
  bad['arts'][1]['solo']['entries'][0]['result'] = False
  _, fails, _ = tlc.validate_trace('SoloTrace', 'SoloTrace.cfg', recs + [bad], 'C17self')
  got = sorted((f['sid'], f['clause']) for f in fails)
  assert got == [('corrupt', 'SoloEqual')], got
  print('selftest ok', got)
