"""C05 — RSA keys with patterned, sparse or smooth primes are always flagged."""
from pv import families
from pv import tlc


def run(ctx):
  ctx.trust('TLC 1.8', 'pv.weak: word size, deviation width, limb/pattern sizes and implied denominator, Hamming weights, smooth part of '
            'gcd(p-1, q-1) computed from p and q (abstraction map)', 'pv.checks.project')
  ctx.assume('success of the 3-dimensional lattice / best-first search on the documented region is what the property claims; instances '
             'are catalogue instances with seeds derived from the cell')
  r = tlc.expect_holds('MC_Checks', 'MC_Checks.cfg', timeout=3600)
  ctx.note_mc(r, 'Checks/MC_Checks (must => positive entry, severity override of CheckLowHammingWeight)')
  families.run_family_check(ctx, 'C05', families.C05_FAMILIES, 1 if ctx.quick else 4)


def selftest(ctx):
  import json
  sid, rec, err = families.run_cell(({'family': 'pattern', 'bits': 1024, 'w': 16, 'dev': 16}, 0, 'C05'))
  assert err is None, err
  bad = json.loads(json.dumps(rec))
  bad['sid'] = 'corrupt'
  for e in bad['arts'][0]['after']['entries']:
    e['result'] = False
  bad['arts'][0]['after']['weak'] = False
  bad['ret'] = False
  _, fails, _ = tlc.validate_trace('ChecksTrace', 'ChecksTrace.cfg', [rec, bad], 'C05self')
  got = sorted((f['sid'], f['clause']) for f in fails)
  assert any(s == 'corrupt' and c == 'MustFlag' for s, c in got) and not any(s == sid for s, _ in got), got
  print('selftest ok', got)
