"""Artifact generators: the harness owns the ground truth (p, q, d, k, class) of everything it builds."""
import hashlib

import gmpy2

from pv import art
from pv import checks
from pv import refec
from pv import shim

RSA_CHECKS = ['CheckSizes', 'CheckExponents', 'CheckROCA', 'CheckROCAVariant', 'CheckFermat', 'CheckHighAndLowBitsEqual',
              'CheckOpensslDenylist', 'CheckContinuedFractions', 'CheckBitPatterns', 'CheckPermutedBitPatterns', 'CheckPollardpm1',
              'CheckLowHammingWeight', 'CheckUnseededRand', 'CheckSmallUpperDifferences', 'CheckKeypairDenylist', 'CheckGCD',
              'CheckGCDN1']
EC_CHECKS = ['CheckValidECKey', 'CheckWeakCurve', 'CheckWeakECPrivateKey', 'CheckECKeySmallDifference']
ECDSA_CHECKS = ['CheckLCGNonceGMP', 'CheckLCGNonceJavaUtilRandom', 'CheckNonceMSB', 'CheckNonceCommonPrefix',
                'CheckNonceCommonPostfix', 'CheckNonceGeneralized', 'CheckIssuerKey', 'CheckCr50U2f']
NONCE_CHECKS = [c for c in ECDSA_CHECKS if c != 'CheckIssuerKey']


def pbmod():
  return art.pb2()


# ---------------------------------------------------------------- RSA

def rsa_healthy(rng, aid, bits=2048, e=65537, cls='healthy'):
  p = art.rand_prime_top2(rng, bits // 2)
  q = art.rand_prime_top2(rng, bits - bits // 2)
  n = p * q
  assert n.bit_length() == bits
  crit = {c: 'mustnot' for c in RSA_CHECKS}
  return checks.Art(aid, 'rsa', art.rsa_key(n, e), cls, n=n, p=p, q=q, e=e, crit=crit)


def rsa_small(rng, aid, bits=1024):
  a = rsa_healthy(rng, aid, bits, cls='small%d' % bits)
  a.meta['crit'] = dict(a.meta['crit'], CheckSizes='must')
  return a


def rsa_bad_exponent(rng, aid, e=3):
  a = rsa_healthy(rng, aid, 2048, e=e, cls='exponent%d' % e)
  a.meta['crit'] = dict(a.meta['crit'], CheckExponents='must')
  return a


def rsa_fermat(rng, aid, bits=2048):
  """Primes so close that Fermat needs a handful of steps."""
  p = art.rand_prime_top2(rng, bits // 2)
  q = int(gmpy2.next_prime(p + rng.randrange(2, 2 ** 40)))
  n = p * q
  crit = {c: 'may' for c in RSA_CHECKS}
  crit.update(CheckFermat='must', CheckSizes='mustnot' if n.bit_length() >= 2048 else 'must', CheckExponents='mustnot',
              CheckGCD='mustnot', CheckGCDN1='may')
  return checks.Art(aid, 'rsa', art.rsa_key(n), 'fermat', n=n, p=p, q=q, e=65537, crit=crit)


def rsa_shared_pair(rng, aid1, aid2, bits=2048):
  p = art.rand_prime_top2(rng, bits // 2)
  q1 = art.rand_prime_top2(rng, bits // 2)
  q2 = art.rand_prime_top2(rng, bits // 2)
  out = []
  for aid, q in ((aid1, q1), (aid2, q2)):
    n = p * q
    crit = {c: 'mustnot' for c in RSA_CHECKS}
    out.append(checks.Art(aid, 'rsa', art.rsa_key(n), 'sharedprime', n=n, p=p, q=q, e=65537, crit=crit, shares=p))
  return out


def rsa_nm1_pair(rng, aid1, aid2, bits=2048):
  """Two moduli without a common prime whose n - 1 share a 136-bit prime g (all four primes are 1 mod g)."""
  g = art.rand_prime_top2(rng, 136)
  def pr():
    while True:
      r = rng.getrandbits(bits // 2 - 137) | (3 << (bits // 2 - 139))
      p = 2 * g * r + 1
      if p.bit_length() == bits // 2 and gmpy2.is_prime(p):
        return int(p)
  out = []
  for aid in (aid1, aid2):
    p, q = pr(), pr()
    n = p * q
    crit = {c: 'may' for c in RSA_CHECKS}
    out.append(checks.Art(aid, 'rsa', art.rsa_key(n), 'sharedprime-nm1', n=n, p=p, q=q, e=65537, crit=crit, shares_nm1=g))
  return out


def rsa_copy(a, aid):
  """A second protobuf with the same modulus (identical moduli never accuse each other)."""
  b = checks.Art(aid, 'rsa', art.rsa_key(a.meta['n'], a.meta.get('e', 65537)), a.cls + '-copy', **dict(a.meta))
  return b


def rsa_degenerate(rng, aid, kind):
  """Well-formed but degenerate moduli (>= 64 bits) for the totality and soundness clauses."""
  if kind == 'prime':
    n = art.rand_prime_top2(rng, 2048)
  elif kind == 'square':
    n = art.rand_prime_top2(rng, 1024) ** 2
  elif kind == 'even':
    n = 2 * art.rand_prime_top2(rng, 2047)
  elif kind == 'pow2':
    n = 2 ** 2047
  elif kind == 'oddlen':
    n = art.rand_prime_top2(rng, 1024) * art.rand_prime(rng, 1023)
  elif kind == 'bits64':
    n = art.rand_prime_top2(rng, 32) * art.rand_prime_top2(rng, 32)
  elif kind == 'three':
    n = art.rand_prime_top2(rng, 683) * art.rand_prime_top2(rng, 683) * art.rand_prime_top2(rng, 682)
  elif kind == 'bits65':
    n = art.rand_prime_top2(rng, 33) * art.rand_prime_top2(rng, 32)
  elif kind == 'huge_e':
    a = rsa_healthy(rng, aid, 2048, e=2 ** 64 + 65537, cls='deg-huge_e')
    a.meta['crit'] = {c: 'may' for c in RSA_CHECKS}
    return a
  elif kind == 'empty_e':
    a = rsa_healthy(rng, aid, 2048, cls='deg-empty_e')
    a.proto.rsa_info.e = b''
    a.meta['crit'] = {c: 'may' for c in RSA_CHECKS}
    return a
  else:
    raise ValueError(kind)
  crit = {c: 'may' for c in RSA_CHECKS}
  return checks.Art(aid, 'rsa', art.rsa_key(n), 'deg-' + kind, n=n, e=65537, crit=crit)


def rsa_joint_crit(batch):
  """Per-call criterion for the joint RSA checks, from the primes the harness planted."""
  crit = {}
  distinct = {}
  for a in batch:
    distinct.setdefault(a.meta['n'], a)
  for a in batch:
    c = dict(a.meta.get('crit', {}))
    n = a.meta['n']
    others = [m for m in distinct if m != n]
    if a.cls.startswith(('healthy', 'small', 'exponent', 'sharedprime')):
      shared = any(gmpy2.gcd(n, m) != 1 for m in others)
      c['CheckGCD'] = 'must' if shared else 'mustnot'
      big = any(gmpy2.gcd(n - 1, m - 1) >= 2 ** 128 for m in others)
      c['CheckGCDN1'] = 'must' if big else 'mustnot'
    crit[a.aid] = c
  return crit


# ---------------------------------------------------------------- EC

_NAMED = None


def named_curves():
  """name -> (curve_type, library curve, reference curve)."""
  global _NAMED
  shim.install()
  from paranoid_crypto.lib import ec_util
  if _NAMED is None:
    _NAMED = {}
    for ct, c in ec_util.CURVE_FACTORY.items():
      if c is not None:
        _NAMED[c.name] = (ct, c, refec.ref_of(c))
  return _NAMED


STRONG = ['secp224r1', 'secp256r1', 'secp256k1', 'secp384r1', 'secp521r1', 'brainpoolP256r1', 'brainpoolP384r1', 'brainpoolP512r1']


def ec_crit_healthy(curve_bits):
  c = {x: 'mustnot' for x in EC_CHECKS}
  if curve_bits < 224:
    c['CheckWeakCurve'] = 'must'
  return c


def ec_key(rng, aid, curve='secp256r1', d=None, cls='healthy'):
  ct, _, rc = named_curves()[curve]
  d = rng.randrange(2 ** (rc.n.bit_length() - 8), rc.n) if d is None else d
  P = rc.mul(d, rc.g)
  crit = ec_crit_healthy(rc.n.bit_length())
  return checks.Art(aid, 'ec', art.ec_key(ct, P[0], P[1]), cls, curve=curve, d=d, point=P, crit=crit)


def ec_weak_private(rng, aid, curve='secp256r1'):
  _, _, rc = named_curves()[curve]
  j = 8 * rng.randrange(0, (rc.n.bit_length() - 32) // 8)
  d = rng.randrange(2 ** 31, 2 ** 32) << j
  a = ec_key(rng, aid, curve, d=d, cls='weakprivate')
  a.meta['crit'] = dict(a.meta['crit'], CheckWeakECPrivateKey='must')
  return a


def ec_invalid(rng, aid, curve='secp256r1', how='offcurve'):
  ct, _, rc = named_curves()[curve]
  d = rng.randrange(2, rc.n)
  P = rc.mul(d, rc.g)
  if how == 'offcurve':
    x, y = P[0], (P[1] + 1) % rc.p
  elif how == 'zero':
    x, y = 0, 0
  elif how == 'p':
    x, y = rc.p, rc.p
  elif how == 'xplusp':
    x, y = P[0] + rc.p, P[1]
  elif how == 'huge':
    x, y = 2 ** 600 + 5, 2 ** 600 + 7
  elif how == 'y0':
    x, y = P[0], 0
  else:
    raise ValueError(how)
  crit = {c: 'may' for c in EC_CHECKS}
  crit['CheckValidECKey'] = 'must'
  return checks.Art(aid, 'ec', art.ec_key(ct, x, y), 'invalid-' + how, curve=curve, point=(x, y), crit=crit)


def ec_unknown_curve(rng, aid, curve_type):
  crit = {'CheckValidECKey': 'must'}
  return checks.Art(aid, 'ec', art.ec_key(curve_type, rng.getrandbits(160), rng.getrandbits(160)), 'curve%d' % curve_type,
                    curve=None, crit=crit)


def ec_copy(a, aid):
  k = pbmod().ECKey()
  k.ec_info.CopyFrom(a.proto.ec_info)
  return checks.Art(aid, 'ec', k, a.cls + '-copy', **dict(a.meta))


def ec_joint_crit(batch, max_diff):
  crit = {}
  for a in batch:
    c = dict(a.meta.get('crit', {}))
    if a.meta.get('d') is not None and a.cls in ('healthy', 'weakprivate', 'close', 'healthy-copy', 'close-copy'):
      near = False
      for o in batch:
        if o is a or o.meta.get('curve') != a.meta.get('curve') or o.meta.get('d') is None:
          continue
        if o.meta['point'] != a.meta['point'] and abs(o.meta['d'] - a.meta['d']) < max_diff:
          near = True
      c['CheckECKeySmallDifference'] = 'must' if near else 'mustnot'
    crit[a.aid] = c
  return crit


# ---------------------------------------------------------------- ECDSA

def ref_sign(rc, d, k, z):
  P = rc.mul(k, rc.g)
  r = P[0] % rc.n
  s = pow(k, -1, rc.n) * (z + r * d) % rc.n
  return r, s


def bits2int(hb, n):
  v = int.from_bytes(hb, 'big')
  if 8 * len(hb) > n.bit_length():
    v >>= 8 * len(hb) - n.bit_length()
  return v % n


def ecdsa_sig(rng, aid, curve, d, k, cls, msg=None, hashname='sha256', pub=None, curve_label=None):
  ct, _, rc = named_curves()[curve]
  msg = msg if msg is not None else rng.getrandbits(128).to_bytes(16, 'big')
  zero_first = hashname.endswith('z')            # e.g. sha512z: a digest whose first byte is zero
  hashname = hashname.rstrip('z')
  hb = hashlib.new(hashname, msg).digest()
  while zero_first and hb[0] != 0:
    msg = rng.getrandbits(128).to_bytes(16, 'big')
    hb = hashlib.new(hashname, msg).digest()
  z = bits2int(hb, rc.n)
  while True:
    r, s = ref_sign(rc, d, k, z)
    if r and s:
      break
    k += 1
  P = pub if pub is not None else rc.mul(d, rc.g)
  sig = pbmod().ECDSASignature()
  sig.ecdsa_sig_info.r = art.i2b(r)
  sig.ecdsa_sig_info.s = art.i2b(s)
  sig.ecdsa_sig_info.message_hash = hb
  sig.issuer_key_info.curve_type = ct if curve_label is None else curve_label
  sig.issuer_key_info.x = art.i2b(P[0])
  sig.issuer_key_info.y = art.i2b(P[1])
  crit = {c: 'mustnot' for c in ECDSA_CHECKS}
  return checks.Art(aid, 'ecdsa', sig, cls, curve=curve, d=d, k=k, point=P, crit=crit, r=r, s=s, z=z)


def healthy_sigs(rng, prefix, curve, count, d=None):
  _, _, rc = named_curves()[curve]
  d = rng.randrange(2 ** (rc.n.bit_length() - 8), rc.n) if d is None else d
  return [ecdsa_sig(rng, '%s%d' % (prefix, i), curve, d, rng.randrange(1, rc.n), 'healthy') for i in range(count)]


def msb_biased_sigs(rng, prefix, curve, count, bias_bits, d=None):
  """Nonces whose top bias_bits bits are zero."""
  _, _, rc = named_curves()[curve]
  d = rng.randrange(2 ** (rc.n.bit_length() - 8), rc.n) if d is None else d
  out = []
  for i in range(count):
    k = rng.randrange(1, 2 ** (rc.n.bit_length() - bias_bits))
    a = ecdsa_sig(rng, '%s%d' % (prefix, i), curve, d, k, 'msb%d' % bias_bits)
    a.meta['crit'] = dict({c: 'may' for c in ECDSA_CHECKS}, CheckNonceMSB='must', CheckIssuerKey='mustnot')
    out.append(a)
  return out
