"""C10 — small and structured discrete logarithms are always found (under every cache history)."""
import json
import os
import random
import re
import shutil

from pv import art
from pv import refec
from pv import shim
from pv import smallec
from pv import tlc

enc = refec.enc
lib = refec.to_lib

# model order Q -> small curves with that group order
CURVES_BY_Q = {67: ['c59b', 'c73'], 71: ['c59a'], 73: ['c67']}


def R(sid, ev, args):
  return {'sid': sid, 'ev': ev, 'args': args, 'obs': {}, 'raised': 'none'}


REL = re.compile(r'^key - \(([0-9a-f]+), ([0-9a-f]+)\) = (-?\d+) \* G$')


def dl_record(c, pts, ks, bound, sid):
  rec = R(sid, 'batchdl', {'pts': [enc(pts[k]) for k in ks], 'bound': bound})
  try:
    res = c.BatchDL([lib(pts[k]) for k in ks], bound)
    rec['obs'] = {'found': [x is not None for x in res], 'dl': [0 if x is None else int(x) for x in res],
                  'table_size': int(c._table_size) if hasattr(c, '_table_size') else -1}
  except Exception as e:  # pylint: disable=broad-except
    rec['raised'] = type(e).__name__
  return rec


def diff_record(c, pts, ks, others, maxdiff, sid):
  rec = R(sid, 'diffdl', {'pts': [enc(pts[k]) for k in ks], 'others': [enc(pts[k]) for k in others], 'maxdiff': maxdiff})
  try:
    res = c.BatchDLOfDifferences([lib(pts[k]) for k in ks], [lib(pts[k]) for k in others] if others is not None else None, maxdiff)
    found, q, kk = [], [], []
    for x in res:
      m = REL.match(x) if isinstance(x, str) else None
      found.append(x is not None)
      if m:
        q.append([int(m.group(1), 16), int(m.group(2), 16)])
        kk.append(int(m.group(3)))
      else:
        q.append([-2, -2] if x is not None else [-1, -1])   # unparsable relation never matches a point
        kk.append(0)
    rec['obs'] = {'found': found, 'q': q, 'k': kk}
  except Exception as e:  # pylint: disable=broad-except
    rec['raised'] = type(e).__name__
  return rec


def replay_history(tag, hist, sid, rng):
  """Fresh curve object; for each model call, real calls that cover every x below the bound."""
  c = smallec.make(tag)
  rc, pts = smallec.group_points(tag)
  q = rc.n
  recs = []
  for ci, (call, T_model) in enumerate(hist):
    kind, a, b = call
    if kind == 'dl':
      ln, bound = a, b
      xs = list(range(bound)) + [rng.randrange(bound, q) for _ in range(3) if bound < q]
      rng.shuffle(xs)
      # the point at infinity (x = 0) and non-small logs are mixed in; every list has exactly `ln` points
      while len(xs) % ln:
        xs.append(rng.randrange(q))
      for j in range(0, len(xs), ln):
        recs.append(dl_record(c, pts, xs[j:j + ln], bound, '%s-c%d-dl%d' % (sid, ci, j)))
    else:
      md = a
      k0 = rng.randrange(1, q)
      for j in range(3):
        ds = sorted(set([1, md - 1, md, md + 1, rng.randrange(1, q)]))
        ks = [(k0 + d * rng.choice([1, -1])) % q for d in rng.sample(ds, min(len(ds), rng.randrange(1, 4)))] + [k0]
        ks = [k for k in ks if k != 0]          # the point at infinity is not a public key
        if rng.random() < 0.5:
          ks.append(k0)                       # identical key
        rng.shuffle(ks)
        others = [rng.randrange(1, q) for _ in range(rng.randrange(0, 3))]
        recs.append(diff_record(c, pts, ks, others, md, '%s-c%d-diff%d' % (sid, ci, j)))
    ts = getattr(c, '_table_size', None)
    recs[-1]['obs']['model_T'] = T_model
    recs[-1]['obs']['table_matches_model'] = (ts is None) or int(ts) == T_model
  return recs


def named_records(quick, rng):
  shim.install()
  from paranoid_crypto.lib import ec_util
  from paranoid_crypto import paranoid_pb2 as pb
  recs = []
  names = ['secp256r1', 'secp256k1', 'brainpoolP256r1'] if quick else ['secp192r1', 'secp224r1', 'secp256r1', 'secp256k1', 'secp384r1', 'secp521r1',
                                                   'brainpoolP256r1', 'brainpoolP384r1', 'brainpoolP512r1']
  curves = {c.name: (ct, c) for ct, c in ec_util.CURVE_FACTORY.items() if c is not None}
  for name in names:
    if name not in curves:
      continue
    ct, orig = curves[name]
    rc = refec.ref_of(orig)
    n = rc.n
    def fresh():
      return ec_util.EcCurve(orig.name, orig.a, orig.b, orig.mod, orig.g[0], orig.g[1], orig.n, orig.h)
    # (a) BatchDL with boundary x values under a call history on one object
    c = fresh()
    for hi, (ln, bound) in enumerate([(1, 2 ** 12), (3, 2 ** 16), (2, 2 ** 10), (4, 2 ** 14), (1, 1), (2, 2)] if quick else
                                     [(1, 2 ** 12), (3, 2 ** 16), (2, 2 ** 10), (4, 2 ** 14), (1, 1), (2, 2), (5, 2 ** 20), (1, 2 ** 18), (7, 2 ** 8)]):
      import math
      ts = int(math.sqrt(bound * ln))
      t = max(1, 2 * ts - 1)
      cand = [0, 1, 2, bound - 1, bound, bound + 1, ts - 1, ts, ts + 1] + [j * t + d for j in (1, 2, bound // t, bound // t + 1) for d in (-1, 0, 1)]
      cand = sorted(set(x for x in cand if 0 <= x < 2 ** 31))
      cand += [rng.randrange(bound) for _ in range(6)]
      while len(cand) % ln:
        cand.append(rng.randrange(bound))
      big = rng.randrange(2 ** 64, n)
      for j in range(0, len(cand), ln):
        xs = cand[j:j + ln]
        keys = list(xs)
        if j == 0:
          keys[0] = big if ln == 1 else keys[0]
        ptsl = [rc.mul(k, rc.g) for k in keys]
        rec = R('named-%s-h%d-dl%d' % (name, hi, j), 'ndl', {'curve': name, 'bound': bound, 'x': [k if k < 2 ** 31 else -1 for k in keys]})
        try:
          res = c.BatchDL([lib(P) for P in ptsl], bound)
          rec['obs'] = {'found': [x is not None for x in res],
                        'correct': [x is not None and rc.mul(int(x) % n, rc.g) == P for x, P in zip(res, ptsl)]}
        except Exception as e:  # pylint: disable=broad-except
          rec['raised'] = type(e).__name__
        recs.append(rec)
    # (b) small differences, batch + history list, with a table left by (a) or fresh
    for hi in range(2 if quick else 6):
      c2 = c if hi % 2 == 0 else fresh()
      md = rng.choice([2 ** 8, 2 ** 10, 2 ** 12])
      base = rng.randrange(2 ** 100, n - 2 ** 40)
      offs = [0, rng.choice([1, -1]), md - 1, -(md - 1), md, 5 * md, 0, rng.randrange(-md + 1, md)]
      rng.shuffle(offs)
      no = rng.randrange(0, 3)
      others, pts_off = offs[:no], offs[no:]
      allpts = [rc.mul(base + o, rc.g) for o in offs]
      rec = R('named-%s-diff%d' % (name, hi), 'ndiff', {'curve': name, 'maxdiff': md, 'off': offs, 'nothers': no})
      try:
        res = c2.BatchDLOfDifferences([lib(P) for P in allpts[no:]], [lib(P) for P in allpts[:no]], md)
        found, relok, qidx, kk = [], [], [], []
        for i, x in enumerate(res):
          found.append(x is not None)
          m = REL.match(x) if isinstance(x, str) else None
          if m:
            qq = (int(m.group(1), 16), int(m.group(2), 16))
            k = int(m.group(3))
            relok.append(rc.add(allpts[no + i], rc.neg(qq)) == rc.mul(k % n, rc.g))
            qidx.append(allpts.index(qq) + 1 if qq in allpts else 0)
            # the same point may occur at several indexes (identical keys): take one with a matching offset
            for j, P in enumerate(allpts):
              if P == qq and offs[j] == offs[no + i] - k:
                qidx[-1] = j + 1
            kk.append(k if abs(k) < 2 ** 31 else 0)
          else:
            relok.append(False)
            qidx.append(0)
            kk.append(0)
        rec['obs'] = {'found': found, 'relok': relok, 'qidx': qidx, 'k': kk}
      except Exception as e:  # pylint: disable=broad-except
        rec['raised'] = type(e).__name__
      recs.append(rec)
    # (c) structured private keys through ExtendedBatchDL (one call) and, thorough only, through the check
    if name in ('secp256r1', 'brainpoolP256r1') or not quick:
      bits = n.bit_length()
      keys, cls = [], []
      shifts = list(range(0, bits - 31, 8))
      for j in (rng.sample(shifts, 3) + [0, shifts[-1]] if quick else shifts):
        # any 32-bit window value that keeps the key below the order (on Brainpool curves the top word of n is below 2^32 - 1)
        v = rng.randrange(1, min(2 ** 32, (n >> j) + 1))
        if 0 < (v << j) < n:
          keys.append(v << j)
          cls.append('shift8')
      for reps in ([2, bits // 32] if quick else range(2, bits // 32 + 1)):
        w = rng.randrange(1, 2 ** 32)
        k = sum(w << (32 * i) for i in range(reps))
        if k < n:
          keys.append(k)
          cls.append('repeat')
      keys += [rng.randrange(2 ** 200 if bits > 200 else 2 ** 100, n), (rng.randrange(2 ** 32, 2 ** 33) | 1) << 4,
               n - (rng.randrange(2 ** 20, 2 ** 32) << 16)]
      cls += ['random', 'other', 'other']
      ptsl = [rc.mul(k, rc.g) for k in keys]
      c3 = fresh()
      rec = R('named-%s-ext' % name, 'next', {'curve': name, 'cls': cls})
      try:
        res = c3.ExtendedBatchDL([lib(P) for P in ptsl])
        rec['obs'] = {'found': [x is not None for x in res],
                      'correct': [x is not None and (int(x) - k) % n == 0 for x, k in zip(res, keys)]}
      except Exception as e:  # pylint: disable=broad-except
        rec['raised'] = type(e).__name__
      recs.append(rec)
      del c3
  return recs


def run(ctx):
  ctx.trust('TLC 1.8', 'refec.py reference law (named curves and enumeration of small-group points)',
            'regex parser of the relation string "key - (x, y) = k * G"')
  ctx.assume('completeness on named curves is decided by TLC from the known private keys (small integers / offsets / class tags); '
             'the reference multiplication verifies every recorded logarithm')
  smallec.check_cfgs()
  # 1. model check the Z_q baby-step/giant-step with the cached table under call histories
  cfgs = ['quick'] if ctx.quick else ['q67', 'q59', 'q71', 'q73']
  jobs = [('Bsgs', 'MC_Bsgs_%s.cfg' % c) for c in cfgs] + [('Bsgs', 'MC_Bsgs_dev_giant.cfg'), ('Bsgs', 'MC_Bsgs_dev_step.cfg')]
  res = tlc.run_many(jobs, workers_each=max(2, 16 // len(jobs)), timeout=7200)
  for (m, cfg), r in zip(jobs, res):
    if 'dev_' in cfg:
      if r.violated != 'Complete':
        raise tlc.MachineryError('deviation %s should violate Complete: the model would be vacuous' % cfg)
    else:
      if r.violated or r.distinct < 1:
        raise tlc.MachineryError('Bsgs model %s: %s %s' % (cfg, r.violated, r.error_text))
      ctx.note_mc(r, 'Bsgs/%s: every x below the bound found after every call, every call history of length 2, all bounds 1..Q, all max_diff' % cfg)
  ctx.notes['non_vacuity'] = 'both off-by-one deviations of the step constants violate Complete in TLC'
  # 2. call histories from the specification
  simdir = os.path.join(tlc.BUILD, 'sim-C10-%d' % os.getpid())
  recs_by_tag = {}
  nb = 0
  for Q, tags in CURVES_BY_Q.items():
    shutil.rmtree(simdir, ignore_errors=True)
    os.makedirs(simdir)
    num = 40 if ctx.quick else 400
    r = tlc.run('BsgsSim', 'SIM_Bsgs_q%d.cfg' % Q, workers=1, coverage=False, simulate='file=%s/tr,num=%d' % (simdir, num),
                depth=6, seed=ctx.seed + Q)
    if r.violated:
      raise tlc.MachineryError('BsgsSim: %s' % r.error_text)
    ctx.checker_cmds.append(r.cmd)
    beh = tlc.parse_sim_files(simdir)
    shutil.rmtree(simdir, ignore_errors=True)
    if len(beh) < num // 2:
      raise tlc.MachineryError('BsgsSim produced %d behaviours' % len(beh))
    for bi, (name, states) in enumerate(beh):
      hist = tlc.tla_value(states[-1][1]['hist'])
      tag = tags[bi % len(tags)]
      sid = '%s-q%d-%s' % (tag, Q, name)
      if ctx.only_sid and not ctx.only_sid.startswith(sid):
        continue
      recs_by_tag.setdefault(tag, []).extend(replay_history(tag, hist, sid, ctx.rng))
      nb += 1
      if bi == 0:
        ctx.sample({'curve': tag, 'history': hist})
  ctx.notes['histories_replayed'] = nb
  named = named_records(ctx.quick, ctx.rng)
  if ctx.only_sid:
    named = [x for x in named if x['sid'] == ctx.only_sid]
    for t in recs_by_tag:
      recs_by_tag[t] = [x for x in recs_by_tag[t] if x['sid'] == ctx.only_sid]
  ctx.replayed = sum(len(v) for v in recs_by_tag.values()) + len(named)
  # cache-size agreement with the model is informational (internal attribute): report, never alarm
  mism = sum(1 for v in recs_by_tag.values() for x in v if x['obs'].get('table_matches_model') is False)
  ctx.notes['table_size_disagreements_with_model(informational)'] = mism
  from concurrent.futures import ThreadPoolExecutor
  def val(t):
    recs = list(recs_by_tag[t])
    return t, tlc.validate_trace_parallel('EcTrace', 'EcTrace_%s.cfg' % t, recs, 'C10-' + t, jobs=4, timeout=3600, heap='3g')
  with ThreadPoolExecutor(max_workers=4) as ex:
    results = list(ex.map(val, [t for t in recs_by_tag if recs_by_tag[t]]))
  for t, (c, fails, trs) in results:
    ctx.validated += c
    ctx.note_mc(trs[0], 'EcTrace_%s (first of %d chunks)' % (t, len(trs)))
    ctx.states += sum(x.distinct for x in trs[1:])
    ctx.transitions += sum(x.generated for x in trs[1:])
    by = {x['sid']: x for x in recs_by_tag[t]}
    ctx.trace_failures(fails, by, lambda rec, f: {'curve': t, 'ev': rec['ev'], 'args': rec['args'], 'obs': rec['obs'], 'raised': rec['raised']})
    ctx.distinct.update(by)
    ctx.sample(recs_by_tag[t][0])
  if named:
    c, fails, tr = tlc.validate_trace('NamedDlTrace', 'NamedDlTrace.cfg', named, 'C10-named')
    ctx.validated += c
    ctx.note_mc(tr, 'NamedDlTrace: completeness/soundness criterion on named curves')
    by = {x['sid']: x for x in named}
    ctx.trace_failures(fails, by, lambda rec, f: {'ev': rec['ev'], 'args': rec['args'], 'obs': rec['obs'], 'raised': rec['raised']})
    ctx.distinct.update(by)
    ctx.sample(named[0])
  # check level: close / structured keys interleaved with keys of other curves, through CheckECKeySmallDifference / CheckWeakECPrivateKey
  if not ctx.only_sid or ctx.only_sid.startswith('C10-ec-directed'):
    from pv import drive_C16
    saved = drive_C16.DIRECTED
    drive_C16.DIRECTED = DIRECTED
    try:
      drive_C16.replay_and_validate(ctx, [], 'C10', pre_annotate=False)
    finally:
      drive_C16.DIRECTED = saved


DIRECTED = [
    ('ec', 'close-around-another-curve', {'s1': 'closeA', 's2': 'healthy384', 's3': 'closeB', 's4': 'healthyk1', 's5': 'healthy'},
     [{'all': False, 'check': 'CheckECKeySmallDifference', 'batch': ['s1', 's2', 's3']},
      {'all': False, 'check': 'CheckECKeySmallDifference', 'batch': ['s4', 's3', 's2', 's5', 's1']}]),
    ('ec', 'structured-around-another-curve', {'s1': 'weakprivate', 's2': 'healthy384', 's3': 'weakprivatetop', 's4': 'healthy'},
     [{'all': False, 'check': 'CheckWeakECPrivateKey', 'batch': ['s2', 's1', 's4', 's3']}]),
]


def selftest(ctx):
  rng = random.Random(2)
  recs = replay_history('c73', [[['dl', 2, 30], 7], [['diff', 9, 0], 9]], 'self', rng)
  bad = json.loads(json.dumps(recs[0]))
  bad['sid'] = 'corrupt'
  bad['obs']['found'][0] = False
  _, fails, _ = tlc.validate_trace('EcTrace', 'EcTrace_c73.cfg', recs + [bad], 'C10self')
  got = [(f['sid'], f['clause']) for f in fails]
  assert got == [('corrupt', 'DLogComplete')] or got == [('corrupt', 'DLogSound')], got
  print('selftest ok', got)
