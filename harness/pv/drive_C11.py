"""C11 — elliptic-curve arithmetic is the group law on every input."""
import itertools
import json
import random

import gmpy2

from pv import refec
from pv import shim
from pv import smallec
from pv import tlc

enc = refec.enc


def R(sid, ev, args):
  return {'sid': sid, 'ev': ev, 'args': args, 'obs': {}, 'raised': 'none'}


def call(rec, fn, post):
  try:
    rec['obs'] = post(fn())
  except Exception as e:  # pylint: disable=broad-except
    rec['raised'] = type(e).__name__
  return rec


def lib(P):
  return refec.to_lib(P)


def to_jac(P, p, rng):
  if P is None:
    return rng.choice([(1, 1, 0), (rng.randrange(1, p), rng.randrange(1, p), 0)])
  z = rng.randrange(1, p)
  return (gmpy2.mpz(P[0] * z * z % p), gmpy2.mpz(P[1] * z * z * z % p), gmpy2.mpz(z))


def from_jac(J, p):
  x, y, z = (int(v) for v in J)
  if z % p == 0:
    return None
  zi = pow(z, -1, p)
  return (x * zi * zi % p, y * zi * zi * zi % p)


def xenc(v):
  return -1 if v is None else int(v)


def small_curve_records(tag, quick, rng):
  c = smallec.make(tag)
  rc, pts = smallec.group_points(tag)
  p, q = rc.p, rc.n
  recs = []
  T = tag
  allpairs = not quick or tag in ('c59a', 'c67')
  pairs = list(itertools.product(range(q), repeat=2))
  if not allpairs:
    pairs = rng.sample(pairs, 600) + [(i, i) for i in range(q)] + [(i, (q - i) % q) for i in range(q)]
  for i, j in pairs:
    P, Q = pts[i], pts[j]
    a = {'p': enc(P), 'q': enc(Q)}
    recs.append(call(R('%s-add-%d-%d' % (T, i, j), 'add', a), lambda: c.Add(lib(P), lib(Q)), lambda r: {'r': enc(r)}))
    recs.append(call(R('%s-sub-%d-%d' % (T, i, j), 'subtract', a), lambda: c.Subtract(lib(P), lib(Q)), lambda r: {'r': enc(r)}))
    recs.append(call(R('%s-addjac-%d-%d' % (T, i, j), 'addjac', a),
                     lambda: c.AddJacobian(to_jac(P, p, rng), to_jac(Q, p, rng)), lambda r: {'r': enc(from_jac(r, p))}))
  for i in range(q):
    P = pts[i]
    a = {'p': enc(P)}
    recs.append(call(R('%s-dbl-%d' % (T, i), 'double', a), lambda: c.Double(lib(P)), lambda r: {'r': enc(r)}))
    recs.append(call(R('%s-neg-%d' % (T, i), 'negate', a), lambda: c.Negate(lib(P)), lambda r: {'r': enc(r)}))
    recs.append(call(R('%s-dbljac-%d' % (T, i), 'doublejac', a), lambda: c.DoubleJacobian(to_jac(P, p, rng)),
                     lambda r: {'r': enc(from_jac(r, p))}))
    recs.append(call(R('%s-j2a-%d' % (T, i), 'batchjac', {'ps': [enc(P)]}),
                     lambda: [c.JacobianToAffine(to_jac(P, p, rng) if P is not None else (1, 1, 0))], lambda r: {'rs': [enc(x) for x in r]}))
    ks = range(-q, 2 * q + 1) if (not quick or (tag == 'c59a' and i % 3 == 0)) else sorted(
        set([-q, -q + 1, -2, -1, 0, 1, 2, 3, q - 1, q, q + 1, 2 * q - 1, 2 * q] + [rng.randrange(-q, 2 * q) for _ in range(6)]))
    for k in ks:
      a = {'p': enc(P), 'k': k}
      recs.append(call(R('%s-mul-%d-%d' % (T, i, k), 'mul', a), lambda: c.Multiply(lib(P), k), lambda r: {'r': enc(r)}))
      recs.append(call(R('%s-mula-%d-%d' % (T, i, k), 'mulaffine', a), lambda: c.MultiplyAffine(lib(P), k), lambda r: {'r': enc(r)}))
  # batched operations on every list of <= 4 case classes relative to a base point
  nb = 3 if quick else 12
  for bi in range(nb):
    base_i = rng.randrange(1, q)
    Pb = pts[base_i] if bi else None
    g1, g2 = pts[rng.randrange(1, q)], pts[rng.randrange(1, q)]
    classes = {'inf': None, 'same': Pb, 'opp': rc.neg(Pb), 'g1': g1, 'g2': g2, 'dbl': rc.add(Pb, Pb)}
    names = sorted(classes)
    lists = [()] + [l for n in (1, 2, 3, 4) for l in itertools.product(names, repeat=n)]
    if quick:
      lists = [l for l in lists if len(l) <= 2] + rng.sample([l for l in lists if len(l) > 2], 150)
    for li, l in enumerate(lists):
      qs = [classes[x] for x in l]
      a = {'p': enc(Pb), 'qs': [enc(x) for x in qs], 'classes': list(l)}
      sid = '%s-b%d-%s' % (T, bi, '.'.join(l) or 'empty')
      recs.append(call(R(sid + '-badd', 'batchadd', a), lambda: c.BatchAdd(lib(Pb), [lib(x) for x in qs]), lambda r: {'rs': [enc(x) for x in r]}))
      recs.append(call(R(sid + '-baddx', 'batchaddx', a), lambda: c.BatchAddX(lib(Pb), [lib(x) for x in qs]), lambda r: {'xs': [xenc(x) for x in r]}))
      recs.append(call(R(sid + '-basx', 'batchaddsubx', a), lambda: c.BatchAddSubtractX(lib(Pb), [lib(x) for x in qs]),
                       lambda r: {'sums': [xenc(x) for x in r[0]], 'diffs': [xenc(x) for x in r[1]]}))
      ps = [classes[x] for x in reversed(l)]
      a2 = {'ps': [enc(x) for x in ps], 'qs': [enc(x) for x in qs]}
      recs.append(call(R(sid + '-balist', 'batchaddlist', a2), lambda: c.BatchAddList([lib(x) for x in ps], [lib(x) for x in qs]),
                       lambda r: {'rs': [enc(x) for x in r]}))
      recs.append(call(R(sid + '-bdbl', 'batchdouble', {'ps': [enc(x) for x in qs]}), lambda: c.BatchDouble([lib(x) for x in qs]),
                       lambda r: {'rs': [enc(x) for x in r]}))
      recs.append(call(R(sid + '-bjac', 'batchjac', {'ps': [enc(x) for x in qs]}),
                       lambda: c.BatchJacobianToAffine([to_jac(x, p, rng) for x in qs]), lambda r: {'rs': [enc(x) for x in r]}))
  # BatchInverse on every list of <= 3 values from {None, 0, p, 1, v}
  vals = [None, 0, 1, 2, p - 1, rng.randrange(2, p)]   # documented domain: residues, 0 and None
  for n in (0, 1, 2, 3):
    for l in itertools.product(vals, repeat=n):
      recs.append(call(R('%s-binv-%s' % (T, '.'.join(map(str, l))), 'batchinverse', {'values': [xenc(v) for v in l]}),
                       lambda: c.BatchInverse([None if v is None else gmpy2.mpz(v) for v in l]), lambda r: {'inv': [xenc(x) for x in r]}))
  # BatchMultiplyG: scalar classes zero, negative, order, order +- 1, large
  for li in range(40 if quick else 300):
    n = rng.randrange(0, 6)
    ks = [rng.choice([0, 1, -1, q, q - 1, q + 1, 2 * q, -q, rng.randrange(-3 * q, 3 * q), rng.randrange(0, 2 ** 20)]) for _ in range(n)]
    cc = smallec.make(tag) if li % 5 == 0 else c      # fresh comb cache now and then
    recs.append(call(R('%s-bmg-%d' % (T, li), 'batchmulg', {'ks': ks}), lambda: cc.BatchMultiplyG(list(ks)), lambda r: {'rs': [enc(x) for x in r]}))
  for i in ([0, 1, 5] if quick else range(0, q, 3)):
    for n in (1, 2, 3, q - 1, q, q + 1, q + 5):
      recs.append(call(R('%s-pseq-%d-%d' % (T, i, n), 'pointseq', {'p': enc(pts[i]), 'n': n}),
                       lambda: c.PointSequence(lib(pts[i]), n), lambda r: {'rs': [enc(x) for x in r]}))
  return recs


def whole_curve_records(tag, quick, rng):
  """Cofactor curves: every operation on points of the whole curve group (outside <G>, points of order two)."""
  c = smallec.make(tag)
  p, a, b, gx, gy, q, h = smallec.CURVES[tag]
  rc = refec.RefCurve(p, a, b, (gx, gy), q)
  pts = [None] + [(x, y) for x in range(p) for y in range(p) if (y * y - x * x * x - a * x - b) % p == 0]
  assert len(pts) == q * h, (tag, len(pts))
  T = tag + 'w'
  N = len(pts)
  recs = []
  pairs = list(itertools.product(range(N), repeat=2))
  if quick:
    pairs = rng.sample(pairs, 500) + [(i, i) for i in range(N)] + [(i, pts.index(rc.neg(pts[i]))) for i in range(N)]
  for i, j in pairs:
    P, Q = pts[i], pts[j]
    a_ = {'p': enc(P), 'q': enc(Q)}
    recs.append(call(R('%s-add-%d-%d' % (T, i, j), 'add', a_), lambda: c.Add(lib(P), lib(Q)), lambda r: {'r': enc(r)}))
    recs.append(call(R('%s-sub-%d-%d' % (T, i, j), 'subtract', a_), lambda: c.Subtract(lib(P), lib(Q)), lambda r: {'r': enc(r)}))
    recs.append(call(R('%s-addjac-%d-%d' % (T, i, j), 'addjac', a_),
                     lambda: c.AddJacobian(to_jac(P, p, rng), to_jac(Q, p, rng)), lambda r: {'r': enc(from_jac(r, p))}))
  order = q * h
  for i in range(N):
    P = pts[i]
    a_ = {'p': enc(P)}
    recs.append(call(R('%s-dbl-%d' % (T, i), 'double', a_), lambda: c.Double(lib(P)), lambda r: {'r': enc(r)}))
    recs.append(call(R('%s-neg-%d' % (T, i), 'negate', a_), lambda: c.Negate(lib(P)), lambda r: {'r': enc(r)}))
    recs.append(call(R('%s-dbljac-%d' % (T, i), 'doublejac', a_), lambda: c.DoubleJacobian(to_jac(P, p, rng)),
                     lambda r: {'r': enc(from_jac(r, p))}))
    ks = sorted(set([-order, -q, -2, -1, 0, 1, 2, q - 1, q, q + 1, 2 * q, order - 1, order, order + 1] + [rng.randrange(-order, 2 * order) for _ in range(3 if quick else 30)]))
    for k in ks:
      a_ = {'p': enc(P), 'k': k}
      recs.append(call(R('%s-mul-%d-%d' % (T, i, k), 'mul', a_), lambda: c.Multiply(lib(P), k), lambda r: {'r': enc(r)}))
      recs.append(call(R('%s-mula-%d-%d' % (T, i, k), 'mulaffine', a_), lambda: c.MultiplyAffine(lib(P), k), lambda r: {'r': enc(r)}))
  ord2 = [P for P in pts if P is not None and P[1] == 0]
  for bi in range(4 if quick else 16):
    Pb = rng.choice(ord2) if bi == 0 and ord2 else pts[rng.randrange(1, N)]
    classes = {'inf': None, 'same': Pb, 'opp': rc.neg(Pb), 'g1': pts[rng.randrange(1, N)], 'o2': ord2[0] if ord2 else pts[1], 'dbl': rc.add(Pb, Pb)}
    names = sorted(classes)
    lists = [l for n in (1, 2, 3) for l in itertools.product(names, repeat=n)]
    if quick:
      lists = [l for l in lists if len(l) <= 1] + rng.sample([l for l in lists if len(l) > 1], 40)
    for l in lists:
      qs = [classes[x] for x in l]
      a_ = {'p': enc(Pb), 'qs': [enc(x) for x in qs], 'classes': list(l)}
      sid = '%s-b%d-%s' % (T, bi, '.'.join(l))
      recs.append(call(R(sid + '-badd', 'batchadd', a_), lambda: c.BatchAdd(lib(Pb), [lib(x) for x in qs]), lambda r: {'rs': [enc(x) for x in r]}))
      recs.append(call(R(sid + '-basx', 'batchaddsubx', a_), lambda: c.BatchAddSubtractX(lib(Pb), [lib(x) for x in qs]),
                       lambda r: {'sums': [xenc(x) for x in r[0]], 'diffs': [xenc(x) for x in r[1]]}))
      recs.append(call(R(sid + '-bdbl', 'batchdouble', {'ps': [enc(x) for x in qs]}), lambda: c.BatchDouble([lib(x) for x in qs]),
                       lambda r: {'rs': [enc(x) for x in r]}))
      recs.append(call(R(sid + '-bjac', 'batchjac', {'ps': [enc(x) for x in qs]}),
                       lambda: c.BatchJacobianToAffine([to_jac(x, p, rng) for x in qs]), lambda r: {'rs': [enc(x) for x in r]}))
  for i in ([1, 2] if quick else range(1, N, 5)):
    recs.append(call(R('%s-pseq-%d' % (T, i), 'pointseq', {'p': enc(pts[i]), 'n': order + 2}),
                     lambda: c.PointSequence(lib(pts[i]), order + 2), lambda r: {'rs': [enc(x) for x in r]}))
  return recs


NAMED_SANITY = None


def named_curve_records(quick, rng):
  """T2: the same case classes on every CURVE_FACTORY entry against the reference law + curve sanity."""
  shim.install()
  from paranoid_crypto.lib import ec_util
  recs = []
  for ctype, c in sorted(ec_util.CURVE_FACTORY.items(), key=lambda kv: kv[0]):
    if c is None:
      continue      # binary-field identifiers have no parameters
    rc = refec.ref_of(c)
    name = c.name
    p, n = rc.p, rc.n
    G = rc.g
    disc = (4 * pow(rc.a, 3, p) + 27 * rc.b * rc.b) % p
    hasse = (p + 1 - n * c.h) ** 2 <= 4 * p
    sane = {'p_prime': bool(gmpy2.is_prime(p, 50)), 'n_prime': bool(gmpy2.is_prime(n, 50)), 'nonsingular': disc != 0,
            'g_on_curve': rc.on_curve(G), 'nG_is_inf': rc.mul(n, G) is None, 'hasse': bool(hasse), 'h_is_1': c.h == 1}
    recs.append({'sid': 'named-%s-params' % name, 'ev': 'params', 'args': {'curve': name}, 'obs': sane, 'raised': 'none'})
    k = rng.randrange(1, n)
    P = rc.mul(k, G)
    steps = (n.bit_length() + 7) // 8
    specials = {'inf': None, 'P': P, 'negP': rc.neg(P), 'twoP': rc.add(P, P), 'nm1G': rc.mul(n - 1, G), 'G': G,
                'other': rc.mul(rng.randrange(1, n), G)}
    def ok(sid, op, fn, want):
      rec = R('named-%s-%s' % (name, sid), 'ref', {'curve': name, 'op': op})
      return call(rec, fn, lambda r: {'ok': bool(r == want)})
    for an, A in specials.items():
      for bn, B in specials.items():
        recs.append(ok('add-%s-%s' % (an, bn), 'Add', lambda: refec.from_lib(c.Add(lib(A), lib(B))), rc.add(A, B)))
        recs.append(ok('addjac-%s-%s' % (an, bn), 'AddJacobian',
                       lambda: from_jac(c.AddJacobian(to_jac(A, p, rng), to_jac(B, p, rng)), p), rc.add(A, B)))
      recs.append(ok('dbl-%s' % an, 'Double', lambda: refec.from_lib(c.Double(lib(A))), rc.add(A, A)))
      recs.append(ok('dbljac-%s' % an, 'DoubleJacobian', lambda: from_jac(c.DoubleJacobian(to_jac(A, p, rng)), p), rc.add(A, A)))
      recs.append(ok('neg-%s' % an, 'Negate', lambda: refec.from_lib(c.Negate(lib(A))), rc.neg(A)))
      qs = list(specials.values())
      recs.append(ok('badd-%s' % an, 'BatchAdd', lambda: [refec.from_lib(x) for x in c.BatchAdd(lib(A), [lib(x) for x in qs])],
                     [rc.add(A, x) for x in qs]))
      recs.append(ok('baddx-%s' % an, 'BatchAddX', lambda: [None if x is None else int(x) for x in c.BatchAddX(lib(A), [lib(x) for x in qs])],
                     [None if rc.add(A, x) is None else rc.add(A, x)[0] for x in qs]))
      recs.append(ok('basx-%s' % an, 'BatchAddSubtractX',
                     lambda: [[None if x is None else int(x) for x in l] for l in c.BatchAddSubtractX(lib(A), [lib(x) for x in qs])],
                     [[None if rc.add(A, x) is None else rc.add(A, x)[0] for x in qs],
                      [None if rc.add(A, rc.neg(x)) is None else rc.add(A, rc.neg(x))[0] for x in qs]]))
    qs = list(specials.values())
    recs.append(ok('balist', 'BatchAddList', lambda: [refec.from_lib(x) for x in c.BatchAddList([lib(x) for x in qs], [lib(x) for x in reversed(qs)])],
                   [rc.add(x, y) for x, y in zip(qs, reversed(qs))]))
    recs.append(ok('bdbl', 'BatchDouble', lambda: [refec.from_lib(x) for x in c.BatchDouble([lib(x) for x in qs])], [rc.add(x, x) for x in qs]))
    scal = [0, 1, 2, -1, n - 1, n, n + 1, 2 * n, -n, k, -k, 2 ** (steps) - 1, 2 ** steps, 2 ** steps + 1,
            2 ** (steps * 3) - 1, 2 ** (steps * 7) + 1, (1 << n.bit_length()) - 1, rng.randrange(1, n)]
    for s in scal:
      recs.append(ok('mul-%d' % (s % 10 ** 9), 'Multiply', lambda: refec.from_lib(c.Multiply(lib(P), s)), rc.mul(s % n, P)))
    recs.append(ok('bmulg', 'BatchMultiplyG', lambda: [refec.from_lib(x) for x in c.BatchMultiplyG(list(scal))], [rc.mul(s % n, G) for s in scal]))
    # batches of ONE scalar and small batches of scalars with the same empty comb columns (the comb doubles once per column
    # whether or not any scalar of the batch has a tooth there)
    small = [[2], [4], [256], [3 << steps], [1 << (2 * steps)], [n + 2], [n - 1], [(1 << (n.bit_length() - 1)) % n], [k], [2, 4, 6, 8, 10],
             [256 * j for j in range(1, 6)], [1 << (steps * j) for j in range(8)], [0], []]
    for bi, batch in enumerate(small):
      recs.append(ok('bmulg-small-%d' % bi, 'BatchMultiplyG', lambda batch=batch: [refec.from_lib(x) for x in c.BatchMultiplyG(list(batch))],
                     [rc.mul(s % n, G) for s in batch]))
    recs.append(ok('pseq', 'PointSequence', lambda: [refec.from_lib(x) for x in c.PointSequence(lib(P), 6)], [rc.mul(i, P) for i in range(6)]))
  return recs


def run(ctx):
  ctx.trust('TLC 1.8', 'refec.py (30-line textbook affine law) for named curves and for enumerating small-group points',
            'harness Jacobian<->affine conversion (x = X/Z^2, y = Y/Z^3)', 'gmpy2.is_prime(50 rounds) for the curve constants')
  ctx.assume('primality of the 192..521-bit curve constants is a Miller-Rabin computation, not a TLC result')
  smallec.check_cfgs()
  tags = smallec.PRIME_ORDER
  for t in tags:
    r = tlc.expect_holds('MC_Ec', 'MC_Ec_%s.cfg' % t, require_actions=('StepAdd', 'StepDouble', 'StepNeg'))
    ctx.note_mc(r, 'EcGroup/MC_Ec_%s: group axioms, isomorphism to Z_q, scalar multiplication, ECDSA relation on the whole group' % t)
  for t in smallec.COFACTOR:
    r = tlc.expect_holds('MC_Ec', 'MC_Ec_%s_all.cfg' % t, require_actions=('StepAddAny', 'StepDouble', 'StepNeg'))
    ctx.note_mc(r, 'EcGroup/MC_Ec_%s_all: group axioms on the whole curve group of a cofactor curve, order q*h, subgroup test = membership in <G>' % t)
  allrecs = {}
  tags = tags + smallec.COFACTOR
  for t in tags:
    recs = whole_curve_records(t, ctx.quick, ctx.rng) if t in smallec.COFACTOR else small_curve_records(t, ctx.quick, ctx.rng)
    if ctx.only_sid:
      recs = [x for x in recs if x['sid'] == ctx.only_sid]
    allrecs[t] = recs
  named = named_curve_records(ctx.quick, ctx.rng)
  if ctx.only_sid:
    named = [x for x in named if x['sid'] == ctx.only_sid]
  ctx.replayed = sum(len(v) for v in allrecs.values()) + len(named)
  from concurrent.futures import ThreadPoolExecutor
  def val(t):
    recs = list(allrecs[t])
    random.Random(1).shuffle(recs)
    return t, tlc.validate_trace_parallel('EcTrace', 'EcTrace_%s.cfg' % t, recs, 'C11-' + t, jobs=4, timeout=3600, heap='3g')
  with ThreadPoolExecutor(max_workers=4) as ex:
    results = list(ex.map(val, [t for t in tags if allrecs[t]]))
  for t, (c, fails, trs) in results:
    ctx.validated += c
    ctx.note_mc(trs[0], 'EcTrace_%s (first of %d chunks)' % (t, len(trs)))
    ctx.states += sum(x.distinct for x in trs[1:])
    ctx.transitions += sum(x.generated for x in trs[1:])
    by = {x['sid']: x for x in allrecs[t]}
    ctx.trace_failures(fails, by, lambda rec, f: {'curve': t, 'ev': rec['ev'], 'args': rec['args'], 'obs': rec['obs'], 'raised': rec['raised']})
    ctx.distinct.update(by)
    ctx.sample(allrecs[t][0])
  if named:
    c, fails, tr = tlc.validate_trace('NamedEcTrace', 'NamedEcTrace.cfg', named, 'C11-named')
    ctx.validated += c
    ctx.note_mc(tr, 'NamedEcTrace: reference-law comparison and parameter sanity on every CURVE_FACTORY entry')
    by = {x['sid']: x for x in named}
    ctx.trace_failures(fails, by, lambda rec, f: {'ev': rec['ev'], 'args': rec['args'], 'obs': rec['obs'], 'raised': rec['raised']})
    ctx.distinct.update(by)
    ctx.sample(named[0])


def selftest(ctx):
  recs = small_curve_records('c73', True, random.Random(1))[:50]
  bad = json.loads(json.dumps(recs[10]))
  bad['sid'] = 'corrupt'
  bad['obs']['r'] = [1, 1]
  _, fails, _ = tlc.validate_trace('EcTrace', 'EcTrace_c73.cfg', recs + [bad], 'C11self')
  got = [(f['sid'], f['clause']) for f in fails]
  assert len(got) == 1 and got[0][0] == 'corrupt', got
  print('selftest ok', got)
