"""C01 — every factor reported for an RSA modulus really divides it."""
import hashlib
import json
import multiprocessing as mp
import random
import traceback

import gmpy2

from pv import art
from pv import checks
from pv import gen
from pv import shim
from pv import tlc
from pv import weak


def build_mod(cls, rng):
  """A modulus of the class with the factors the harness knows (p, q may be None for degenerate ones)."""
  a = None
  if cls == 'healthy':
    a = gen.rsa_healthy(rng, 'k', 2048)
  elif cls == 'healthy3072':
    a = gen.rsa_healthy(rng, 'k', 3072)
  elif cls == 'small':
    a = gen.rsa_small(rng, 'k')
  elif cls in ('bits64', 'bits65', 'oddlen', 'prime', 'square', 'even', 'pow2', 'three'):
    a = gen.rsa_degenerate(rng, 'k', cls)
  elif cls == 'fermat':
    a = weak.fermat_key(rng, 'k', 1024, rng.choice([0, 1, 5, 999]))
  elif cls == 'fermat_e':
    # close primes whose hexadecimal form starts with the digit e (several checks factor the key: the factor record is merged)
    import gmpy2
    p_ = int(gmpy2.next_prime((0xe << 1020) | rng.getrandbits(1020)))
    q_ = int(gmpy2.next_prime(p_ + rng.randrange(2, 2 ** 30)))
    a = checks.Art('k', 'rsa', art.rsa_key(p_ * q_), 'fermat', n=p_ * q_, p=p_, q=q_, e=65537, crit={})
  elif cls in ('sqminuscube', 'sqminusfifth', 'sqminustwicesq'):
    # s^2 - d with d a perfect power that is not a square (or, as a control, twice a square): n = 1 mod 8, just below a square
    # d = (u 2^j)^k is highly divisible by 2 and lies just above 2 s, so that s itself is a candidate of the combined search
    # (top bits from the integer square root, low bits from the 2-adic square root)
    L_ = rng.choice([512, 1024])
    s_ = (1 << L_) + 1
    k_ = {'sqminuscube': 3, 'sqminusfifth': 5, 'sqminustwicesq': 2}[cls]
    cands = [(u, j) for u in (1, 3, 5, 7, 9, 11, 13, 15) for j in range(1, L_) if (1 << (L_ + 1)) < (u << j) ** k_ * (2 if k_ == 2 else 1) < (1 << (L_ + 2))]
    u_, j_ = rng.choice(cands)
    d_ = (u_ << j_) ** k_ * (2 if k_ == 2 else 1)
    n_ = s_ * s_ - d_
    a = checks.Art('k', 'rsa', art.rsa_key(n_), 'deg-' + cls, n=n_, e=65537, crit={})
  elif cls == 'highlow':
    a = weak.highlow_key(rng, 'k', 1024, 8, 1024 // 4 - 4)
  elif cls == 'upperdiff':
    a = weak.upperdiff_key(rng, 'k', 512, rng.randrange(6))
  elif cls == 'pattern':
    a = weak.pattern_key(rng, 'k', 1024, rng.choice([16, 31, 32, 63]), 16)
  elif cls == 'permuted':
    a = weak.permuted_key(rng, 'k', 1024, 16, 3)
  elif cls == 'cf':
    a = weak.cf_key(rng, 'k', 1024, 16, 24)
  elif cls == 'lhw':
    a = weak.lhw_key(rng, 'k', 1024, 8, 8)
  elif cls == 'pm1':
    a = weak.pm1_key(rng, 'k', 1024, 66, 'p')
  elif cls == 'pm1both':
    a = weak.pm1_key(rng, 'k', 1024, 66, 'both')
  elif cls == 'unseeded':
    from paranoid_crypto.lib.data import unseeded_rands
    vals = sorted(unseeded_rands.size_unseeded_map[512])
    a = weak.unseeded_key(rng, 'k', 512, vals[rng.randrange(len(vals))], 1)
  if a is not None:
    a.meta['crit'] = {c: 'may' for c in gen.RSA_CHECKS}     # C01 judges evidence, not verdicts
    a.meta.pop('attrs', None)
  return a


def make_check(name, param):
  from paranoid_crypto.lib import rsa_single_checks as rs
  if name == 'CheckFermat':
    return rs.CheckFermat(max_steps=int(param))
  if name == 'CheckContinuedFractions':
    return rs.CheckContinuedFractions() if param == 'default' else rs.CheckContinuedFractions(bound=int(param))
  if name == 'CheckBitPatterns':
    sizes = {'default': None, 'one': [1], '300': [300], 'empty': []}[param]
    return rs.CheckBitPatterns(pattern_sizes=sizes)
  if name == 'CheckPollardpm1':
    return rs.CheckPollardpm1() if param == 'default' else rs.CheckPollardpm1(bound=int(param))
  return getattr(rs, name)()


def helper_record(sid, fn_name, a, rng, full_steps=False):
  from paranoid_crypto.lib import rsa_util, special_case_factoring
  n = gmpy2.mpz(a.meta['n'])
  rec = {'sid': sid, 'ev': 'helper', 'fn': fn_name, 'cls': a.cls, 'raised': 'none', 'obs': {}}
  try:
    pair = True
    if fn_name == 'FermatFactor':
      res = rsa_util.FermatFactor(n, 100000 if full_steps else rng.choice([0, 1, 1000, 100000]))
      fl = list(res) if res else None
    elif fn_name == 'FactorHighAndLowBitsEqual':
      res = rsa_util.FactorHighAndLowBitsEqual(n)
      fl = list(res) if res else None
    elif fn_name == 'CheckContinuedFraction':
      ok, fl = rsa_util.CheckContinuedFraction(n, rng.choice([1, 2 ** 16, 2 ** 48]))
      fl = list(fl) or None
    elif fn_name == 'CheckFraction':
      fl = list(rsa_util.CheckFraction(n, rng.choice([1, 2 ** 16 - 1, 2 ** 31 - 1, 2 ** 64 - 1]))) or None
    elif fn_name == 'CheckSmallUpperDifferences':
      res = rsa_util.CheckSmallUpperDifferences(n)
      fl = list(res) if res else None
    elif fn_name == 'Pollardpm1':
      from paranoid_crypto.lib import ntheory_util
      global _PM
      try:
        m = _PM
      except NameError:
        powers = [gmpy2.mpz(p) ** int(__import__('math').log(2 ** 16, p)) for p in ntheory_util.Sieve(2 ** 16)]
        m = _PM = ntheory_util.FastProduct(powers)
      w, fl = rsa_util.Pollardpm1(n, m)
      fl = list(fl) or None
    elif fn_name == 'CheckLowHammingWeight':
      w, fl = rsa_util.CheckLowHammingWeight(n, maxsteps=20000)
      fl = list(fl) or None
    elif fn_name == 'FactorWithGuess':
      guess = a.meta.get('p') or int(gmpy2.isqrt(n))
      guess = guess + rng.choice([0, 1, 2 ** 20, -2 ** 10]) if guess > 2 ** 21 else guess + 1
      res = special_case_factoring.FactorWithGuess(n, max(2, guess))
      fl = list(res) if res else None
    else:
      raise ValueError(fn_name)
    if fl is None:
      rec['obs'] = {'none': True, 'facts': [], 'product_is_n': True}
    else:
      nn = int(n)
      prod = 1
      for f in fl:
        prod *= int(f)
      rec['obs'] = {'none': False, 'facts': [{'divides': int(f) > 0 and nn % int(f) == 0, 'proper': 1 < int(f) < nn} for f in fl],
                    'product_is_n': prod == nn}
  except Exception as e:  # pylint: disable=broad-except
    rec['raised'] = type(e).__name__
  return rec


def aggregate_records(sid, ctxname, bound, rng):
  from paranoid_crypto.lib import rsa_aggregate_checks as ra
  P = [art.rand_prime_top2(rng, 1024) for _ in range(6)]
  if ctxname == 'pair-shared':
    ns = [P[0] * P[1], P[0] * P[2], P[3] * P[4]]
  elif ctxname == 'nested':
    ns = [P[0] * P[1], P[0] * P[1] * P[2], P[3] * P[4]]
  elif ctxname == 'duplicate':
    ns = [P[0] * P[1], P[0] * P[1], P[2] * P[3]]
  elif ctxname == 'three-partners':
    ns = [P[0] * P[1], P[0] * P[2], P[1] * P[3], P[2] * P[3]]
  elif ctxname == 'alone':
    ns = [P[0] * P[1]]
  elif ctxname == 'even-np1-shared':
    g = art.rand_prime(rng, 200)
    def ev():
      while True:
        k = rng.getrandbits(2048 - 200) | (1 << (2047 - 200)) | 1
        n_ = g * k - 1
        if n_.bit_length() == 2048 and n_ % 2 == 0:
          return n_
    ns = [ev(), ev(), P[0] * P[1], ev()]
  else:
    g = art.rand_prime(rng, 200 if ctxname == 'n1-shared-big' else 40)
    def pp():
      while True:
        k = rng.getrandbits(1024 - g.bit_length()) | (1 << (1023 - g.bit_length()))
        p = 2 * g * k + 1
        if gmpy2.is_prime(p):
          return p
    ns = [pp() * pp(), pp() * pp(), P[0] * P[1]]
  arts = []
  for i, n in enumerate(ns):
    crit = {c: 'may' for c in gen.RSA_CHECKS}
    arts.append(checks.Art('k%d' % i, 'rsa', art.rsa_key(n), 'agg-' + ctxname, n=int(n), e=65537, crit=crit))
  gb = {'1': 1, '2^64': 2 ** 64, '2^128': 2 ** 128}[bound]
  c1, c2 = ra.CheckGCD(), ra.CheckGCDN1(gcd_bound=gb)
  protos = [a.proto for a in arts]
  # history: the first key was already checked alone (its entries exist, negative) before its partners arrive
  r0 = checks.record_call(sid + '-gcd-alone', 'rsa', arts[:1], lambda: c1.Check(protos[:1]), ['CheckGCD'], {arts[0].aid: arts[0].meta['crit']})
  r00 = checks.record_call(sid + '-gcdn1-alone', 'rsa', arts[:1], lambda: c2.Check(protos[:1]), ['CheckGCDN1'], {arts[0].aid: arts[0].meta['crit']})
  r1 = checks.record_call(sid + '-gcd', 'rsa', arts, lambda: c1.Check(protos), ['CheckGCD'], {a.aid: a.meta['crit'] for a in arts})
  r2 = checks.record_call(sid + '-gcdn1', 'rsa', arts, lambda: c2.Check(protos), ['CheckGCDN1'], {a.aid: a.meta['crit'] for a in arts})
  for r in (r0, r00, r1, r2):
    r['scenario'] = {'context': ctxname, 'gcd_bound': bound}
  return [r0, r00, r1, r2]


def run_cell(args):
  cell, inst = args
  sid = 'C01-%s-%s-%s-%s-i%d' % (cell['kind'], cell['mod'], cell['check'], cell['param'], inst)
  try:
    shim.install()
    from paranoid_crypto.lib import paranoid  # noqa
    rng = random.Random(hashlib.sha1((sid).encode()).hexdigest())
    if cell['kind'] == 'aggregate':
      return sid, aggregate_records(sid, cell['mod'], cell['param'], rng), None
    if cell['kind'] == 'population':
      bits = int(cell['mod'])
      recs = []
      for j in range(500 if cell['check'] == 'FermatFactor' and bits == 64 else 120):
        pp = art.rand_prime_top2(rng, bits // 2)
        qq = art.rand_prime_top2(rng, bits - bits // 2)
        a = checks.Art('k', 'rsa', art.rsa_key(pp * qq), 'pop%d' % bits, n=pp * qq, p=pp, q=qq, crit={})
        recs.append(helper_record('%s-%d' % (sid, j), cell['check'], a, rng, full_steps=True))
      return sid, recs, None
    if cell['kind'] == 'batch':
      fam = {'CheckFermat': 'fermat', 'CheckHighAndLowBitsEqual': 'highlow', 'CheckContinuedFractions': 'cf', 'CheckBitPatterns': 'pattern',
             'CheckPermutedBitPatterns': 'permuted', 'CheckPollardpm1': 'pm1', 'CheckLowHammingWeight': 'lhw', 'CheckUnseededRand': 'unseeded',
             'CheckSmallUpperDifferences': 'upperdiff'}.get(cell['check'], 'fermat')
      mods = [fam, 'bits64', 'bits100', 'bits151', 'prime', 'healthy', 'small']
      batch = []
      for j, m in enumerate(mods):
        if m in ('bits100', 'bits151'):
          b_ = int(m[4:])
          nn = art.rand_prime_top2(rng, b_ // 2) * art.rand_prime_top2(rng, b_ - b_ // 2)
          k = checks.Art('k%d' % j, 'rsa', art.rsa_key(nn), 'deg-' + m, n=nn, e=65537, crit={c: 'may' for c in gen.RSA_CHECKS})
        else:
          k = build_mod(m, rng)
          if k is None:
            continue
          k.aid = 'k%d' % j
        batch.append(k)
      if cell['check'] == 'ALLSINGLE':
        single = paranoid.GetRSASingleChecks()
        names = list(single)
        objs = list(single.values())
      else:
        names = [cell['check']]
        objs = [make_check(cell['check'], cell['param'])]
      protos = [k.proto for k in batch]
      def fnb():
        ret = False
        for o in objs:
          ret = o.Check(protos) or ret
        return ret
      rec = checks.record_call(sid, 'rsa', batch, fnb, names, {k.aid: k.meta['crit'] for k in batch})
      rec['scenario'] = {'cell': cell, 'classes': [k.cls for k in batch]}
      return sid, [rec], None
    a = build_mod(cell['mod'], rng)
    if a is None:
      return sid, [], 'empty'
    if cell['kind'] == 'helper':
      return sid, [helper_record(sid, cell['check'], a, rng)], None
    if cell['check'] == 'ALLSINGLE':
      single = paranoid.GetRSASingleChecks()
      names = list(single)
      def fn():
        ret = False
        for c in single.values():
          ret = c.Check([a.proto]) or ret
        return ret
      rec = checks.record_call(sid, 'rsa', [a], fn, names, {a.aid: a.meta['crit']})
    else:
      chk = make_check(cell['check'], cell['param'])
      rec = checks.record_call(sid, 'rsa', [a], lambda: chk.Check([a.proto]), [cell['check']], {a.aid: a.meta['crit']})
    rec['scenario'] = {'cell': cell, 'n_hex': format(a.meta['n'], 'x')}
    return sid, [rec], None
  except Exception:  # pylint: disable=broad-except
    return sid, [], traceback.format_exc()


def run(ctx):
  ctx.trust('TLC 1.8', 'pv.checks.project: own parser of attached_info, one division per recorded factor', 'pv.gen / pv.weak ground truth')
  ctx.assume('verdicts are "may" throughout this check: only the evidence clauses (divides, proper-or-divides-other, evidence implies weak, '
             'factors never removed) and the bookkeeping clauses are judged; detection itself is C04/C05/C06')
  r = tlc.expect_holds('MC_Checks', 'MC_Checks.cfg', timeout=3600)
  ctx.note_mc(r, 'Checks/MC_Checks: EvidenceOnlyWhenWeak, Monotone (a recorded factor never disappears) over all histories')
  g = tlc.run('C01Grid', 'C01Grid.cfg', workers=1, coverage=False)
  if g.violated:
    raise tlc.MachineryError('C01Grid: %s' % g.error_text)
  ctx.note_mc(g, 'C01Grid: modulus class x (check, parameter) x context / helper function')
  cells = list({json.dumps(c, sort_keys=True): c for c in g.prints.get('CELL', [])}.values())
  if not cells:
    raise tlc.MachineryError('C01Grid produced no cell')
  if ctx.quick:
    # heavy cells (best-first search on structured moduli) once; everything else in full
    cells = [c for c in cells if not (c['check'] in ('CheckLowHammingWeight',) and c['mod'] in ('lhw', 'pattern', 'cf') and c['kind'] == 'single')
             or c['mod'] == 'lhw']
  insts = 1 if ctx.quick else 5
  jobs = [(c, i) for c in cells for i in range(insts)]
  if ctx.only_sid:
    jobs = [j for j in jobs if ctx.only_sid.startswith('C01-%s-%s-%s-%s-i%d' % (j[0]['kind'], j[0]['mod'], j[0]['check'], j[0]['param'], j[1]))]
  mpctx = mp.get_context('fork')
  from pv import proc
  if True:
    results = list(proc.imap_unordered(run_cell, jobs, procs=15, chunk=4))
    # histories of one CheckKeypairDenylist object (factors recorded from a table entry must belong to THIS modulus)
    from pv import drive_C06
    hres = [] if ctx.only_sid and '-kphist-' not in ctx.only_sid else list(
        proc.imap_unordered(drive_C06.keypair_history_worker, drive_C06.keypair_histories(ctx.quick, ctx.rng, 'C01'), procs=15))
  recs, empty = [], 0
  for hrecs, err in hres:
    if err:
      raise tlc.MachineryError('keypair history crashed in the harness:\n%s' % err)
    for x in hrecs:
      for a in x['arts']:
        a['attrs'] = {'family': 'none'}       # C01 judges the evidence only
    recs += hrecs
  for sid, rs, err in results:
    if err == 'empty':
      empty += 1
    elif err:
      raise tlc.MachineryError('cell %s crashed in the harness:\n%s' % (sid, err))
    recs += rs
  if ctx.only_sid:
    recs = [x for x in recs if x['sid'] == ctx.only_sid]
  ctx.notes['cells'] = len(cells)
  ctx.notes['empty_cells'] = empty
  ctx.replayed = len(recs)
  withf = [x for x in recs if x['ev'] == 'call' and any(a['after']['nf'] or a['after']['nm1'] for a in x['arts'])]
  ctx.notes['calls_that_recorded_factors'] = len(withf)
  ctx.notes['helper_calls_returning_factors'] = sum(1 for x in recs if x['ev'] == 'helper' and x['obs'] and not x['obs'].get('none', True))
  for x in (withf[:2] + [y for y in recs if y['ev'] == 'helper'][:1]):
    ctx.sample({k: v for k, v in x.items() if k not in ('scenario',)} if x['ev'] == 'helper' else
               {'sid': x['sid'], 'facts': x['arts'][0]['after']['facts'], 'entries': [e for e in x['arts'][0]['after']['entries'] if e['result']]})
  c, fails, trs = tlc.validate_trace_parallel('ChecksTrace', 'ChecksTrace.cfg', recs, 'C01', jobs=8, timeout=3600)
  ctx.note_mc(trs[0], 'ChecksTrace (first of %d chunks)' % len(trs))
  ctx.validated = c
  by = {x['sid']: x for x in recs}
  def det(rec, f):
    if rec['ev'] == 'helper':
      return {'ev': 'helper', 'fn': rec['fn'], 'cls': rec['cls'], 'obs': rec['obs'], 'raised': rec['raised']}
    return {'ev': 'call', 'context': rec.get('scenario', {}).get('context', 'single'),
            'scenario': {k: v for k, v in rec.get('scenario', {}).items()}, 'raised': rec['raised'],
            'facts': [a['after']['facts'] for a in rec['arts']], 'weak': [a['after']['weak'] for a in rec['arts']]}
  ctx.trace_failures(fails, by, det)
  ctx.distinct = set(by)


def selftest(ctx):
  sid, recs, err = run_cell(({'kind': 'single', 'mod': 'fermat', 'check': 'CheckFermat', 'param': '100000'}, 0))
  assert err is None and recs, err
  bad = json.loads(json.dumps(recs[0]))
  bad['sid'] = 'corrupt'
  bad['arts'][0]['after']['facts'][0]['divides'] = False
  _, fails, _ = tlc.validate_trace('ChecksTrace', 'ChecksTrace.cfg', recs + [bad], 'C01self')
  got = sorted((f['sid'], f['clause']) for f in fails)
  assert got == [('corrupt', 'FactorDividesModulus')], got
  print('selftest ok', got)
