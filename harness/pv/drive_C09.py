"""C09 — the nonce relation extracted from any ECDSA signature is exact; byte/int conversions round-trip."""
import hashlib

import gmpy2
import json
import random

from pv import art
from pv import refec
from pv import shim
from pv import smallec
from pv import tlc


def R(sid, ev, args):
  return {'sid': sid, 'ev': ev, 'args': args, 'obs': {}, 'raised': 'none'}


def sign(rc, d, k, z):
  """Reference ECDSA signing on reference arithmetic."""
  n = rc.n
  P = rc.mul(k, rc.g)
  r = P[0] % n if P is not None else 0
  s = pow(k, -1, n) * (z + r * d) % n
  return r, s


def small_records(tag, quick, rng):
  c = smallec.make(tag)
  rc, pts = smallec.group_points(tag)
  q = rc.n
  pb = art.pb2()
  from paranoid_crypto.lib import ec_util
  recs = []
  zs = [0, 1, q - 1, q // 2] + [rng.randrange(q) for _ in range(2 if quick else 4)]
  for d in range(1, q):
    for k in range(1, q):
      if quick and (d * 7 + k * 3) % (3 if tag == 'c59a' else 11) != 0:
        continue
      for z in (zs if not quick else [zs[(d + k) % len(zs)]]):
        r, s = sign(rc, d, k, z)
        rec = R('%s-hnp-%d-%d-%d' % (tag, d, k, z), 'hnp', {'d': d, 'k': k, 'z': z, 'r': r, 's': s})
        if r and s:
          try:
            a, b = c.HiddenNumberParams(r, s, z)
            rec['obs'] = {'a': int(a), 'b': int(b)}
          except Exception as e:  # pylint: disable=broad-except
            rec['raised'] = type(e).__name__
        recs.append(rec)
  # hash truncation: every bit string of length 0..L against the 7-bit order (shorter, equal, longer, unaligned)
  L = 10 if quick else 14
  for hlen in range(0, L + 1):
    vals = range(1 << hlen) if hlen <= (8 if quick else 11) else [rng.getrandbits(hlen) for _ in range(100)]
    for h in vals:
      bits = [(h >> (hlen - 1 - i)) & 1 for i in range(hlen)]
      rec = R('%s-tr-%d-%d' % (tag, hlen, h), 'transform', {'hbits': bits})
      try:
        rec['obs'] = {'z': int(c.TransformOrderLen(h, hlen))}
      except Exception as e:  # pylint: disable=broad-except
        rec['raised'] = type(e).__name__
      recs.append(rec)
  # through the protobuf: whole bytes, leading zero bytes in r, s and the hash
  for i in range(150 if quick else 1500):
    hl = rng.choice([0, 1, 1, 2, 3])
    hb = [rng.choice([0, 0, rng.randrange(256)]) if j == 0 else rng.randrange(256) for j in range(hl)]
    r, s = rng.randrange(1, q), rng.randrange(1, q)
    sig = pb.ECDSASignatureInfo()
    pad_r, pad_s = rng.choice([0, 0, 1, 3]), rng.choice([0, 1])
    sig.r = b'\0' * pad_r + art.i2b(r)
    sig.s = b'\0' * pad_s + art.i2b(s)
    sig.message_hash = bytes(hb)
    rec = R('%s-ev-%d' % (tag, i), 'ecdsavalues', {'r': r, 's': s, 'hbytes': hb, 'pad': [pad_r, pad_s]})
    try:
      rr, ss, zz = ec_util.ECDSAValues(sig, c)
      rec['obs'] = {'r': int(rr), 's': int(ss), 'z': int(zz)}
    except Exception as e:  # pylint: disable=broad-except
      rec['raised'] = type(e).__name__
    recs.append(rec)
  return recs


def bits2int_ref(hb, n):
  """RFC 6979 2.3.2 bits2int followed by reduction mod n (as the library documents)."""
  v = int.from_bytes(hb, 'big')
  blen, qlen = 8 * len(hb), n.bit_length()
  if blen > qlen:
    v >>= blen - qlen
  return v % n


def named_records(quick, rng):
  shim.install()
  from paranoid_crypto.lib import ec_util
  from paranoid_crypto.lib import util
  pb = art.pb2()
  recs = []
  for ct, c in sorted(ec_util.CURVE_FACTORY.items()):
    if c is None:
      continue
    rc = refec.ref_of(c)
    n = rc.n
    d = rng.randrange(1, n)
    # "modulo the curve order": the n of the curve table must be the order of its generator (reference arithmetic, once per curve)
    order_ok = bool(rc.on_curve(rc.g) and rc.mul(n, rc.g) is None and gmpy2.is_prime(n))
    for hl in [0, 1, 20, 28, 32, 48, 64, 65, 66]:
      for rep in range(1 if quick else 6):
        msg = rng.getrandbits(64).to_bytes(8, 'big')
        hb = (hashlib.sha512(msg).digest() * 2)[:hl]
        if rep % 2 and hl:
          hb = b'\0' + hb[1:]
        k = rng.choice([1, n - 1, rng.randrange(1, n), rng.randrange(1, 2 ** 64)])
        z = bits2int_ref(hb, n)
        r, s = sign(rc, d, k, z)
        if not r or not s:
          continue
        sig = pb.ECDSASignatureInfo()
        sig.r = rng.choice([b'', b'\0', b'\0\0']) + art.i2b(r)
        sig.s = rng.choice([b'', b'\0']) + art.i2b(s)
        sig.message_hash = hb
        # the declared algorithm of the signature: the one that matches the digest length where there is one, any other value otherwise
        # (the digest itself, "full hash of the message", defines the length that RFC 6979 2.4 truncates)
        alg = {20: 7, 28: 8, 32: 9, 48: 10, 64: 11}.get(hl, 0) if rep % 3 != 2 else rng.randrange(0, 19)
        sig.algorithm = alg
        rec = R('named-%s-%d-%d' % (c.name, hl, rep), 'nhnp', {'curve': c.name, 'hlen': hl, 'algorithm': alg})
        try:
          rr, ss, zz = ec_util.ECDSAValues(sig, c)
          a, b = c.HiddenNumberParams(rr, ss, zz)
          rec['obs'] = {'fields_ok': int(rr) == r and int(ss) == s, 'z_ok': int(zz) == z,
                        'relation_ok': (int(a) + int(b) * d - k) % n == 0, 'order_ok': order_ok}
        except Exception as e:  # pylint: disable=broad-except
          rec['raised'] = type(e).__name__
        recs.append(rec)
  # byte / integer conversions: every value below 2^16, leading-zero encodings, big values, odd-length hex
  def conv(sid, v, nb):
    rec = R(sid, 'conv', {'bits': v.bit_length(), 'small': v if v < 2 ** 31 else -1})
    try:
      b = util.Int2Bytes(v)
      minimal = (len(b) == (v.bit_length() + 7) // 8)
      back = util.Bytes2Int(b)
      padded = util.Bytes2Int(b'\0' * nb + b)
      hx = format(v, 'x')
      hb = util.Hex2Bytes(hx)
      hb2 = util.Hex2Bytes('0' * (nb * 2) + hx)
      rec['obs'] = {'roundtrip': back == v, 'minimal': minimal, 'padded_ok': padded == v,
                    # exact bytes: an odd number of digits gains one leading zero digit, leading zero BYTES are kept
                    'hex_ok': hb == bytes.fromhex('0' * (len(hx) % 2) + hx) and hb2 == b'\0' * nb + bytes.fromhex('0' * (len(hx) % 2) + hx),
                    'bytes_match_ref': b == art.i2b(v)}
    except Exception as e:  # pylint: disable=broad-except
      rec['raised'] = type(e).__name__
    return rec
  for v in (range(0, 65536, 1) if not quick else list(range(0, 1100)) + list(range(65000, 65536)) + [rng.randrange(65536) for _ in range(500)]):
    recs.append(conv('conv-%d' % v, v, v % 3))
  for i in range(200 if quick else 2000):
    v = rng.getrandbits(rng.choice([17, 64, 255, 256, 257, 520, 521, 2048, 4096]))
    recs.append(conv('convbig-%d' % i, v, i % 4))
  return recs


def run(ctx):
  ctx.trust('TLC 1.8', 'refec.py reference law and 6-line reference signer (certified by TLC on the small curves: '
            'clause ReferenceSignerDisagreesWithSpec)', 'bits2int_ref (RFC 6979 2.3.2) for named curves', 'art.i2b')
  smallec.check_cfgs()
  tags = ['c59a', 'c67'] if ctx.quick else smallec.PRIME_ORDER
  for t in tags:
    r = tlc.expect_holds('MC_Ec', 'MC_Ec_%s.cfg' % t)
    ctx.note_mc(r, 'EcGroup/MC_Ec_%s incl. HnpRelation: k = a + b d (mod q) for every d, every k, z in {0, 1, q-1}' % t)
  allrecs = {t: small_records(t, ctx.quick, ctx.rng) for t in tags}
  named = named_records(ctx.quick, ctx.rng)
  if ctx.only_sid:
    allrecs = {t: [x for x in v if x['sid'] == ctx.only_sid] for t, v in allrecs.items()}
    named = [x for x in named if x['sid'] == ctx.only_sid]
  ctx.replayed = sum(len(v) for v in allrecs.values()) + len(named)
  from concurrent.futures import ThreadPoolExecutor
  def val(t):
    return t, tlc.validate_trace_parallel('EcTrace', 'EcTrace_%s.cfg' % t, list(allrecs[t]), 'C09-' + t, jobs=max(2, 14 // len(tags)),
                                          timeout=3600, heap='3g')
  with ThreadPoolExecutor(max_workers=len(tags)) as ex:
    results = list(ex.map(val, [t for t in tags if allrecs[t]]))
  for t, (c, fails, trs) in results:
    ctx.validated += c
    ctx.note_mc(trs[0], 'EcTrace_%s (first of %d chunks)' % (t, len(trs)))
    ctx.states += sum(x.distinct for x in trs[1:])
    ctx.transitions += sum(x.generated for x in trs[1:])
    by = {x['sid']: x for x in allrecs[t]}
    ctx.trace_failures(fails, by, lambda rec, f: {'curve': t, 'ev': rec['ev'], 'args': rec['args'], 'obs': rec['obs'], 'raised': rec['raised']})
    ctx.distinct.update(by)
    ctx.sample(allrecs[t][0])
    ctx.sample(allrecs[t][-1])
  if named:
    c, fails, tr = tlc.validate_trace('NamedSigTrace', 'NamedSigTrace.cfg', named, 'C09-named')
    ctx.validated += c
    ctx.note_mc(tr, 'NamedSigTrace: relation / truncation / round-trip booleans on named curves')
    by = {x['sid']: x for x in named}
    ctx.trace_failures(fails, by, lambda rec, f: {'ev': rec['ev'], 'args': rec['args'], 'obs': rec['obs'], 'raised': rec['raised']})
    ctx.distinct.update(by)
    ctx.sample(named[0])


def selftest(ctx):
  recs = small_records('c73', True, random.Random(1))[:40]
  bad = json.loads(json.dumps([x for x in recs if x['obs']][0]))
  bad['sid'] = 'corrupt'
  bad['obs']['a'] = (bad['obs']['a'] + 1) % 67
  _, fails, _ = tlc.validate_trace('EcTrace', 'EcTrace_c73.cfg', recs + [bad], 'C09self')
  got = [(f['sid'], f['clause']) for f in fails]
  assert got == [('corrupt', 'NonceRelation')], got
  print('selftest ok', got)
