"""Stand-ins for the generated modules that cannot be built in this sandbox.

* paranoid_crypto.paranoid_pb2 / paranoid_crypto.lib.data.data_pb2 are built in
  memory from the .proto text of /repo's working tree (no protoc).
* the pybind Berlekamp-Massey module is replaced by a ctypes wrapper around a
  shared object compiled from /repo's berlekamp_massey.cc (CLMUL and portable
  variants), rebuilt on every run.

Everything here is trusted base (listed as such in the evidence files).
"""
import ctypes
import hashlib
import os
import re
import subprocess
import sys
import types

REPO = os.environ.get('VERIF_REPO', '/repo')
HOME = os.environ.get('VERIF_HOME', '/verif')
BUILD = os.path.join(HOME, 'build')

SCALARS = {'bytes': 12, 'string': 9, 'bool': 8, 'uint64': 4, 'int32': 5,
           'int64': 3, 'uint32': 13, 'double': 1, 'float': 2}


def _parse_proto(text, name):
  from google.protobuf import descriptor_pb2
  text = re.sub(r'//[^\n]*', '', text)
  fdp = descriptor_pb2.FileDescriptorProto()
  fdp.name = name
  fdp.syntax = 'proto3'
  fdp.package = re.search(r'package\s+([\w.]+)\s*;', text).group(1)
  enums = set()
  for m in re.finditer(r'enum\s+(\w+)\s*\{([^}]*)\}', text):
    e = fdp.enum_type.add()
    e.name = m.group(1)
    enums.add(e.name)
    for v in re.finditer(r'(\w+)\s*=\s*(\d+)\s*;', m.group(2)):
      ev = e.value.add()
      ev.name = v.group(1)
      ev.number = int(v.group(2))
  for m in re.finditer(r'message\s+(\w+)\s*\{([^}]*)\}', text):
    msg = fdp.message_type.add()
    msg.name = m.group(1)
    for f in re.finditer(
        r'(repeated\s+)?(map<\s*(\w+)\s*,\s*(\w+)\s*>|[\w.]+)\s+(\w+)\s*=\s*(\d+)\s*;',
        m.group(2)):
      rep, typ, mk, mv, fname, num = f.groups()
      fd = msg.field.add()
      fd.name = fname
      fd.number = int(num)
      fd.json_name = re.sub(r'_(\w)', lambda x: x.group(1).upper(), fname)
      if mk:
        ent = msg.nested_type.add()
        ent.name = ''.join(p.capitalize() for p in fname.split('_')) + 'Entry'
        ent.options.map_entry = True
        k = ent.field.add()
        k.name, k.number, k.type, k.label, k.json_name = 'key', 1, SCALARS[mk], 1, 'key'
        v = ent.field.add()
        v.name, v.number, v.type, v.label, v.json_name = 'value', 2, SCALARS[mv], 1, 'value'
        fd.label = 3
        fd.type = 11
        fd.type_name = '.%s.%s.%s' % (fdp.package, msg.name, ent.name)
        continue
      fd.label = 3 if rep else 1
      if typ in SCALARS:
        fd.type = SCALARS[typ]
      elif typ in enums:
        fd.type = 14
        fd.type_name = '.%s.%s' % (fdp.package, typ)
      else:
        fd.type = 11
        fd.type_name = '.%s.%s' % (fdp.package, typ)
  return fdp


def _build_module(modname, proto_path, relname):
  from google.protobuf import descriptor_pool, message_factory
  from google.protobuf.internal import enum_type_wrapper
  fdp = _parse_proto(open(proto_path).read(), relname)
  pool = descriptor_pool.Default()
  fd = pool.AddSerializedFile(fdp.SerializeToString())
  mod = types.ModuleType(modname)
  mod.DESCRIPTOR = fd
  for name, ed in fd.enum_types_by_name.items():
    setattr(mod, name, enum_type_wrapper.EnumTypeWrapper(ed))
    for v in ed.values:
      setattr(mod, v.name, v.number)
  for name, md in fd.message_types_by_name.items():
    setattr(mod, name, message_factory.MessageFactory(pool).GetPrototype(md))
  sys.modules[modname] = mod
  return mod


_BM_WRAPPER = r'''
#include "paranoid_crypto/lib/randomness_tests/cc_util/berlekamp_massey.h"
extern "C" int bm_lfsr_length(const unsigned char* p, long size, int n) {
  return paranoid_crypto::lib::randomness_tests::cc_util::LfsrLengthStr(
      std::string((const char*)p, size), n);
}
'''


def build_bm(variant='clmul', force=False):
  """Compiles /repo's berlekamp_massey.cc into build/bm_<variant>_<hash>.so."""
  os.makedirs(BUILD, exist_ok=True)
  src = os.path.join(
      REPO, 'paranoid_crypto/lib/randomness_tests/cc_util/berlekamp_massey.cc')
  hdr = src[:-3] + '.h'
  h = hashlib.sha1()
  for p in (src, hdr):
    h.update(open(p, 'rb').read())
  h.update(variant.encode())
  so = os.path.join(BUILD, 'bm_%s_%s.so' % (variant, h.hexdigest()[:12]))
  if os.path.exists(so) and not force:
    return so
  wrap = os.path.join(BUILD, 'bm_c.cc')
  with open(wrap, 'w') as f:
    f.write(_BM_WRAPPER)
  cmd = ['g++', '-O2', '-std=c++17', '-shared', '-fPIC', '-I', REPO]
  # gcc's -mpclmul defines __PCLMUL__, not the __CLMUL__ the source tests for: define it
  # explicitly so that the carry-less-multiplication code path really is compiled.
  if variant == 'clmul':
    cmd += ['-mpclmul', '-msse4.1', '-D__CLMUL__']
  elif variant == 'asan':
    cmd += ['-mpclmul', '-msse4.1', '-D__CLMUL__', '-fsanitize=address', '-g']
  elif variant == 'setup':   # exactly the flags of setup.py
    cmd += ['-mpclmul']
  tmp = so + '.tmp%d' % os.getpid()
  cmd += [wrap, src, '-o', tmp]
  subprocess.run(cmd, check=True, capture_output=True)
  os.replace(tmp, so)
  return so


def load_bm(so):
  lib = ctypes.CDLL(so)
  lib.bm_lfsr_length.argtypes = [ctypes.c_char_p, ctypes.c_long, ctypes.c_int]
  lib.bm_lfsr_length.restype = ctypes.c_int
  return lambda ba, n: lib.bm_lfsr_length(bytes(ba), len(ba), n)


def install_bm(variant='clmul'):
  fn = load_bm(build_bm(variant))
  name = 'paranoid_crypto.lib.randomness_tests.cc_util.pybind.berlekamp_massey'
  mod = types.ModuleType(name)
  mod.LfsrLength = fn
  sys.modules[name] = mod
  try:
    import paranoid_crypto.lib.randomness_tests.cc_util.pybind as pkg
    pkg.berlekamp_massey = mod
  except ImportError:
    # package directory without __init__: register synthetic parents
    for parent in ('paranoid_crypto.lib.randomness_tests.cc_util',
                   'paranoid_crypto.lib.randomness_tests.cc_util.pybind'):
      if parent not in sys.modules:
        pm = types.ModuleType(parent)
        pm.__path__ = []
        sys.modules[parent] = pm
    sys.modules['paranoid_crypto.lib.randomness_tests.cc_util.pybind'].berlekamp_massey = mod
  return fn


_installed = False


def install(bm=True, bm_variant='clmul'):
  """Makes `import paranoid_crypto...` work from /repo's working tree."""
  global _installed
  if _installed:
    return
  if REPO not in sys.path:
    sys.path.insert(0, REPO)
  import paranoid_crypto
  import paranoid_crypto.lib.data
  m = _build_module('paranoid_crypto.paranoid_pb2',
                    os.path.join(REPO, 'paranoid_crypto/paranoid.proto'),
                    'paranoid_crypto/paranoid.proto')
  paranoid_crypto.paranoid_pb2 = m
  d = _build_module('paranoid_crypto.lib.data.data_pb2',
                    os.path.join(REPO, 'paranoid_crypto/lib/data/data.proto'),
                    'paranoid_crypto/lib/data/data.proto')
  paranoid_crypto.lib.data.data_pb2 = d
  if bm:
    install_bm(bm_variant)
  try:
    from absl import logging
    logging.set_verbosity(logging.FATAL)
    logging.set_stderrthreshold('fatal')
  except Exception:  # pylint: disable=broad-except
    pass
  _installed = True


def import_paranoid():
  """Imports in the order upstream tests use (paranoid before ecdsa_sig_checks)."""
  install()
  from paranoid_crypto.lib import paranoid  # noqa
  return paranoid
