"""Shared engine of C04 / C05: TLC-generated family cells -> weak moduli -> the family's check(s) -> ChecksTrace."""
import hashlib
import multiprocessing as mp
import random
import traceback

from pv import checks
from pv import shim
from pv import tlc
from pv import weak

C04_FAMILIES = ('fermat', 'highlow', 'upperdiff', 'unseeded')
C05_FAMILIES = ('pattern', 'permuted', 'cf', 'lhw', 'lhwslow', 'pm1', 'pm1cover', 'pm1pow')
CHECK_OF = {'fermat': ['CheckFermat'], 'highlow': ['CheckFermat', 'CheckHighAndLowBitsEqual'], 'upperdiff': ['CheckSmallUpperDifferences'],
            'unseeded': ['CheckUnseededRand'], 'pattern': ['CheckBitPatterns'], 'permuted': ['CheckPermutedBitPatterns'],
            'cf': ['CheckContinuedFractions'], 'lhw': ['CheckLowHammingWeight'], 'pm1': ['CheckPollardpm1'], 'pm1cover': ['CheckPollardpm1'], 'lhwslow': ['CheckLowHammingWeight'], 'pm1pow': ['CheckPollardpm1']}


def grid(ctx):
  g = tlc.run('FamilyGrid', 'FamilyGrid_%s.cfg' % ('quick' if ctx.quick else 'thorough'), workers=1, coverage=False)
  if g.violated:
    raise tlc.MachineryError('FamilyGrid: %s' % g.error_text)
  cells = {}
  for c in g.prints.get('CELL', []):
    cells[repr(sorted(c.items()))] = c
  if not cells:
    raise tlc.MachineryError('FamilyGrid produced no cell')
  ctx.note_mc(g, 'FamilyGrid: boundary cells of every documented family')
  return list(cells.values())


def unseeded_cells(quick):
  """The listed outputs live in the repository's data module; a fixed sample of them x the three top-bit variants."""
  shim.install()
  from paranoid_crypto.lib.data import unseeded_rands
  cells = []
  for psize, vals in sorted(unseeded_rands.size_unseeded_map.items()):
    if quick and psize > 1024:
      continue
    vals = sorted(vals)
    idxs = range(len(vals)) if not quick else [0, 7, 19, 33, 48, 61, 79]
    for i in idxs:
      for variant in (0, 1, 2):
        cells.append({'family': 'unseeded', 'psize': psize, 'index': i, 'variant': variant})
  # listed outputs with leading zero bits (the shortest two of every size), top-bit variants
  for psize, vals in sorted(unseeded_rands.size_unseeded_map.items()):
    if quick and psize > 2048:
      continue
    order = sorted(range(len(vals)), key=lambda i_: (sorted(vals)[i_].bit_length(), i_))[:2]
    for i in order:
      for variant in (1, 2):
        cells.append({'family': 'unseeded', 'psize': psize, 'index': i, 'variant': variant, 'short': 1})
  # ground truth that does not come from the shipped table: the first ten outputs of GMP's Mersenne Twister in its default state
  # (gmpy2.random_state()), which the table lists for every size
  for psize in sorted(unseeded_rands.size_unseeded_map):
    if quick and psize > 1536:
      continue
    for i in range(10):
      for variant in ((0, 1) if quick else (0, 1, 2)):
        cells.append({'family': 'unseeded', 'psize': psize, 'index': i, 'variant': variant, 'source': 'gmpmt'})
  return cells


def cell_id(cell):
  return '-'.join('%s%s' % (k[0], cell[k]) for k in sorted(cell) if k != 'family')


def build(cell, inst):
  """Catalogue instance `inst` of a cell (deterministic seed: the cell itself, not VERIF_SEED)."""
  rng = random.Random(hashlib.sha1(repr((sorted(cell.items()), inst)).encode()).hexdigest())
  f = cell['family']
  aid = 'k'
  if f == 'fermat':
    return weak.fermat_key(rng, aid, cell['pbits'], cell['steps'])
  if f == 'highlow':
    if cell['s'] < 2 or cell['r'] + cell['s'] >= cell['bits'] // 2 - 8:
      return None
    return weak.highlow_key(rng, aid, cell['bits'], cell['r'], cell['s'])
  if f == 'upperdiff':
    return weak.upperdiff_key(rng, aid, cell['L'], cell['dindex'], cell.get('odd', 0), cell.get('qlong', 0))
  if f == 'unseeded':
    from paranoid_crypto.lib.data import unseeded_rands
    if cell.get('source') == 'gmpmt':
      import gmpy2
      rs = gmpy2.random_state()
      out = [int(gmpy2.mpz_urandomb(rs, cell['psize'])) for _ in range(cell['index'] + 1)]
      return weak.unseeded_key(rng, aid, cell['psize'], out[-1], cell['variant'])
    vals = sorted(unseeded_rands.size_unseeded_map[cell['psize']])
    return weak.unseeded_key(rng, aid, cell['psize'], vals[cell['index']], cell['variant'])
  if f == 'pattern':
    return weak.pattern_key(rng, aid, cell['bits'], cell['w'], cell['dev'])
  if f == 'permuted':
    return weak.permuted_key(rng, aid, cell['bits'], cell['limb'], cell['psize'])
  if f == 'cf':
    return weak.cf_key(rng, aid, cell['bits'], cell['w1'], cell['w2'])
  if f == 'lhw':
    return weak.lhw_key(rng, aid, cell['bits'], cell['h1'], cell['h2'])
  if f == 'pm1':
    return weak.pm1_key(rng, aid, cell['bits'], cell['shared'], cell['mode'])
  if f == 'pm1pow':
    return weak.pm1_power_key(rng, aid, cell['bits'], cell['kind'])
  if f == 'lhwslow':
    return weak.lhw_slow_starter(rng, aid)
  if f == 'pm1cover':
    return weak.pm1_cover_key(rng, aid, 2048, cell['kind'], cell['block'])
  raise ValueError(f)


def _noise_keys(rng, nbits):
  """Healthy moduli of slightly shorter, odd bit lengths (same encoded byte length as the target) and of another size."""
  from pv import art as _art
  out = []
  # ... and a short modulus (per-key limits derived from one key must not carry over to the next key of the batch)
  for j, bits in enumerate((nbits - 2, nbits - 7, 1024 if nbits != 1024 else 2048, 384)):
    if bits < 128:
      continue
    pb = bits // 2 + 1
    for _ in range(200):
      p_ = _art.rand_prime_top2(rng, pb)
      q_ = _art.rand_prime(rng, bits - pb + 1)
      if (p_ * q_).bit_length() == bits:
        break
    n_ = p_ * q_
    out.append(checks.Art('noise%d' % j, 'rsa', _art.rsa_key(n_), 'noise', n=n_, e=65537, crit={}))
  return out


def run_cell(args):
  cell, inst, prop = args[:3]
  context = args[3] if len(args) > 3 else 'alone'
  sid = '%s-%s-%s-i%d%s' % (prop, cell['family'], cell_id(cell), inst, '' if context == 'alone' else '-' + context)
  try:
    shim.install()
    from paranoid_crypto.lib import paranoid  # noqa (import order)
    from paranoid_crypto.lib import rsa_single_checks
    a = build(cell, inst)
    if a is None:
      return sid, None, 'empty'
    names = CHECK_OF[cell['family']]
    par = None
    objs = []
    for nm in names:
      if nm == 'CheckFermat' and cell['family'] == 'fermat':
        objs.append(rsa_single_checks.CheckFermat(max_steps=cell['max_steps']))
        par = {'max_steps': cell['max_steps']}
      else:
        objs.append(getattr(rsa_single_checks, nm)())
    batch = [a]
    if context == 'after-noise':
      # the same check objects first see unrelated healthy keys of odd sizes, in an earlier call and in the same batch
      import random as _r
      nrng = _r.Random(sid)
      noise = _noise_keys(nrng, a.meta['n'].bit_length())
      if par is None:
        reg = paranoid.GetRSAAllChecks()
        objs = [reg[nm] for nm in names]          # the process-wide singletons
      for o in objs:
        o.Check([k.proto for k in noise[:1]])
      batch = noise[1:] + [a]
    def fn():
      ret = False
      for o in objs:
        ret = o.Check([k.proto for k in batch]) or ret
      return ret
    crit = {k.aid: dict(k.meta.get('crit', {})) for k in batch}
    rec = checks.record_call(sid, 'rsa', batch, fn, names, crit)
    if par:
      rec['par'] = par
    rec['scenario'] = {'cell': cell, 'instance': inst, 'attrs': a.meta['attrs'], 'n_hex': format(a.meta['n'], 'x')}
    return sid, rec, None
  except Exception:  # pylint: disable=broad-except
    return sid, None, traceback.format_exc()


def run_family_check(ctx, prop, families, instances):
  cells = [c for c in grid(ctx) if c['family'] in families]
  if 'unseeded' in families:
    cells += unseeded_cells(ctx.quick)
  jobs = [(c, i, prop) for c in cells for i in range(1 if c['family'] in ('pm1cover', 'lhwslow') else 2 if (c['family'] == 'unseeded' and instances > 2) else instances)]
  jobs += [(c, 0, prop, 'after-noise') for c in cells if c['family'] not in ('lhw', 'lhwslow', 'pm1cover')]
  if ctx.only_sid:
    jobs = [j for j in jobs if ctx.only_sid.startswith('%s-%s-%s-i%d' % (prop, j[0]['family'], cell_id(j[0]), j[1]))]
  mpctx = mp.get_context('fork')
  from pv import proc
  results = list(proc.imap_unordered(run_cell, jobs, procs=15, chunk=2))
  recs, empty = [], 0
  for sid, rec, err in results:
    if err == 'empty':
      empty += 1
    elif err:
      raise tlc.MachineryError('cell %s crashed in the harness:\n%s' % (sid, err))
    else:
      recs.append(rec)
  ctx.notes['cells'] = len(cells)
  ctx.notes['empty_cells(no prime exists in the family / generator gave up)'] = empty
  if len(recs) < len(jobs) // 2:
    raise tlc.MachineryError('more than half of the family cells could not be instantiated (%d of %d)' % (len(recs), len(jobs)))
  ctx.replayed = len(recs)
  for x in recs[:3]:
    ctx.sample({'sid': x['sid'], 'scenario': {k: v for k, v in x['scenario'].items() if k != 'n_hex'},
                'entries': x['arts'][-1]['after']['entries'], 'nf_is_pq': x['arts'][-1]['after']['nf_is_pq']})
  c, fails, trs = tlc.validate_trace_parallel('ChecksTrace', 'ChecksTrace.cfg', recs, prop, jobs=8, timeout=3600)
  ctx.note_mc(trs[0], 'ChecksTrace with FactorCriteria (first of %d chunks)' % len(trs))
  ctx.validated = c
  by = {x['sid']: x for x in recs}
  def det(rec, f):
    sc = rec['scenario']
    d = {'family': sc['cell']['family'], 'cell': sc['cell'], 'instance': sc['instance'], 'attrs': sc['attrs'], 'raised': rec['raised'],
         'entries': [(e['name'], e['result']) for e in rec['arts'][-1]['after']['entries']] if rec['arts'] else None,
         'context': 'after-noise' if len(rec['arts']) > 1 else 'alone',
         'n_hex': sc['n_hex']}
    d.update({'cell_' + k: v for k, v in sc['cell'].items()})
    return d
  ctx.trace_failures(fails, by, det)
  ctx.distinct = set(by)
