"""C14 — linear complexity is the true shortest-LFSR length in every implementation."""
import json
import random

from pv import proc
from pv import shim
from pv import tlc


def bits_to_int(bits):
  return sum(b << i for i, b in enumerate(bits))


def _impls():
  shim.install()
  from paranoid_crypto.lib.randomness_tests import berlekamp_massey as bm
  cl = shim.load_bm(shim.build_bm('clmul'))
  po = shim.load_bm(shim.build_bm('portable'))
  return bm, cl, po


def lc_record(impls, bits, sid, ev='lc'):
  bm, cl, po = impls
  n = len(bits)
  s = bits_to_int(bits)
  rec = {'sid': sid, 'ev': ev, 'args': {'n': n}, 'obs': {}, 'raised': 'none'}
  if ev == 'lc':
    rec['args']['bits'] = bits
  proc.mark(json.dumps({'sid': sid, 'n': n, 'bits': ''.join(map(str, bits))[:1300]}))
  try:
    ba = s.to_bytes((n + 7) // 8, 'little')
    rec['obs'] = {'clmul': cl(ba, n), 'portable': po(ba, n), 'python': bm.LinearComplexityNative(s, n),
                  'wrapper': bm.LinearComplexity(s, n)}
  except Exception as e:  # pylint: disable=broad-except
    rec['raised'] = type(e).__name__
  return rec


def classes(rng, n):
  """Sequence classes of length n named in the property."""
  out = {}
  out['zero'] = [0] * n
  out['one'] = [1] * n
  out['random'] = [rng.getrandbits(1) for _ in range(n)]
  sp = [0] * n
  for _ in range(max(1, n // 64)):
    if n:
      sp[rng.randrange(n)] = 1
  out['sparse'] = sp
  per = rng.choice([2, 3, 5, 7, 31, 63, 64, 65])
  pat = [rng.getrandbits(1) for _ in range(per)]
  out['periodic'] = [pat[i % per] for i in range(n)]
  k = rng.randrange(0, n + 1) if n else 0
  out['leadzeros'] = [0] * k + [rng.getrandbits(1) for _ in range(n - k)]
  out['trailzeros'] = [rng.getrandbits(1) for _ in range(n - k)] + [0] * k
  # impulse near the end: the register length jumps in the last bits of a word
  imp = [0] * n
  if n:
    imp[n - 1 - rng.randrange(min(n, 3))] = 1
  out['lateimpulse'] = imp
  # early jump of the register length followed by a discrepancy in the tail (bits after the last full 64-bit word):
  # about half the (word-aligned) length in leading zeros, then an impulse, then random or sparse bits
  n0 = n - (n % 64)
  if n > 70:
    for tag, k in (('half', n0 // 2), ('halfm1', n0 // 2 - 1), ('halfp1', n0 // 2 + 1), ('nhalf', n // 2), ('third', n0 // 3)):
      if 0 < k < n - 2:
        out['zeros_%s_random' % tag] = [0] * k + [1] + [rng.getrandbits(1) for _ in range(n - k - 1)]
        tail = [0] * (n - k - 1)
        tail[-1 - rng.randrange(min(len(tail), max(1, n % 64 or 64)))] = 1
        out['zeros_%s_impulse' % tag] = [0] * k + [1] + tail
    # an LFSR of length about n0 / 2 (the register stops changing early), one bit flipped in the tail
    L = max(2, n0 // 2 - rng.randrange(0, 3))
    taps = [rng.getrandbits(1) for _ in range(L)]
    taps[-1] = 1
    seq = [rng.getrandbits(1) for _ in range(L)]
    while len(seq) < n:
      seq.append(sum(t * seq[-1 - j] for j, t in enumerate(taps)) % 2)
    seq = seq[:n]
    seq[n - 1 - rng.randrange(max(1, n % 64 or 1))] ^= 1
    out['lfsr_half_tailflip'] = seq
  # LFSR-generated then one flipped bit exactly at a word boundary
  if n > 70:
    L = rng.choice([5, 17, 31, 32, 33])
    taps = [rng.getrandbits(1) for _ in range(L)]
    seq = [rng.getrandbits(1) for _ in range(L)]
    while len(seq) < n:
      seq.append(sum(t * seq[-1 - j] for j, t in enumerate(taps)) % 2)
    seq = seq[:n]
    pos = (rng.randrange(1, (n // 64) + 1) * 64) + rng.choice([-1, 0, 1])
    if 0 <= pos < n:
      seq[pos] ^= 1
    out['lfsrflip'] = seq
  return out


def build_records(quick, rng, only_sid):
  impls = _impls()
  bm = impls[0]
  class C: pass
  ctx = C(); ctx.quick = quick; ctx.rng = rng
  recs = []
  skip = set(SKIP)
  exh = 12 if ctx.quick else 16
  for n in range(0, exh + 1):
    for v in range(1 << n):
      bits = [(v >> i) & 1 for i in range(n)]
      sid = 'exh-%d-%d' % (n, v)
      if sid not in skip:
        recs.append(lc_record(impls, bits, sid))
  lens = sorted(set([l for w in range(1, 18) for l in (64 * w - 1, 64 * w, 64 * w + 1)] + [100, 200, 500, 1000, 1100]))
  lens = [l for l in lens if l <= 1100]
  reps = 1 if ctx.quick else 4
  for n in lens:
    if ctx.quick and n > 520 and n % 64 == 63:
      continue
    for rep in range(reps):
      for cname, bits in classes(ctx.rng, n).items():
        if ctx.quick and n > 260 and cname in ('one', 'trailzeros', 'sparse', 'zeros_third_random', 'zeros_nhalf_impulse'):
          continue
        if ctx.quick and n > 330 and n not in (500, 641, 1000) and (cname.startswith('zeros_') or cname == 'lfsr_half_tailflip'):
          continue
        recs.append(lc_record(impls, bits, 'long-%d-%s-%d' % (n, cname, rep)))
  # long sequences: implementations against each other only
  for n in ([4096, 8191, 8192, 16385] if ctx.quick else [4096, 8191, 8192, 16385, 32768, 65537, 131072]):
    for cname in ('random', 'periodic', 'sparse'):
      bits = classes(ctx.rng, n)[cname]
      recs.append(lc_record(impls, bits, 'cross-%d-%s' % (n, cname), ev='cross'))
  # census functions on the full grid
  for n in range(-1, 65):
    for m in range(-1, n + 2):
      rec = {'sid': 'count-%d-%d' % (n, m), 'ev': 'count', 'args': {'n': n, 'm': m}, 'obs': {}, 'raised': 'none'}
      try:
        c = bm.LfsrCount(n, m)
        if not isinstance(c, int):
          rec['obs'] = {'log2': -3}
        elif c == 0:
          rec['obs'] = {'log2': -1}
        elif c & (c - 1) == 0:
          rec['obs'] = {'log2': c.bit_length() - 1}
        else:
          rec['obs'] = {'log2': -2}
      except Exception as e:  # pylint: disable=broad-except
        rec['raised'] = type(e).__name__
      recs.append(rec)
      rec = {'sid': 'logprob-%d-%d' % (n, m), 'ev': 'logprob', 'args': {'n': n, 'm': m}, 'obs': {}, 'raised': 'none'}
      try:
        rec['obs'] = {'value': int(bm.LfsrLogProbability(n, m))}
      except Exception as e:  # pylint: disable=broad-except
        rec['raised'] = type(e).__name__
      recs.append(rec)
  # the closed form at the block sizes the suite uses (512 .. 4096) and beyond: every m for a few n, the median band for a sweep of n
  big = [512, 1024, 2048, 2955, 2956, 2957, 4095, 4096, 4097, 8192, 65536]
  sweep = list(range(100, 6000, 97 if ctx.quick else 7))
  for n in big + sweep:
    ms = range(0, n + 1) if (n in big and n <= 4097 and (not ctx.quick or n in (2956, 4096))) else sorted(
        set([0, 1, 2, n // 4, n // 2 - 2, n // 2 - 1, n // 2, n // 2 + 1, n // 2 + 2, (n + 1) // 2, 3 * n // 4, n - 1, n]))
    for m in ms:
      rec = {'sid': 'logprob-%d-%d' % (n, m), 'ev': 'logprob', 'args': {'n': n, 'm': m}, 'obs': {}, 'raised': 'none'}
      try:
        rec['obs'] = {'value': int(bm.LfsrLogProbability(n, m))}
      except Exception as e:  # pylint: disable=broad-except
        rec['raised'] = type(e).__name__
      recs.append(rec)
  return recs, exh


SKIP = []


def run(ctx):
  ctx.trust('TLC 1.8', 'ctypes wrapper + 3-line extern "C" shim compiled together with /repo berlekamp_massey.cc (both variants)')
  # 1. model check: BM machine == brute-force definition, census == closed form
  maxlen = 10 if ctx.quick else 12
  r = tlc.run('BerlekampMassey', 'MC_BM.cfg', timeout=3600)
  if r.violated:
    raise tlc.MachineryError('BerlekampMassey model: %s %s' % (r.violated, r.error_text))
  ctx.note_mc(r, 'BerlekampMassey/MC_BM: machine vs brute-force shortest LFSR, every sequence of length <= 9, census', 'MaxLen=9')
  if not ctx.quick:
    r = tlc.expect_holds('BerlekampMassey', 'MC_BM12.cfg', timeout=7200)
    ctx.note_mc(r, 'BerlekampMassey/MC_BM12', 'MaxLen=12')
  # 2./3. replay in an isolated child process: a crash of the native code is a verdict, not a harness failure
  crashes = []
  while True:
    try:
      recs, exh = proc.run_isolated(build_records, (ctx.quick, ctx.rng, ctx.only_sid), timeout=3600)
      break
    except proc.Crashed as c:
      info = json.loads(c.marker) if c.marker.startswith('{') else {'sid': c.marker}
      crashes.append((info, c.code))
      if len(crashes) > 5:
        raise tlc.MachineryError('native code crashed on more than 5 inputs: %s' % crashes)
      SKIP.append(info['sid'])
  for info, code in crashes:
    ctx.violation('NativeCrash', info.get('sid'), {'ev': 'lc', 'exitcode': code, 'n': info.get('n'), 'bits': info.get('bits')})
  if ctx.only_sid:
    recs = [x for x in recs if x['sid'] == ctx.only_sid]
  ctx.replayed = len(recs)
  for x in (recs[5], recs[1000 % len(recs)], recs[-1]):
    ctx.sample(x if len(json.dumps(x)) < 600 else {'sid': x['sid'], 'ev': x['ev'], 'obs': x['obs']})
  # 4. validate (records are independent -> parallel TLC processes); long ones spread evenly
  rnd = random.Random(7)
  rnd.shuffle(recs)
  c, fails, trs = tlc.validate_trace_parallel('BMTrace', 'BMTrace.cfg', recs, 'C14', jobs=14, timeout=3600, heap='3g')
  for tr in trs:
    ctx.note_mc(tr, 'BMTrace chunk')
  ctx.models = ctx.models[:2] + [{'model': 'BMTrace: %d chunks' % len(trs)}]
  ctx.validated = c
  by = {x['sid']: x for x in recs}
  ctx.trace_failures(fails, by, lambda rec, f: {'ev': rec['ev'], 'n': rec['args'].get('n'), 'obs': rec['obs'],
                                               'raised': rec['raised'],
                                               'bits': ''.join(map(str, rec['args'].get('bits', [])))[:1200]})
  ctx.distinct = set(by)
  ctx.notes['exhaustive_lengths'] = '0..%d' % exh
  ctx.assume('sequences longer than 1100 bits are compared across the three implementations only (TLC cannot afford them)')


def selftest(ctx):
  impls = _impls()
  good = lc_record(impls, [1, 0, 0, 1, 1, 0, 1], 'good')
  bad = json.loads(json.dumps(good))
  bad['sid'] = 'corrupt'
  bad['obs']['portable'] += 1
  _, fails, _ = tlc.validate_trace('BMTrace', 'BMTrace.cfg', [good, bad], 'C14self')
  got = [(f['sid'], f['clause']) for f in fails]
  assert got == [('corrupt', 'NativePortableIsShortestLfsr')], got
  print('selftest ok', got)
