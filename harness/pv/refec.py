"""Reference affine elliptic-curve arithmetic written from the textbook law (trusted base for T2 checks)."""

INF = None


class RefCurve:

  def __init__(self, p, a, b, g, n):
    self.p, self.a, self.b, self.g, self.n = int(p), int(a) % int(p), int(b) % int(p), (int(g[0]), int(g[1])), int(n)

  def on_curve(self, P):
    if P is INF:
      return True
    x, y = P
    return (y * y - (x * x * x + self.a * x + self.b)) % self.p == 0

  def neg(self, P):
    return INF if P is INF else (P[0], (-P[1]) % self.p)

  def add(self, P, Q):
    p = self.p
    if P is INF:
      return Q
    if Q is INF:
      return P
    x1, y1 = P
    x2, y2 = Q
    if (x1 - x2) % p == 0:
      if (y1 + y2) % p == 0:
        return INF
      t = (3 * x1 * x1 + self.a) * pow(2 * y1, -1, p) % p
    else:
      t = (y2 - y1) * pow(x2 - x1, -1, p) % p
    x3 = (t * t - x1 - x2) % p
    return (x3, (t * (x1 - x3) - y1) % p)

  def mul(self, k, P):
    if k < 0:
      return self.mul(-k, self.neg(P))
    R = INF
    while k:
      if k & 1:
        R = self.add(R, P)
      P = self.add(P, P)
      k >>= 1
    return R


def from_lib(pt):
  """Library point (x, y) / (None, None) -> reference point."""
  if pt is None or pt[0] is None:
    return INF
  return (int(pt[0]), int(pt[1]))


def to_lib(P):
  import gmpy2
  return (None, None) if P is INF else (gmpy2.mpz(P[0]), gmpy2.mpz(P[1]))


def enc(pt):
  """Library / reference point -> JSON [x, y] with [-1, -1] for infinity."""
  if pt is None or pt[0] is None:
    return [-1, -1]
  return [int(pt[0]), int(pt[1])]


def ref_of(curve):
  return RefCurve(curve.mod, curve.a, curve.b, curve.g, curve.n)
