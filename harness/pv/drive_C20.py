"""C20 — bundled generators return exactly the requested bits, reproducibly."""
import hashlib
import json
import os
import random
import subprocess

from pv import shim
from pv import tlc

SLOW = ('subsetsum', 'lcgnist')
# generators that cannot be seeded by construction (they draw from os.urandom and discard the seed argument)
UNSEEDABLE = ('urandom', 'subsetsum')


def R(sid, ev, args):
  return {'sid': sid, 'ev': ev, 'args': args, 'obs': {}, 'raised': 'none'}


def limbs(v):
  return [(v >> (12 * i)) & 4095 for i in range(4)]


def range_record(rng_mod, name, n, seed, tag):
  rec = R('%s-range-%d-%s' % (name, n, tag), 'range',
          {'name': name, 'family': family(name), 'n': n, 'n_mod_8': n % 8, 'seeded': seed is not None})
  try:
    v = rng_mod.GetRng(name).RandomBits(n, seed=seed)
    isint = isinstance(v, int) or hasattr(v, 'bit_length')
    rec['obs'] = {'is_int': bool(isint), 'nonneg': bool(isint and v >= 0), 'bitlen': int(v).bit_length() if isint else -1}
  except Exception as e:  # pylint: disable=broad-except
    rec['raised'] = type(e).__name__
  return rec


def family(name):
  for f in ('trunclcg', 'mwc', 'lehmer', 'subsetsum', 'xor'):
    if name.startswith(f):
      return f
  return name


def digest(v):
  return hashlib.sha1(repr(int(v)).encode()).hexdigest()


def pure_record(rng_mod, name, n, seed, others):
  rec = R('%s-pure-%d-%d-b%d' % (name, n, seed % 1000, seed.bit_length()), 'pure', {'name': name, 'family': family(name), 'n': n, 'n_mod_8': n % 8})
  try:
    g = rng_mod.GetRng(name)
    a = g.RandomBits(n, seed=seed)
    for on, nn, ss in others:        # interleaved calls on other generators / other arguments
      rng_mod.GetRng(on).RandomBits(nn, seed=ss)
    g.RandomBits(max(1, n // 2), seed=seed + 1)
    b = rng_mod.GetRng(name).RandomBits(n, seed=seed)
    rec['obs'] = {'same': digest(a) == digest(b)}
  except Exception as e:  # pylint: disable=broad-except
    rec['raised'] = type(e).__name__
  return rec


SPECIAL_SEEDS = [1 << 64, 3 << 64, 1 << 128, (1 << 64) + 1, 1 << 32, 1 << 63, (1 << 192) + (5 << 64)]
HIST_NS = [13, 16, 9, 64, 61, 128, 16, 3, 24, 23]


def _fresh_value(args):
  name, n, seed = args
  shim.install()
  from paranoid_crypto.lib.randomness_tests import rng as rng_mod
  try:
    return args, digest(rng_mod.GetRng(name).RandomBits(n, seed=seed))
  except Exception as e:  # pylint: disable=broad-except
    return args, 'raised ' + type(e).__name__


def hist_records(rng_mod, names, rnd, quick):
  """One generator object, one seed, a sequence of lengths (shrinking, growing inside one byte count, growing); reference: the call alone
  in a fresh process."""
  import multiprocessing as mp
  plans = []
  for name in names:
    if name.startswith(UNSEEDABLE):
      continue
    ns = HIST_NS if not name.startswith(SLOW) else HIST_NS[:6]
    for seed in ([rnd.randrange(1, 2 ** 48)] if quick else [rnd.randrange(1, 2 ** 48), SPECIAL_SEEDS[0], rnd.randrange(1, 2 ** 200)]):
      plans.append((name, list(ns), seed))
  want = sorted({(name, n, seed) for name, ns, seed in plans for n in ns})
  from pv import proc
  fresh = dict(proc.imap_unordered(_fresh_value, want, procs=12, chunk=8))
  recs = []
  for name, ns, seed in plans:
    rec = R('%s-hist-%d' % (name, seed % 100003), 'hist', {'name': name, 'family': family(name), 'ns': ns, 'n': ns[0], 'n_mod_8': ns[0] % 8})
    try:
      g = rng_mod.GetRng(name)
      rec['obs'] = {'equal_fresh': [digest(g.RandomBits(n, seed=seed)) == fresh[(name, n, seed)] for n in ns]}
    except Exception as e:  # pylint: disable=broad-except
      rec['raised'] = type(e).__name__
    recs.append(rec)
  return recs


def lengths(quick, name):
  slow = name.startswith(SLOW)
  ns = set(range(1, 131 if not slow else 40))
  top = 2048 if not slow else 520
  for base in (8, 32, 64):
    for m in range(base, top + 1, base * (1 if not quick else 3)):
      for d in (-1, 0, 1):
        if 1 <= m + d <= top:
          ns.add(m + d)
  if not quick and not slow:
    ns.update(range(1, 2049))
  ns.update([top - 1, top])
  return sorted(ns)


def jdk_fixture():
  """JDK ground truth: regenerated with the installed JDK when possible, else the committed fixture."""
  fx = os.path.join(tlc.SPEC, 'fixtures')
  recs = [json.loads(l) for l in open(os.path.join(fx, 'java_jdk17.ndjson'))]
  src = 'regenerated'
  try:
    out = os.path.join(tlc.BUILD, 'jdk')
    os.makedirs(out, exist_ok=True)
    subprocess.run(['javac', '-d', out, os.path.join(fx, 'J.java')], check=True, capture_output=True, timeout=120)
    p = subprocess.run(['java', '-cp', out, 'J'], check=True, capture_output=True, text=True, timeout=120)
    fresh = []
    for line in p.stdout.split('\n'):
      if not line.strip():
        continue
      seed, n, hx = line.split()
      seed, n, v = int(seed), int(n), int(hx, 16)
      if n > 64:
        continue
      fresh.append({'seed': limbs(seed), 'n': n, 'bytes': list(v.to_bytes((n + 7) // 8, 'big'))})
    if fresh:
      key = lambda r: (tuple(r['seed']), r['n'])
      fm = {key(r): r['bytes'] for r in fresh}
      for r in recs:
        if key(r) in fm and fm[key(r)] != r['bytes']:
          raise tlc.MachineryError('committed JDK fixture differs from the installed JDK at %s' % (key(r),))
      recs = fresh
  except (OSError, subprocess.SubprocessError):
    src = 'committed fixture (no JDK compiler available)'
  return recs, src


def run(ctx):
  shim.install()
  from paranoid_crypto.lib.randomness_tests import rng as rng_mod
  ctx.trust('TLC 1.8 (+ Bitwise module)', 'real JDK 17 java.util.Random/BigInteger output (spec-vs-original binding)',
            'stated-recurrence reference for registry-size truncated LCGs (Python ints, T2)')
  ctx.assume('urandom and subsetsum* draw from os.urandom and discard the seed by construction: range clause only')
  ctx.assume('the truncated-LCG "bit stream" is read as: state <- a*state + 1 mod 2^(2w), output the upper w bits, outputs '
             'concatenated little-endian, the n requested bits are the low n bits; for n % 8 == 0 no truncation is involved')
  r = tlc.expect_holds('MC_Rng', 'MC_Rng.cfg')
  ctx.note_mc(r, 'Rng/MC_Rng: three truncation styles stay below 2^n for every buffer <= 3 bytes and every n')
  d5 = tlc.mc('MC_Rng', 'MC_Rng_D5.cfg')
  if d5.violated != 'RangeMaskFirstLE':
    raise tlc.MachineryError('mask-first-byte-of-little-endian style should be refuted by TLC')
  ctx.notes['design_level_counterexample'] = 'MC_Rng_D5.cfg: masking byte 0 of a little-endian buffer violates the range invariant (D5)'
  rnd = ctx.rng
  recs = []
  names = rng_mod.RngNames()
  for name in names:
    seeds = [1, rnd.randrange(2, 2 ** 62)]
    for n in lengths(ctx.quick, name):
      for si, seed in enumerate(seeds if (n <= 130 or n % 8 != 0 or ctx.quick is False) else seeds[:1]):
        recs.append(range_record(rng_mod, name, n, seed, 's%d' % si))
      if n in (1, 7, 8, 9, 63, 64, 65, 100, 128, 129):
        recs.append(range_record(rng_mod, name, n, None, 'unseeded'))
    if not name.startswith(UNSEEDABLE):
      for n in ([1, 5, 8, 33, 64, 100, 257] if ctx.quick else [1, 5, 8, 9, 31, 32, 33, 63, 64, 65, 100, 128, 257, 512, 1000]):
        if name.startswith(SLOW) and n > 300:
          continue
        others = [(rnd.choice(names[:24]), rnd.randrange(1, 200), rnd.randrange(1, 99)) for _ in range(3)]
        recs.append(pure_record(rng_mod, name, n, rnd.randrange(1, 2 ** 48), others))
      # seeds whose low 32 / 64 bits are zero, seeds far above the state size
      for j, sp in enumerate(SPECIAL_SEEDS):
        n = [64, 13, 100][j % 3] if not name.startswith(SLOW) else 13
        recs.append(pure_record(rng_mod, name, n, sp, []))
  recs += hist_records(rng_mod, names, rnd, ctx.quick)
  # java: TLC recomputes the BigInteger byte stream on limbs
  for i in range(150 if ctx.quick else 1200):
    # java.util.Random takes any 64-bit long and keeps (seed ^ 0x5DEECE66D) & (2^48 - 1): seeds beyond 48 bits, negative seeds and the
    # seed that scrambles to the all-ones state are part of the vocabulary (the model sees the low 48 bits)
    seed = rnd.choice([1, 42, rnd.randrange(1, 2 ** 48), rnd.randrange(1, 2 ** 48), 2 ** 48 - 1, 2 ** 47, 2 ** 48, 2 ** 48 + rnd.randrange(1, 2 ** 40),
                       rnd.randrange(2 ** 48, 2 ** 63), 0xFFFFFFFFFFFF ^ 0x5DEECE66D, -1, -rnd.randrange(1, 2 ** 63), 2 ** 63 - 1])
    n = rnd.choice([1, 7, 8, 9, 31, 32, 33, 63, 64, 65, rnd.randrange(1, 200)])
    rec = R('java-%d-%d-%d' % (i, seed % 10007, n), 'java', {'seed': limbs(seed), 'n': n, 'name': 'java', 'family': 'java', 'n_mod_8': n % 8,
                                                             'seed_bits': seed.bit_length(), 'negative': seed < 0})
    try:
      v = rng_mod.GetRng('java').RandomBits(n, seed=seed)
      if v.bit_length() > 8 * ((n + 7) // 8):
        rec['obs'] = {'bytes': [-1]}
      else:
        rec['obs'] = {'bytes': list(int(v).to_bytes((n + 7) // 8, 'big'))}
    except Exception as e:  # pylint: disable=broad-except
      rec['raised'] = type(e).__name__
    recs.append(rec)
  jdk, src = jdk_fixture()
  ctx.notes['jdk_ground_truth'] = src
  for i, jr in enumerate(jdk):
    if jr['n'] <= 64:
      recs.append({'sid': 'jdk-%d' % i, 'ev': 'jdk', 'args': {'seed': jr['seed'], 'n': jr['n']}, 'obs': {'bytes': jr['bytes']}, 'raised': 'none'})
  # truncated LCG: small state sizes recomputed by TLC, registry sizes against the stated recurrence
  # the multipliers of the modelled generators (L'Ecuyer 1999, table 4; Steele / Vigna for 256 bits) from a committed fixture, so that the
  # reference stream does not move with the table under test
  mult = {int(k): int(v) for k, v in json.load(open(os.path.join(tlc.SPEC, 'fixtures', 'trunclcg_multipliers.json')))['a_of_w'].items()}
  for w in sorted(mult):
    rec = R('lcgmult-%d' % w, 'lcgmult', {'name': 'trunclcg%d' % w, 'family': 'trunclcg', 'n': w, 'n_mod_8': 0})
    try:
      rec['obs'] = {'same': int(rng_mod.TruncLcgRand(w).a) == mult[w]}
    except Exception as e:  # pylint: disable=broad-except
      rec['raised'] = type(e).__name__
    recs.append(rec)
  for w in (2, 3, 4, 5, 6, 7):
    g = rng_mod.TruncLcgRand(w)
    a_eff = mult[w] % (1 << (2 * w))
    for i in range(40 if ctx.quick else 250):
      seed = rnd.randrange(0, 1 << (2 * w))
      n = rnd.choice([1, 3, 7, 8, 9, 15, 16, 17, 24]) if i % 2 else 8 * rnd.randrange(1, 4)
      if seed == 0:
        seed = 1
      rec = R('lcgsmall-%d-%d-%d-%d' % (w, i, seed, n), 'lcgsmall',
              {'w': w, 'a': a_eff, 'seed': seed, 'n': n, 'name': 'trunclcg%d' % w, 'family': 'trunclcg', 'n_mod_8': n % 8})
      try:
        v = int(g.RandomBits(n, seed=seed))
        rec['obs'] = {'value': v if v < 2 ** 31 else -1}
      except Exception as e:  # pylint: disable=broad-except
        rec['raised'] = type(e).__name__
      recs.append(rec)
  for name in [x for x in names if x.startswith('trunclcg')]:
    g = rng_mod.GetRng(name)
    w = g.output_size
    for i in range(30 if ctx.quick else 200):
      seed = rnd.randrange(1, 1 << (2 * w))
      n = rnd.choice([8, 16, 64, 128, 256, 1024]) if i % 2 == 0 else rnd.randrange(1, 600)
      rec = R('lcgreg-%s-%d-%d' % (name, i, n), 'lcgreg', {'name': name, 'family': 'trunclcg', 'n': n, 'n_mod_8': n % 8})
      try:
        v = int(g.RandomBits(n, seed=seed))
        st, out, ob = seed, b'', (w + 7) // 8
        while len(out) < (n + 7) // 8:
          st = (st * mult[w] + 1) % (1 << (2 * w))
          out += (st >> w).to_bytes(ob, 'little')
        want = int.from_bytes(out[:(n + 7) // 8], 'little') % (1 << n)
        rec['obs'] = {'matches': v == want}
      except Exception as e:  # pylint: disable=broad-except
        rec['raised'] = type(e).__name__
      recs.append(rec)
  if ctx.only_sid:
    recs = [x for x in recs if x['sid'] == ctx.only_sid]
  ctx.replayed = len(recs)
  for x in (recs[0], recs[len(recs) // 2], recs[-1]):
    ctx.sample(x)
  random.Random(9).shuffle(recs)
  c, fails, trs = tlc.validate_trace_parallel('RngTrace', 'RngTrace.cfg', recs, 'C20', jobs=12, timeout=3600, heap='3g')
  ctx.note_mc(trs[0], 'RngTrace (first of %d chunks)' % len(trs))
  ctx.states += sum(t.distinct for t in trs[1:])
  ctx.transitions += sum(t.generated for t in trs[1:])
  ctx.validated = c
  by = {x['sid']: x for x in recs}
  ctx.trace_failures(fails, by, lambda rec, f: dict({k: v for k, v in rec['args'].items() if k in ('name', 'family', 'n', 'n_mod_8', 'w', 'seed')},
                                                   ev=rec['ev'], n_mod_8_nonzero=(rec['args'].get('n_mod_8', 0) != 0), obs=rec['obs'], raised=rec['raised']))
  ctx.distinct = set(by)


def selftest(ctx):
  shim.install()
  from paranoid_crypto.lib.randomness_tests import rng as rng_mod
  good = range_record(rng_mod, 'pcg64', 13, 5, 's')
  bad = json.loads(json.dumps(good))
  bad['sid'] = 'corrupt'
  bad['obs']['bitlen'] = 14
  _, fails, _ = tlc.validate_trace('RngTrace', 'RngTrace.cfg', [good, bad], 'C20self')
  got = [(f['sid'], f['clause']) for f in fails]
  assert got == [('corrupt', 'Range')], got
  print('selftest ok', got)
