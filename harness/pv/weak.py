"""Generators for the documented weak RSA families (C04, C05, C06) with their construction parameters (ground truth).

Every generator returns a checks.Art whose meta['attrs'] holds the small integers from which FactorCriteria.tla decides
must / mustnot / may, computed here from first principles (abstraction map).
"""
import gmpy2

from pv import art
from pv import checks
from pv import gen
from pv import shim


def _mk(aid, n, cls, attrs, **meta):
  crit = {c: 'may' for c in gen.RSA_CHECKS}
  return checks.Art(aid, 'rsa', art.rsa_key(n), cls, n=int(n), e=65537, crit=crit, attrs=attrs, **meta)


def isqrt_ceil(n):
  a = int(gmpy2.isqrt(n))
  return a if a * a == n else a + 1


def fermat_steps(p, q):
  """(p + q) / 2 - ceil(sqrt(p q)) for odd p, q."""
  return (p + q) // 2 - isqrt_ceil(p * q)


def fermat_key(rng, aid, prime_bits, steps):
  """n = p q with exactly `steps` Fermat steps (searching primes with the prescribed half-sum distance)."""
  for _ in range(200):
    p = art.rand_prime_top2(rng, prime_bits)
    if steps == 0:
      q = int(gmpy2.next_prime(p))
    else:
      d = int(gmpy2.isqrt(2 * p * steps + p))          # d^2 ~ 2 s (steps + 1/2)
      q = int(gmpy2.next_prime(p + 2 * d))
    if q.bit_length() != prime_bits:
      continue
    st = fermat_steps(p, q)
    if st == steps:
      return _mk(aid, p * q, 'fermat', {'family': 'fermat', 'steps': st, 'odd': True, 'square': False}, p=p, q=q)
  return None


def prime_with_bits(rng, L, low, r, high, s):
  """L-bit prime whose r lowest bits are `low` and s highest bits are `high`."""
  for _ in range(200000):
    mid = rng.getrandbits(L - r - s)
    p = (high << (L - s)) | (mid << r) | low
    if gmpy2.is_prime(p):
      return int(p)
  return None


def common_bits(p, q, L):
  """(number of equal low bits, number of equal high bits) of two L-bit primes."""
  x = p ^ q
  low = (x & -x).bit_length() - 1 if x else L
  high = L - x.bit_length()
  return low, high


def highlow_key(rng, aid, bits, r, s):
  L = bits // 2
  low = rng.getrandbits(r) | 1
  high = rng.getrandbits(s) | (1 << (s - 1)) | ((1 << (s - 2)) if s >= 2 else 0)
  for _ in range(50):
    p = prime_with_bits(rng, L, low, r, high, s)
    q = prime_with_bits(rng, L, low, r, high, s)
    if p is None or q is None or p == q:
      continue
    n = p * q
    if n.bit_length() != bits and s >= 2:
      continue
    rl, sh = common_bits(p, q, L)
    return _mk(aid, n, 'highlow', {'family': 'highlow', 'r': rl, 's': sh, 'bits': n.bit_length(),
                                   'steps': min(fermat_steps(p, q), 2 ** 31 - 1)}, p=p, q=q)
  return None


DIFFS = [100, 128, 160, 256, 2, 3]      # D = 2^(L - e)


def upperdiff_key(rng, aid, L, dindex, odd=0, qlong=0):
  """q = next_prime(p + 2^(Ld - e)) where Ld = n.bit_length() // 2 is the documented prime size (the docstring of
  CheckSmallUpperDifferences states the misread rule in terms of n.bit_length() // 2).  odd = 0: L-bit primes, n of 2L bits;
  odd = 1: L-bit primes below 2^(L - 1/2), n of 2L - 1 bits, so Ld = L - 1."""
  e = DIFFS[dindex]
  Ld = L - odd
  if Ld - e < 1:
    return None
  D = 1 << (Ld - e)
  for _ in range(400):
    if odd:
      hi = int(gmpy2.isqrt(1 << (2 * L - 1))) - 2 * D - (1 << (L // 2))
      if hi <= (1 << (L - 1)):
        return None
      p = int(gmpy2.next_prime(rng.randrange(1 << (L - 1), hi)))
    elif qlong:
      # p high enough that q = p + D needs one more bit, low enough that n keeps 2L bits: the larger prime is LONGER than half of n
      lo, hi = (1 << L) - D, int(gmpy2.isqrt(1 << (2 * L))) - D // 2 - (1 << (L // 2))
      if hi <= lo:
        return None
      p = int(gmpy2.next_prime(rng.randrange(lo, hi)))
    else:
      p = art.rand_prime(rng, L)
    q = int(gmpy2.next_prime(p + D))
    n = p * q
    if (qlong and q.bit_length() != L + 1) or (not qlong and q.bit_length() != L) or n.bit_length() != 2 * L - odd:
      continue
    return _mk(aid, n, 'upperdiff', {'family': 'upperdiff', 'dindex': dindex, 'L': n.bit_length() // 2, 'nbits': n.bit_length()}, p=p, q=q)
  return None


def unseeded_key(rng, aid, psize, value, variant):
  """One prime within a prime gap of a listed unseeded-PRNG output (or its top-bit variants), random cofactor."""
  p0 = value | (0 if variant == 0 else (1 << (psize - 1)) if variant == 1 else (3 << (psize - 2)))
  if p0.bit_length() != psize:
    return None
  p = int(gmpy2.next_prime(p0))
  for _ in range(200):
    q = int(gmpy2.next_prime(rng.getrandbits(psize) | (1 << (psize - 1))))
    n = p * q
    if (n.bit_length() + 1) // 2 == psize and q.bit_length() == psize:
      return _mk(aid, n, 'unseeded', {'family': 'unseeded', 'psize': psize, 'variant': variant, 'listed': True}, p=p, q=q)
  return None


def repeat_word(word, w, L):
  v, k = 0, 0
  while k < L:
    v |= word << k
    k += w
  return v & ((1 << L) - 1)


def pattern_prime(rng, L, w, dev, top2=True):
  """L-bit prime that repeats a w-bit word apart from `dev` low-order bits; None when the family is empty."""
  for _ in range(300):
    word = rng.getrandbits(w) | (1 << (w - 1))
    base = repeat_word(word, w, L)
    if top2 and base >> (L - 2) != 3 and w > 2:
      continue
    if base.bit_length() != L:
      continue
    tries = min(3000, 1 << max(dev - 1, 0)) if dev else 1
    for _ in range(tries):
      p = ((base >> dev) << dev) | (rng.getrandbits(dev) if dev else 0) | 1
      if gmpy2.is_prime(p):
        return int(p), (p ^ base).bit_length()
  return None


DEFAULT_SIZES = list(range(1, 16, 2)) + [31, 63, 127, 255, 511] + [8, 16, 32, 64, 128, 256]


def pattern_key(rng, aid, bits, w, dev):
  L = bits // 2
  got = pattern_prime(rng, L, w, dev)
  if got is None:
    return None
  p, devbits = got
  for _ in range(100):
    q = art.rand_prime_top2(rng, L)
    n = p * q
    if n.bit_length() == bits:
      return _mk(aid, n, 'pattern', {'family': 'pattern', 'w': w, 'bits': bits, 'dev': devbits, 'in_default': w in DEFAULT_SIZES}, p=p, q=q)
  return None


def permuted_prime(rng, L, psize, wsize, dev):
  for _ in range(400):
    pat = rng.getrandbits(psize) | 1 | (1 << (psize - 1))
    v, k = 0, 0
    while k < L + 2 * wsize:
      v |= pat << k
      k += psize
    v >>= rng.randrange(psize)
    limbs = [(v >> (wsize * i)) & ((1 << wsize) - 1) for i in range(L // wsize)]
    for i in range(0, len(limbs) - 1, 2):
      limbs[i], limbs[i + 1] = limbs[i + 1], limbs[i]
    base = sum(l << (wsize * i) for i, l in enumerate(limbs))
    base |= 3 << (L - 2)
    for _ in range(600):
      p = ((base >> dev) << dev) | rng.getrandbits(dev) | 1
      if gmpy2.is_prime(p):
        return int(p)
  return None


def permuted_dbits(psize, wsize):
  d = (2 ** psize - 1) * (2 ** (psize * wsize) + 1) // (2 ** wsize + 1)
  return d.bit_length()


def permuted_key(rng, aid, bits, wsize, psize, dev=16):
  L = bits // 2
  p = permuted_prime(rng, L, psize, wsize, dev)
  if p is None:
    return None
  for _ in range(100):
    q = art.rand_prime_top2(rng, L)
    n = p * q
    if n.bit_length() == bits:
      return _mk(aid, n, 'permuted', {'family': 'permuted', 'limb': wsize, 'psize': psize, 'dbits': permuted_dbits(psize, wsize), 'bits': bits},
                 p=p, q=q)
  return None


def cf_key(rng, aid, bits, w1, w2):
  """Both primes repeat words of at most 64 bits (16 deviating low bits to reach a prime)."""
  L = bits // 2
  ps = []
  for w in (w1, w2):
    got = None
    for _ in range(50):
      got = pattern_prime(rng, L, w, 16, top2=False)
      if got:
        break
    if not got:
      return None
    ps.append(got[0])
  n = ps[0] * ps[1]
  return _mk(aid, n, 'cf', {'family': 'cf', 'w1': w1, 'w2': w2, 'bits': n.bit_length()}, p=ps[0], q=ps[1])


def hamming_prime(rng, L, h):
  while True:
    p = (1 << (L - 1)) | 1
    for pos in rng.sample(range(1, L - 1), h - 2):
      p |= 1 << pos
    if gmpy2.is_prime(p):
      return int(p)


def lhw_key(rng, aid, bits, h1, h2):
  L = bits // 2
  p, q = hamming_prime(rng, L, h1), hamming_prime(rng, L, h2)
  return _mk(aid, p * q, 'lhw', {'family': 'lhw', 'h1': bin(p).count('1'), 'h2': bin(q).count('1'), 'bits': (p * q).bit_length()}, p=p, q=q)


_SIEVE = None
_TAIL = None


def _small_primes():
  global _SIEVE
  if _SIEVE is None:
    lim = 1 << 20
    tab = bytearray([1]) * lim
    tab[0] = tab[1] = 0
    for i in range(2, int(lim ** 0.5) + 1):
      if tab[i]:
        tab[i * i::i] = bytearray(len(tab[i * i::i]))
    _SIEVE = [i for i in range(lim) if tab[i]]
  return _SIEVE


def _smooth(rng, minbits):
  global _TAIL
  v = 1
  if _TAIL is None:
    _TAIL = _small_primes()[100:]
  while v.bit_length() < minbits:
    v *= rng.choice(_TAIL)
  return v


def pm1_key(rng, aid, bits, shared_bits, mode):
  """p - 1 and q - 1 share a 2^20-smooth factor of about shared_bits bits; p - 1 fully smooth; q - 1 smooth iff mode == 'both'."""
  L = bits // 2
  s = _smooth(rng, shared_bits)
  def sp(smoothall):
    for _ in range(100000):
      if smoothall:
        r = _smooth(rng, L - s.bit_length() - 2)
        r <<= max(0, L - (2 * s * r).bit_length())
      else:
        r = rng.getrandbits(L - s.bit_length() - 1) | (1 << (L - s.bit_length() - 2))
      p = 2 * s * r + 1
      if p.bit_length() == L and gmpy2.is_prime(p):
        return int(p)
    return None
  p, q = sp(True), sp(mode == 'both')
  if p is None or q is None:
    return None
  g = int(gmpy2.gcd(p - 1, q - 1))
  # smooth part of the gcd over primes < 2^20 (first principles)
  sm = 1
  for pr in _small_primes():
    while g % pr == 0:
      g //= pr
      sm *= pr
    if g == 1:
      break
  return _mk(aid, p * q, 'pm1', {'family': 'pm1', 'shared_log2': sm.bit_length() - 1, 'smooth_p': True, 'smooth_q': mode == 'both',
                                 'bits': (p * q).bit_length()}, p=p, q=q)


def pm1_cover_factors(kind, block):
  """The block of the default Pollard product a pm1cover cell stands for: [(prime, exponent)]."""
  pr = _small_primes()
  if kind == 'tail':
    return [(r, 1) for r in pr[150 + 44 * block:150 + 44 * (block + 1)]]
  out = []
  for r in pr[13 * block:min(150, 13 * (block + 1))]:
    e = 0
    while r ** (e + 1) <= 2 ** 64:
      e += 1
    out.append((r, e))
  return out


def pm1_cover_key(rng, aid, bits, kind, block):
  """p - 1 = 2 g (the block's prime powers) k with k a product of distinct other primes below 2^20; q - 1 = 2 g t, t not smooth."""
  L = bits // 2
  pr = _small_primes()
  factors = pm1_cover_factors(kind, block)
  used = {r for r, _ in factors}
  tail = [r for r in pr[150:] if r not in used]
  g = 1
  while g.bit_length() < 66:
    r = rng.choice(tail)
    if r not in used:
      used.add(r)
      g *= r
  base = g
  for r, e in factors:
    base *= r ** e
  if base % 2:
    base *= 2
  p = None
  for _ in range(20000):
    k, mine = 1, set()
    while (base * k).bit_length() < L - 21:
      r = rng.choice(tail)
      if r not in used and r not in mine:
        mine.add(r)
        k *= r
    rem = L - (base * k).bit_length()
    # last factor: a prime of about rem bits (distinct, below 2^20) or nothing
    cand = [r for r in (rng.choice(pr[1:]) for _ in range(40)) if r not in used and r not in mine and (base * k * r).bit_length() == L]
    for r in cand:
      v = base * k * r + 1
      if gmpy2.is_prime(v):
        p = int(v)
        break
    if p:
      break
  if p is None:
    return None
  q = None
  for _ in range(100000):
    t = rng.getrandbits(L - g.bit_length() - 1) | (1 << (L - g.bit_length() - 2))
    v = 2 * g * t + 1
    if v.bit_length() == L and gmpy2.is_prime(v):
      q = int(v)
      break
  if q is None:
    return None
  gg = int(gmpy2.gcd(p - 1, q - 1))
  sm = 1
  for r in pr:
    while gg % r == 0:
      gg //= r
      sm *= r
    if gg == 1:
      break
  return _mk(aid, p * q, 'pm1', {'family': 'pm1', 'shared_log2': sm.bit_length() - 1, 'smooth_p': True, 'smooth_q': False, 'bits': (p * q).bit_length()},
             p=p, q=q, block=[kind, block])


def lhw_slow_starter(rng, aid, bits=1024, tries=1500):
  """A product of two primes of Hamming weight 24..32 on which the best-first search of CheckLowHammingWeight starts slowly: with
  maxsteps = cutoff = 2500 (both documented parameters) the function does not yet call it weak.  About one key in 300; such keys are
  in the documented family (both weights <= 32) all the same."""
  shim.install()
  from paranoid_crypto.lib import rsa_util
  L = bits // 2
  for _ in range(tries):
    h1, h2 = rng.randint(24, 32), rng.randint(24, 32)
    p, q = hamming_prime(rng, L, h1), hamming_prime(rng, L, h2)
    n = p * q
    try:
      weak_, _ = rsa_util.CheckLowHammingWeight(gmpy2.mpz(n), 2500, 2500)
    except Exception:  # pylint: disable=broad-except
      weak_ = True
    if not weak_:
      return _mk(aid, n, 'lhw', {'family': 'lhw', 'h1': bin(p).count('1'), 'h2': bin(q).count('1'), 'bits': n.bit_length()}, p=p, q=q, slow=True)
  return None


_DEFAULT_M = None


def default_pollard_product():
  """The documented default product of CheckPollardpm1, rebuilt from its description: every prime below 2^20, the first 150 of them
  raised to the largest power not above 2^64."""
  global _DEFAULT_M
  if _DEFAULT_M is None:
    m = gmpy2.mpz(1)
    for i, r in enumerate(_small_primes()):
      e = 1
      if i < 150:
        while r ** (e + 1) <= 2 ** 64:
          e += 1
      m *= r ** e
    _DEFAULT_M = m
  return _DEFAULT_M


def pm1_power_key(rng, aid, bits, kind):
  """The smooth factor shared by p - 1 and q - 1 carries a prime power the default product does not contain (r^3 for a prime r > 863,
  or 2^130): p - 1 still divides (n - 1) * product, because n - 1 is a multiple of the shared factor - the reason the base of the
  method is 2^(n-1)."""
  L = bits // 2
  pr = _small_primes()
  r = rng.choice(pr[200:])
  g = {'r3': 2 ** 40 * r ** 3, 'two130': 2 ** 130, 'r2': 2 ** 50 * r ** 2}[kind]
  tail = [x for x in pr[150:] if x != r]
  p = None
  for _ in range(20000):
    k, mine = 1, set()
    while (g * k).bit_length() < L - 21:
      x = rng.choice(tail)
      if x not in mine:
        mine.add(x)
        k *= x
    for x in (rng.choice(pr[1:150]) for _ in range(40)):
      v = g * k * x + 1
      if v.bit_length() == L and gmpy2.is_prime(v):
        p = int(v)
        break
    if p:
      break
  q = None
  for _ in range(200000):
    t = rng.getrandbits(L - g.bit_length()) | (1 << (L - g.bit_length() - 1)) | 1
    v = g * t + 1
    if v.bit_length() == L and gmpy2.is_prime(v):
      q = int(v)
      break
  if p is None or q is None:
    return None
  n = p * q
  M = default_pollard_product()
  gg = int(gmpy2.gcd(p - 1, q - 1))
  sm = 1
  for x in pr:
    while gg % x == 0:
      gg //= x
      sm *= x
    if gg == 1:
      break
  return _mk(aid, n, 'pm1', {'family': 'pm1', 'shared_log2': sm.bit_length() - 1, 'smooth_p': bool(((n - 1) * M) % (p - 1) == 0),
                             'smooth_q': bool(((n - 1) * M) % (q - 1) == 0), 'bits': n.bit_length()}, p=p, q=q, power_kind=kind)
