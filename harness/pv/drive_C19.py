"""C19 — number-theory, lattice and linear-algebra helpers return only true solutions."""
import copy
import json
import math
import random
from fractions import Fraction

from pv import shim
from pv import tlc


def R(sid, ev, args):
  return {'sid': sid, 'ev': ev, 'args': args, 'obs': {}, 'raised': 'none'}


def call(rec, fn, post):
  try:
    rec['obs'] = post(fn())
  except Exception as e:  # pylint: disable=broad-except
    rec['raised'] = type(e).__name__
  return rec


def small_records(nt, quick, rng):
  recs = []
  K = 9 if quick else 12
  for k in range(1, K + 1):
    ns = range(0, 2 ** k) if (k <= 7 or not quick) else sorted(set(rng.randrange(2 ** k) for _ in range(160)) | {0, 1, 2 ** k - 1, 2 ** k - 7})
    for n in ns:
      recs.append(call(R('inv-%d-%d' % (n, k), 'inv', {'n': n, 'k': k}), lambda: nt.Inverse2exp(n, k),
                       lambda a: {'none': a is None, 'a': int(a) if a is not None else 0}))
      recs.append(call(R('invsqrt-%d-%d' % (n, k), 'invsqrt', {'n': n, 'k': k}), lambda: nt.InverseSqrt2exp(n, k),
                       lambda a: {'none': a is None, 'a': int(a) if a is not None else 0}))
      recs.append(call(R('sqrt-%d-%d' % (n, k), 'sqrt', {'n': n, 'k': k}), lambda: nt.Sqrt2exp(n, k),
                       lambda a: {'roots': [int(x) for x in a]}))
  # operands n >= 2^k (not reduced), still small enough for TLC
  for _ in range(300):
    k = rng.randrange(1, 11)
    n = rng.randrange(2 ** k, 2 ** 20)
    recs.append(call(R('inv-%d-%d' % (n, k), 'inv', {'n': n, 'k': k}), lambda: nt.Inverse2exp(n, k),
                     lambda a: {'none': a is None, 'a': int(a) if a is not None else 0}))
    recs.append(call(R('invsqrt-%d-%d' % (n, k), 'invsqrt', {'n': n, 'k': k}), lambda: nt.InverseSqrt2exp(n, k),
                     lambda a: {'none': a is None, 'a': int(a) if a is not None else 0}))
  lim = 60 if quick else 200
  for a in range(0, lim + 1):
    for b in range(1, (25 if quick else 60) + 1):
      recs.append(call(R('cf-%d-%d' % (a, b), 'cf', {'a': a, 'b': b}), lambda: nt.ContinuedFraction(a, b),
                       lambda t: {'triples': [[int(x) for x in tr] for tr in t]}))
  for _ in range(400):
    a, b = rng.randrange(0, 40000), rng.randrange(1, 40000)
    recs.append(call(R('cf-%d-%d' % (a, b), 'cf', {'a': a, 'b': b}), lambda: nt.ContinuedFraction(a, b),
                     lambda t: {'triples': [[int(x) for x in tr] for tr in t]}))
  lim = 100 if quick else 200
  for a in range(-lim, lim + 1):
    for b in range(1, (26 if quick else 50) + 1):
      recs.append(call(R('divmod-%d-%d' % (a, b), 'divmod', {'a': a, 'b': b}), lambda: nt.DivmodRounded(a, b),
                       lambda qr: {'q': int(qr[0]), 'r': int(qr[1])}))
  for n in list(range(0, 130)) + [169, 170, 289, 290, 300]:
    recs.append(call(R('sieve-%d' % n, 'sieve', {'n': n}), lambda: nt.Sieve(n), lambda ps: {'primes': [int(p) for p in ps]}))
  return recs


def big_records(nt, quick, rng):
  recs = []
  for i in range(150 if quick else 1500):
    k = rng.choice([1, 2, 3, 4, 5, 63, 64, 65, 127, 128, 256, 1000, 1024, 2048, 4096])
    bits = rng.choice([1, 8, 64, 65, 512, 1024, 4096])
    n = rng.getrandbits(bits)
    if rng.random() < 0.6:
      n |= 1
    if rng.random() < 0.5:
      n = (n & ~7) | 1          # 1 mod 8: square
    M = 1 << k
    recs.append(call(R('invbig-%d' % i, 'inv_big', {'k': k, 'nbits': n.bit_length(), 'solvable': n % 2 == 1}),
                     lambda: nt.Inverse2exp(n, k),
                     lambda a: {'none': a is None, 'congruent': a is not None and (a * n - 1) % M == 0}))
    if k < 3:
      solv = any((a * a * n - 1) % M == 0 for a in range(M))
    else:
      solv = n % 8 == 1
    recs.append(call(R('invsqrtbig-%d' % i, 'invsqrt_big', {'k': k, 'nbits': n.bit_length(), 'solvable': solv}),
                     lambda: nt.InverseSqrt2exp(n, k),
                     lambda a: {'none': a is None, 'congruent': a is not None and (a * a * n - 1) % M == 0}))
    if n % 2 == 1 and k >= 3:
      recs.append(call(R('sqrtbig-%d' % i, 'sqrt_big', {'k': k, 'nbits': n.bit_length(), 'solvable': n % 8 == 1}),
                       lambda: nt.Sqrt2exp(n, k),
                       lambda rs: {'none': len(rs) == 0, 'congruent': all((int(x) * int(x) - n) % M == 0 and 0 <= int(x) < M for x in rs),
                                   'distinct': len(set(int(x) % M for x in rs))}))
  return recs


def pavg_records(ls, quick, rng):
  recs = []
  seen = set()
  for n in ([3, 5, 8, 10, 16] if quick else [2, 3, 5, 7, 8, 10, 13, 16]):
    for m in range(1, 6):
      for _ in range(40 if quick else 200):
        a = [rng.randrange(n) for _ in range(m)]
        key = (n, tuple(a))
        if key in seen:
          continue
        seen.add(key)
        recs.append(call(R('pavg-%d-%s' % (n, '.'.join(map(str, a))), 'pavg', {'a': a, 'n': n}),
                         lambda: ls.PseudoAverage(list(a), n), lambda v: {'value': int(v)}))
  return recs


def irwin_records(u, quick):
  recs = []
  for n in range(1, 6):
    den = 4 ** n * math.factorial(n)
    for j in range(-2, 4 * n + 3):
      x = j / 4.0
      recs.append(call(R('irwin-%d-%d' % (n, j), 'irwin', {'n': n, 'j': j}), lambda: u.UniformSumCdf(n, x),
                       lambda p: {'scaled': int(round(p * den)), 'close': abs(p * den - round(p * den)) < 1e-6 * den + 1e-9}))
  return recs


def aux_records(u, ls, quick, rng):
  """Real-valued helpers: an mpmath monitor feeds one boolean per call (T3/aux, not model checking)."""
  import mpmath
  mpmath.mp.dps = 50
  recs = []
  def close(p, ref, rel=1e-7, ab=1e-12):
    ref = float(ref)
    return abs(p - ref) <= max(ab, rel * abs(ref))
  def aux(sid, name, args, fn, ref):
    return call(R(sid, 'aux', dict(args, name=name)), fn, lambda p: {'ok': bool(close(float(p), ref())), 'value': repr(float(p))})
  for i in range(60 if quick else 400):
    a = rng.choice([0.5, 1, 1.5, 2, 3, 7.5, 20, 50])
    x = rng.choice([0.0, 0.1, 1, 2.5, 10, 40, 100]) * rng.random()
    recs.append(aux('igamc-%d' % i, 'Igamc', {'a': a, 'x': round(x, 6)}, lambda: u.Igamc(a, x), lambda: mpmath.gammainc(a, x, mpmath.inf, regularized=True)))
    mean, var, xx = rng.uniform(-5, 5), rng.uniform(0.1, 9), rng.uniform(-12, 12)
    recs.append(aux('normal-%d' % i, 'NormalCdf', {'x': round(xx, 6)}, lambda: u.NormalCdf(xx, mean, var),
                    lambda: mpmath.ncdf(xx, mean, mpmath.sqrt(var))))
    m = rng.choice([1, 2, 5, 10, 33, 100, 1000])       # number of coin tosses
    n = rng.randrange(-1, m + 2)                         # at most n heads
    recs.append(aux('binom-%d' % i, 'BinomialCdf', {'n': n, 'm': m}, lambda: u.BinomialCdf(n, m),
                    lambda: mpmath.fsum(mpmath.binomial(m, j) for j in range(0, min(n, m) + 1)) / mpmath.mpf(2) ** m if n >= 0 else 0))
    k = rng.randrange(2, 7)
    pv = [rng.choice([1.0, 0.5, 0.01, 1e-5, rng.random()]) for _ in range(k)]
    recs.append(aux('fisher-%d' % i, 'CombinedPValue', {'k': k}, lambda: u.CombinedPValue(list(pv)),
                    lambda: mpmath.gammainc(k, -mpmath.fsum(mpmath.log(p) for p in pv), mpmath.inf, regularized=True)))
    nn = rng.randrange(1, 37)
    x = rng.uniform(-1, nn + 1)
    def ih():
      if x <= 0:
        return 0
      if x >= nn:
        return 1
      xf = Fraction(x)
      return float(sum((-1) ** kk * math.comb(nn, kk) * (xf - kk) ** nn for kk in range(0, math.floor(x) + 1)) / math.factorial(nn))
    recs.append(aux('irwinreal-%d' % i, 'UniformSumCdf', {'n': nn, 'x': round(x, 6)}, lambda: u.UniformSumCdf(nn, x), ih))
  # Bias = UniformSumCdf(len, 2 t / n) of the folded residues
  for i in range(30 if quick else 200):
    n = rng.choice([101, 256, 2 ** 32, 2 ** 61 - 1])
    sample = [rng.randrange(n) for _ in range(rng.randrange(1, 20))]
    tr = [(rng.randrange(n), rng.randrange(n)) for _ in range(rng.choice([1, 2]))]
    def ref():
      t = sum(min((a * s + b) % n, n - (a * s + b) % n) for s in sample for a, b in tr)
      return u.UniformSumCdf(len(sample) * len(tr), 2 * t / n)
    recs.append(aux('bias-%d' % i, 'Bias', {'len': len(sample)}, lambda: ls.Bias(list(sample), n, list(tr)), ref))
  return recs


def solve_records(la, systems, tag):
  recs = []
  for i, (a, xplant) in enumerate(systems):
    b = [sum(r * x for r, x in zip(row, xplant)) for row in a]
    rec = R('%s-%06d' % (tag, i), 'solve', {'a': a, 'b': b})
    try:
      res = la.solve_right(copy.deepcopy(a), list(b))
      if res is None:
        rec['obs'] = {'none': True, 'x': []}
      else:
        fr = [Fraction(int(x.numerator), int(x.denominator)) for x in res]
        big = any(abs(f.numerator) >= 2 ** 20 or f.denominator >= 2 ** 20 for f in fr)
        if big:
          rec['ev'] = 'solve_big'
          ok = len(fr) == len(a[0]) and all(sum(c * x for c, x in zip(row, fr)) == bb for row, bb in zip(a, b))
          rec['obs'] = {'none': False, 'satisfies': ok}
        else:
          rec['obs'] = {'none': False, 'x': [[f.numerator, f.denominator] for f in fr]}
    except Exception as e:  # pylint: disable=broad-except
      rec['raised'] = type(e).__name__
    recs.append(rec)
  return recs


def ut_records(la, quick, rng):
  recs = []
  for i in range(150 if quick else 1000):
    m = rng.randrange(1, 6)
    a = [[(rng.randrange(-3, 4) if j >= r else 0) for j in range(m)] for r in range(m)]
    if rng.random() < 0.6:
      for r in range(m):
        if a[r][r] == 0:
          a[r][r] = rng.choice([-2, -1, 1, 3])
    b = [rng.randrange(-5, 6) for _ in range(m)]
    rec = R('ut-%04d' % i, 'utsolve', {'a': a, 'b': b})
    def post(res):
      if res is None:
        return {'none': True, 'x': []}
      return {'none': False, 'x': [[int(x.numerator), int(x.denominator)] for x in res]}
    recs.append(call(rec, lambda: la.upper_triangular_solve(copy.deepcopy(a), list(b)), post))
  return recs


def root_worker(args):
  kind, pct, inst = args
  import hashlib
  import gmpy2
  import sympy
  from pv import art
  shim.install()
  from paranoid_crypto.lib import small_roots
  rng = random.Random(hashlib.sha1(repr(args).encode()).hexdigest())
  PB = 256
  p = art.rand_prime_top2(rng, PB)
  q = art.rand_prime_top2(rng, PB)
  n = p * q
  rec = R('root-%s-%d-%d' % (kind, pct, inst), 'root', {'kind': kind, 'pct': pct, 'pbits': PB})
  try:
    if kind.startswith('uni'):
      ub = PB * pct // 100
      b = 2 ** ub
      x = sympy.Symbol('x')
      if kind == 'uni_high':
        p0 = (p >> ub) << ub
        f = sympy.Poly(p0 + x, modulus=n)
        want = lambda r: p0 + r == p
      elif kind == 'uni_low':
        l = PB - ub
        p0 = p % 2 ** l
        f = sympy.Poly(x * 2 ** l + p0, modulus=n)
        want = lambda r: r * 2 ** l + p0 == p
      else:
        rx = rng.randrange(1, b)
        p0 = p + rx
        f = sympy.Poly(p0 - x, modulus=n)
        want = lambda r: p0 - r == p
      r = small_roots.univariate_modp(f, b)
      rec['obs'] = {'none': r is None, 'is_root': r is not None and bool(want(int(r))), 'in_bound': r is not None and abs(int(r)) <= b}
    elif kind == 'bi_modp':
      u = PB * pct // 100
      b1 = b2 = 2 ** u
      x1, x2 = sympy.symbols('x1, x2')
      known = PB - 2 * u
      lx1 = known + u
      p0 = ((p >> u) % 2 ** known) << u
      f = sympy.Poly(p0 + x1 * 2 ** lx1 + x2, modulus=n)
      roots = small_roots.multivariate_modp(f, [b1, b2])
      ok = roots is not None and p0 + int(roots[0]) * 2 ** lx1 + int(roots[1]) == p
      rec['obs'] = {'none': roots is None, 'is_root': bool(ok), 'in_bound': roots is not None and all(abs(int(r)) <= b1 for r in roots)}
    else:
      u = PB * pct // 100
      b1 = b2 = 2 ** u
      x1, x2 = sympy.symbols('x1, x2')
      p0 = (p >> u) << u
      q0 = (q >> u) << u
      f = sympy.Poly((p0 + x1) * (q0 + x2), modulus=n)
      roots = small_roots.multivariate_modn(f, [b1, b2])
      ok = roots is not None and (p0 + int(roots[0])) * (q0 + int(roots[1])) == n
      rec['obs'] = {'none': roots is None, 'is_root': bool(ok), 'in_bound': roots is not None and all(abs(int(r)) <= b1 for r in roots)}
  except Exception as e:  # pylint: disable=broad-except
    rec['raised'] = type(e).__name__
  return rec


def root_records(quick):
  import multiprocessing as mp
  jobs = []
  for kind in ('uni_high', 'uni_low', 'uni_neg'):
    for pct in (10, 25, 33, 39, 47):
      for inst in range(1 if quick else 4):
        jobs.append((kind, pct, inst))
  for pct in (5, 9, 11, 14):
    for inst in range(1 if quick else 3):
      jobs.append(('bi_modp', pct, inst))
  for pct in (20, 30, 33, 40):
    for inst in range(1 if quick else 3):
      jobs.append(('bi_modn', pct, inst))
  from pv import proc
  return list(proc.imap_unordered(root_worker, jobs, procs=12))


def lll_records(quick, rng):
  """lll.reduce (the wrapper the lattice attacks go through) on small full-rank bases: TLC decides same lattice and shortness."""
  from paranoid_crypto.lib import lll
  recs = []
  mats = []
  import itertools
  # every 2 x 2 basis over -3..3, sampled 3 x 3 bases over -4..4, skewed bases (unimodular images of short ones)
  for v in itertools.product(range(-3, 4), repeat=4):
    mats.append([[v[0], v[1]], [v[2], v[3]]])
  for _ in range(400 if quick else 6000):
    mats.append([[rng.randrange(-4, 5) for _ in range(3)] for _ in range(3)])
  for _ in range(300 if quick else 3000):
    d = rng.choice([2, 3])
    b = [[rng.randrange(-2, 3) for _ in range(d)] for _ in range(d)]
    for _ in range(6):                      # elementary row operations: same lattice, long vectors
      i, j = rng.sample(range(d), 2)
      c = rng.choice([-2, -1, 1, 2])
      b[i] = [x + c * y for x, y in zip(b[i], b[j])]
    if max(abs(x) for row in b for x in row) <= 40:
      mats.append(b)
  def det(m):
    if len(m) == 2:
      return m[0][0] * m[1][1] - m[0][1] * m[1][0]
    return (m[0][0] * (m[1][1] * m[2][2] - m[1][2] * m[2][1]) - m[0][1] * (m[1][0] * m[2][2] - m[1][2] * m[2][0])
            + m[0][2] * (m[1][0] * m[2][1] - m[1][1] * m[2][0]))
  for i, m in enumerate(mats):
    if det(m) == 0:
      continue
    rec = R('lll-%d' % i, 'lll', {'m': m})
    try:
      out = lll.reduce([list(row) for row in m])
      rec['obs'] = {'m': [[int(x) for x in row] for row in out]}
    except Exception as e:  # pylint: disable=broad-except
      rec['raised'] = type(e).__name__
    recs.append(rec)
  return recs


def run(ctx):
  shim.install()
  from paranoid_crypto.lib import ntheory_util as nt, linalg_util as la
  from paranoid_crypto.lib.randomness_tests import lattice_suite as ls, util as u
  ctx.trust('TLC 1.8', 'Python int/Fraction arithmetic for operands beyond 32 bits (events *_big)',
            'mpmath reference for the real-valued helpers (events aux; auxiliary monitor, not model checking)')
  ctx.assume('k = 0 is outside the domain of the 2-adic routines (modulo 1 the documented congruence 1 == a*n % 1 has no solution)')
  ctx.assume('solve_right may return None for any system; only returned vectors are judged (consistent systems with a planted solution)')
  ctx.assume('small-root finders: soundness on every call; the planted root must be found when the unknown part is at most 39 % of the '
             'size of p (univariate, default lattice), 11 % per chunk (two chunks modulo p), 33 % (bivariate modulo n) - catalogue instances')
  rng = ctx.rng
  # 1. model checking
  r = tlc.expect_holds('NTheory', 'MC_NTheory_quick.cfg' if ctx.quick else 'MC_NTheory.cfg', timeout=3600)
  ctx.note_mc(r, 'NTheory: Newton transcriptions vs brute force mod 2^k, CF, rounded division, Irwin-Hall', 'K=%d' % (8 if ctx.quick else 10))
  d9 = tlc.mc('NTheory', 'MC_NTheory_D9.cfg')
  if d9.violated != 'DivRoundPinnedOk':
    raise tlc.MachineryError('the pinned DivmodRounded offset should be refuted by TLC (non-vacuity of DivRoundOk)')
  for c in ['MC_Echelon_small.cfg'] + ([] if ctx.quick else ['MC_Echelon_fixed.cfg']):
    r = tlc.expect_holds('MC_Echelon', c, timeout=3600)
    ctx.note_mc(r, 'Echelon/%s: solve_right transcription, returned vector satisfies the system' % c)
  d4 = tlc.mc('MC_Echelon', 'MC_Echelon_pinned.cfg')
  if d4.violated != 'Sound':
    raise tlc.MachineryError('the pinned row move should be refuted by TLC (non-vacuity of Sound)')
  ctx.notes['design_level_counterexamples'] = ['MC_Echelon_pinned.cfg violates Sound (D4)', 'MC_NTheory_D9.cfg violates DivRoundPinnedOk (D9)']
  # 2. scenarios from TLC: every 3x3 system over -1..1 and every 5x4 system over the unit-like vocabulary
  systems = []
  for cfg, xp, tag in (('GEN_Echelon_3x3.cfg', [2, -3, 5], 'sys3'), ('GEN_Echelon_5x4.cfg', [2, -3, 5, 7], 'sys5')):
    g = tlc.run('MC_Echelon', cfg, workers=1, coverage=False, timeout=3600)
    if g.violated:
      raise tlc.MachineryError('generator %s: %s' % (cfg, g.error_text))
    ctx.note_mc(g, 'MC_Echelon/%s system enumeration' % cfg)
    seen = set()
    ss = []
    for s in g.prints.get('SYS', []):
      key = json.dumps(s['a'])
      if key not in seen:
        seen.add(key)
        ss.append((s['a'], xp))
    if not ss:
      raise tlc.MachineryError('no systems from %s' % cfg)
    if ctx.quick and len(ss) > 25000:
      ss = ss[::2] if ctx.seed % 2 else ss[1::2]
    systems.append((tag, ss))
  recs = []
  for tag, ss in systems:
    recs += solve_records(la, ss, tag)
  # sampled larger shapes up to 8x5, zero rows, duplicated rows
  samp = []
  for _ in range(2000 if ctx.quick else 20000):
    nc = rng.randrange(1, 6)
    nr = rng.randrange(nc, 9)
    rows = [[rng.choice([-2, -1, 0, 0, 0, 1, 2]) for _ in range(nc)] for _ in range(nr)]
    if rng.random() < 0.4:
      rows[rng.randrange(nr)] = [0] * nc
    if rng.random() < 0.3:
      rows[rng.randrange(nr)] = list(rows[rng.randrange(nr)])
    samp.append((rows, [rng.randrange(-9, 10) for _ in range(nc)]))
  recs += solve_records(la, samp, 'samp')
  recs += ut_records(la, ctx.quick, rng)
  recs += lll_records(ctx.quick, rng)
  recs += small_records(nt, ctx.quick, rng)
  recs += big_records(nt, ctx.quick, rng)
  recs += pavg_records(ls, ctx.quick, rng)
  recs += irwin_records(u, ctx.quick)
  recs += aux_records(u, ls, ctx.quick, rng)
  recs += root_records(ctx.quick)
  if ctx.only_sid:
    recs = [x for x in recs if x['sid'] == ctx.only_sid]
  ctx.replayed = len(recs)
  by = {}
  for x in recs:
    by.setdefault(x['sid'], x)
  for x in (recs[0], recs[len(recs) // 2], recs[-1]):
    ctx.sample(x)
  random.Random(5).shuffle(recs)
  c, fails, trs = tlc.validate_trace_parallel('NTheoryTrace', 'NTheoryTrace.cfg', recs, 'C19', jobs=15, timeout=3600, heap='3g')
  ctx.note_mc(trs[0], 'NTheoryTrace (first of %d chunks)' % len(trs))
  ctx.states += sum(t.distinct for t in trs[1:])
  ctx.transitions += sum(t.generated for t in trs[1:])
  ctx.validated = c
  ctx.trace_failures(fails, by, lambda rec, f: {'ev': rec['ev'], 'args': rec['args'], 'obs': rec['obs'], 'raised': rec['raised']})
  ctx.distinct = set(by)
  ctx.notes['aux_records'] = sum(1 for x in recs if x['ev'] == 'aux')


def selftest(ctx):
  shim.install()
  from paranoid_crypto.lib import linalg_util as la
  good = solve_records(la, [([[1, 0], [0, 1], [1, 1]], [2, 3])], 'good')
  bad = json.loads(json.dumps(good[0]))
  bad['sid'] = 'corrupt'
  bad['obs']['x'][0] = [5, 1]
  _, fails, _ = tlc.validate_trace('NTheoryTrace', 'NTheoryTrace.cfg', good + [bad], 'C19self')
  got = [(f['sid'], f['clause']) for f in fails]
  assert got == [('corrupt', 'SolutionSatisfiesSystem')], got
  print('selftest ok', got)
