"""Artifact construction and projection of TestInfo (the abstraction map's plumbing).

Everything here is deliberately independent of paranoid_crypto.lib.util: byte
conversions and parsing of attached_info are re-implemented so that a defect in
the library's own helpers cannot hide itself.
"""
import ast
import random

import gmpy2

from pv import shim


def pb2():
  shim.install()
  from paranoid_crypto import paranoid_pb2
  return paranoid_pb2


def i2b(v):
  v = int(v)
  return v.to_bytes((v.bit_length() + 7) // 8, 'big')


def b2i(b):
  return int.from_bytes(bytes(b), 'big')


def rand_prime(rng, bits, cond=None):
  """Random prime of exactly `bits` bits (top bit set)."""
  while True:
    p = rng.getrandbits(bits) | (1 << (bits - 1)) | 1
    p = int(gmpy2.next_prime(p - 1)) if bits > 16 else p
    if p.bit_length() != bits or not gmpy2.is_prime(p, 30):
      continue
    if cond is None or cond(p):
      return p


def rand_prime_top2(rng, bits):
  """Random prime with the two top bits set (so that p*q has exactly 2*bits bits)."""
  while True:
    p = rng.getrandbits(bits) | (3 << (bits - 2)) | 1
    p = int(gmpy2.next_prime(p - 1))
    if p.bit_length() == bits:
      return p


def rsa_key(n, e=65537):
  k = pb2().RSAKey()
  k.rsa_info.n = i2b(n)
  k.rsa_info.e = i2b(e)
  return k


def ec_key(curve_type, x, y):
  k = pb2().ECKey()
  k.ec_info.curve_type = curve_type
  k.ec_info.x = i2b(x)
  k.ec_info.y = i2b(y)
  return k


def parse_factor_info(value):
  """Parses the string form of a set of hex factors: "{'1f', 'a3'}" -> [int]."""
  try:
    lit = ast.literal_eval(value)
    return sorted(int(h, 16) for h in lit)
  except Exception:  # pylint: disable=broad-except
    return None


def project_test_info(ti):
  """Small, JSON-able projection of a TestInfo protobuf."""
  entries = [{'name': r.test_name, 'result': bool(r.result), 'sev': int(r.severity)}
             for r in ti.test_results]
  infos = {a.info_name: a.value for a in ti.attached_info}
  info_names = [a.info_name for a in ti.attached_info]
  return {'weak': bool(ti.weak), 'entries': entries, 'info_names': info_names,
          'version': ti.paranoid_lib_version, 'infos': infos}


def entry_of(ti, name):
  res = [r for r in ti.test_results if r.test_name == name]
  return res


def lib_version():
  import os
  return open(os.path.join(shim.REPO, 'paranoid_crypto', 'VERSION')).read().strip()
