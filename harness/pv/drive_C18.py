"""C18 — checks are total on well-formed batches (no exception, bool return), incl. empty and degenerate batches."""
from pv import drive_C16
from pv import scen
from pv import tlc

DIRECTED = [
    ('rsa', 'empty-all', {'s1': 'healthy'}, [{'all': True, 'check': 'ALL', 'batch': []}]),
    ('ec', 'empty-all', {'s1': 'healthy'}, [{'all': True, 'check': 'ALL', 'batch': []}]),
    ('ecdsa', 'empty-all', {'s1': 'healthyA'}, [{'all': True, 'check': 'ALL', 'batch': []}]),
    ('ec', 'dup-y0', {'s1': 'y0', 's2': 'copy1', 's3': 'healthy'},
     [{'all': False, 'check': 'CheckECKeySmallDifference', 'batch': ['s1', 's2', 's3']}]),
    ('ec', 'dup-zero', {'s1': 'zero', 's2': 'copy1'}, [{'all': False, 'check': 'CheckECKeySmallDifference', 'batch': ['s1', 's2']}]),
    ('ec', 'dup-p', {'s1': 'coordp', 's2': 'copy1'}, [{'all': True, 'check': 'ALL', 'batch': ['s2', 's1']}]),
    ('ec', 'unreduced-duplicate-y', {'s1': 'healthy', 's2': 'unreducedy1'},
     [{'all': False, 'check': 'CheckECKeySmallDifference', 'batch': ['s1', 's2']}, {'all': False, 'check': 'CheckWeakECPrivateKey', 'batch': ['s2', 's1']}]),
    ('ec', 'unreduced-duplicate', {'s1': 'healthy', 's2': 'unreducedx1', 's3': 'healthy384'},
     [{'all': False, 'check': 'CheckECKeySmallDifference', 'batch': ['s1', 's2', 's3']}, {'all': True, 'check': 'ALL', 'batch': ['s2', 's1']}]),
    ('ec', 'negative-logarithms', {'s1': 'weakprivateneg', 's2': 'weakprivate', 's3': 'weakprivatetop', 's4': 'healthy'},
     [{'all': False, 'check': 'CheckWeakECPrivateKey', 'batch': ['s1', 's4']}, {'all': True, 'check': 'ALL', 'batch': ['s2', 's1', 's3']}]),
    ('ec', 'exact-giant-steps', {'s1': 'weakprivatestep1', 's2': 'weakprivatestep2', 's3': 'healthy', 's4': 'weakprivatestep3', 's5': 'healthy384'},
     [{'all': False, 'check': 'CheckWeakECPrivateKey', 'batch': ['s1']}, {'all': False, 'check': 'CheckWeakECPrivateKey', 'batch': ['s2', 's3']},
      {'all': False, 'check': 'CheckWeakECPrivateKey', 'batch': ['s4', 's5', 's3', 's1']}]),
    ('ec', 'difference-inside-the-older-table', {'s1': 'weakprivate', 's2': 'farA', 's3': 'farB', 's4': 'healthy'},
     [{'all': False, 'check': 'CheckWeakECPrivateKey', 'batch': ['s1']}, {'all': False, 'check': 'CheckECKeySmallDifference', 'batch': ['s2', 's3', 's4']},
      {'all': True, 'check': 'ALL', 'batch': ['s3', 's2']}]),
    ('ec', 'unreduced-zero', {'s1': 'zero', 's2': 'unreduced1'}, [{'all': False, 'check': 'CheckECKeySmallDifference', 'batch': ['s1', 's2']}]),
    ('ecdsa', 'many-honest-one-issuer', {'s1': 'healthy12', 's2': 'healthyA'},
     [{'all': False, 'check': 'CheckNonceGeneralized', 'batch': ['s1']}, {'all': True, 'check': 'ALL', 'batch': ['s2', 's1']}]),
    ('ecdsa', 'full-windows', {'s1': 'healthy24', 's2': 'healthy48', 's3': 'healthy25', 's4': 'healthy23'},
     [{'all': True, 'check': 'ALL', 'batch': ['s1']}, {'all': False, 'check': 'CheckNonceCommonPostfix', 'batch': ['s2', 's3']},
      {'all': False, 'check': 'CheckNonceMSB', 'batch': ['s2', 's4']}, {'all': False, 'check': 'CheckNonceGeneralized', 'batch': ['s3', 's1']}]),
    ('ecdsa', 'five-windows', {'s1': 'healthy120'},
     [{'all': False, 'check': 'CheckNonceCommonPostfix', 'batch': ['s1']}, {'all': False, 'check': 'CheckNonceCommonPrefix', 'batch': ['s1']}]),
    ('rsa', 'size-sweep-1', {'s1': 'bits100', 's2': 'bits127', 's3': 'bits128', 's4': 'bits129', 's5': 'bits255', 's6': 'bits256', 's7': 'bits257',
                             's8': 'bits383', 's9': 'bits384', 's10': 'bits385'},
     [{'all': True, 'check': 'ALL', 'batch': ['s%d' % i for i in range(1, 11)]}]),
    ('rsa', 'size-sweep-2', {'s1': 'bits400', 's2': 'bits447', 's3': 'bits511', 's4': 'bits512', 's5': 'bits513', 's6': 'bits767', 's7': 'bits768',
                             's8': 'bits769', 's9': 'bits1023', 's10': 'bits1025'},
     [{'all': True, 'check': 'ALL', 'batch': ['s%d' % i for i in range(10, 0, -1)]}]),
    ('rsa', 'every-degenerate', {'s1': 'prime', 's2': 'even', 's3': 'square', 's4': 'pow2'}, [{'all': True, 'check': 'ALL', 'batch': ['s1', 's2', 's3', 's4']}]),
    ('rsa', 'keypair-table-prefix', {'s1': 'kptab2047', 's2': 'kptab2048', 's3': 'kptab1025', 's4': 'kptab65', 's5': 'kptab64', 's6': 'kptab3071'},
     [{'all': False, 'check': 'CheckKeypairDenylist', 'batch': ['s1', 's2', 's3', 's4', 's5', 's6']}, {'all': True, 'check': 'ALL', 'batch': ['s2', 's1']}]),
    # every residue of the size modulo 16 (the generator draws whole bytes: most even sizes are unreachable too)
    ('rsa', 'keypair-table-prefix-mod16', {'s%d' % (i + 1): 'kptab%d' % b for i, b in enumerate([2050, 2052, 2054, 2056, 2058, 2060, 2062, 2064, 70, 72, 1030])},
     [{'all': False, 'check': 'CheckKeypairDenylist', 'batch': ['s%d' % i for i in range(1, 12)]}, {'all': True, 'check': 'ALL', 'batch': ['s3', 's10']}]),
    ('rsa', 'tiny', {'s1': 'bits64', 's2': 'bits65', 's3': 'oddlen', 's4': 'empty_e'}, [{'all': True, 'check': 'ALL', 'batch': ['s4', 's3', 's2', 's1']}]),
]


def run(ctx):
  ctx.trust('TLC 1.8', 'pv.checks.record_call (exception class and type(ret) are the projections that matter here)')
  ctx.assume('well-formed = the vocabulary of the property: moduli >= 64 bits, any exponent bytes, any curve identifier, any coordinates, '
             'r and s in [1, n-1], any hash length, any issuer key')
  drive_C16.model_check(ctx)
  q = ctx.quick
  plans = [('rsa', 'GEN_Checks_rsadeg.cfg', 8 if q else 150, 3), ('ec', 'GEN_Checks_ecdeg.cfg', 8 if q else 150, 3),
           ('ecdsa', 'GEN_Checks_ecdsadeg.cfg', 6 if q else 60, 3)]
  saved = drive_C16.DIRECTED
  drive_C16.DIRECTED = DIRECTED
  try:
    drive_C16.replay_and_validate(ctx, plans, 'C18', pre_annotate=False)
  finally:
    drive_C16.DIRECTED = saved


def selftest(ctx):
  drive_C16.selftest(ctx)
