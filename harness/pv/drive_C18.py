"""C18 — checks are total on well-formed batches (no exception, bool return), incl. empty and degenerate batches."""
from pv import drive_C16
from pv import scen
from pv import tlc

DIRECTED = [
    ('rsa', 'empty-all', {'s1': 'healthy'}, [{'all': True, 'check': 'ALL', 'batch': []}]),
    ('ec', 'empty-all', {'s1': 'healthy'}, [{'all': True, 'check': 'ALL', 'batch': []}]),
    ('ecdsa', 'empty-all', {'s1': 'healthyA'}, [{'all': True, 'check': 'ALL', 'batch': []}]),
    ('ec', 'dup-y0', {'s1': 'y0', 's2': 'copy1', 's3': 'healthy'},
     [{'all': False, 'check': 'CheckECKeySmallDifference', 'batch': ['s1', 's2', 's3']}]),
    ('ec', 'dup-zero', {'s1': 'zero', 's2': 'copy1'}, [{'all': False, 'check': 'CheckECKeySmallDifference', 'batch': ['s1', 's2']}]),
    ('ec', 'dup-p', {'s1': 'coordp', 's2': 'copy1'}, [{'all': True, 'check': 'ALL', 'batch': ['s2', 's1']}]),
    ('rsa', 'every-degenerate', {'s1': 'prime', 's2': 'even', 's3': 'square', 's4': 'pow2'}, [{'all': True, 'check': 'ALL', 'batch': ['s1', 's2', 's3', 's4']}]),
    ('rsa', 'tiny', {'s1': 'bits64', 's2': 'bits65', 's3': 'oddlen', 's4': 'empty_e'}, [{'all': True, 'check': 'ALL', 'batch': ['s4', 's3', 's2', 's1']}]),
]


def run(ctx):
  ctx.trust('TLC 1.8', 'pv.checks.record_call (exception class and type(ret) are the projections that matter here)')
  ctx.assume('well-formed = the vocabulary of the property: moduli >= 64 bits, any exponent bytes, any curve identifier, any coordinates, '
             'r and s in [1, n-1], any hash length, any issuer key')
  drive_C16.model_check(ctx)
  q = ctx.quick
  plans = [('rsa', 'GEN_Checks_rsadeg.cfg', 8 if q else 150, 3), ('ec', 'GEN_Checks_ecdeg.cfg', 8 if q else 150, 3),
           ('ecdsa', 'GEN_Checks_ecdsadeg.cfg', 6 if q else 60, 3)]
  saved = drive_C16.DIRECTED
  drive_C16.DIRECTED = DIRECTED
  try:
    drive_C16.replay_and_validate(ctx, plans, 'C18', pre_annotate=False)
  finally:
    drive_C16.DIRECTED = saved


def selftest(ctx):
  drive_C16.selftest(ctx)
