"""Recording of check calls as transitions (before / after projected TestInfo) for ChecksTrace.tla.

The projection is the abstraction map of C01/C02/C16: it parses attached_info with its
own parser, verifies every recorded factor by one division and every recorded discrete
logarithm by the reference multiplication (refec.py).
"""
import ast
import re

from pv import art
from pv import refec
from pv import shim

REL = re.compile(r'^key - \(([0-9a-f]+), ([0-9a-f]+)\) = (-?\d+) \* G$')


class Art:
  """A real artifact plus what the harness knows about it."""

  def __init__(self, aid, kind, proto, cls, **meta):
    self.aid = aid
    self.kind = kind          # rsa | ec | ecdsa
    self.proto = proto
    self.cls = cls            # class tag (how it was constructed)
    self.meta = meta          # n, curve, point, d, issuer..., crit overrides
    self.factor_ids = {}      # factor value -> small id (per artifact, stable over the behaviour)

  def fid(self, v):
    """Small id of a recorded factor, stable across processes (evidence is compared between runs in C17)."""
    import hashlib
    return int(hashlib.sha1(repr((v[0], int(v[1]))).encode()).hexdigest()[:7], 16) + 1


_curves = None


def curve_of(curve_type):
  global _curves
  shim.install()
  from paranoid_crypto.lib import ec_util
  if _curves is None:
    _curves = {}
    for ct, c in ec_util.CURVE_FACTORY.items():
      _curves[ct] = refec.ref_of(c) if c is not None else None
  return _curves.get(curve_type)


def has_params(a):
  if a.kind == 'rsa':
    return True
  info = a.proto.ec_info if a.kind == 'ec' else a.proto.issuer_key_info
  return curve_of(info.curve_type) is not None


def project(a, batch_moduli=()):
  """TestInfo of artifact a -> the TI record of ChecksTrace.tla."""
  ti = a.proto.test_info
  entries = [{'name': r.test_name, 'result': bool(r.result), 'sev': int(r.severity)} for r in ti.test_results]
  out = {'weak': bool(ti.weak), 'version': ti.paranoid_lib_version, 'entries': entries,
         'nf': [], 'nm1': [], 'facts': [], 'dlog': 'none', 'diff': 'none', 'nf_is_pq': False,
         'info_names': [x.info_name for x in ti.attached_info]}
  for info in ti.attached_info:
    if info.info_name in ('N_FACTORS', 'N-1_FACTORS'):
      field = 'nf' if info.info_name == 'N_FACTORS' else 'nm1'
      fl = art.parse_factor_info(info.value)
      n = a.meta.get('n')
      if fl is None or n is None:
        out['facts'].append({'field': field, 'id': 0, 'divides': False, 'proper': False})
        out[field].append(0)
        continue
      if field == 'nf' and a.meta.get('p') and a.meta.get('q'):
        out['nf_is_pq'] = set(fl) == {a.meta['p'], a.meta['q']}
      elif field == 'nf' and len(fl) == 2 and a.meta.get('primes_unknown'):
        # the harness does not own the primes (fixture modulus): both primes are recorded iff the two values are primes with product n
        import gmpy2 as _g
        out['nf_is_pq'] = bool(fl[0] * fl[1] == n and _g.is_prime(fl[0]) and _g.is_prime(fl[1]))
      for f in fl:
        i = a.fid((field, f))
        target = n if field == 'nf' else n - 1
        div = f > 0 and target % f == 0
        out[field].append(i)
        out['facts'].append({'field': field, 'id': i, 'divides': bool(div), 'proper': bool(div and 1 < f < target)})
    elif info.info_name == 'DISCRETE_LOG':
      # the claim is made for keys that are valid points of their named curve (C02); others are outside it
      out['dlog'] = ('ok' if _dlog_ok(a, info.value) else 'bad') if _valid_point(a) else 'skip'
    elif info.info_name == 'DISCRETE_LOG_DIFF':
      out['diff'] = ('ok' if _diff_ok(a, info.value) else 'bad') if _valid_point(a) else 'skip'
  return out


def _point_and_curve(a):
  info = a.proto.ec_info if a.kind == 'ec' else a.proto.issuer_key_info
  rc = curve_of(info.curve_type)
  return rc, (art.b2i(info.x), art.b2i(info.y))


def _valid_point(a):
  rc, pt = _point_and_curve(a)
  return rc is not None and 0 <= pt[0] < rc.p and 0 <= pt[1] < rc.p and rc.on_curve(pt)


def _dlog_ok(a, value):
  try:
    d = int(value, 16)
  except ValueError:
    return False
  rc, pt = _point_and_curve(a)
  if rc is None:
    return False
  return rc.mul(d % rc.n, rc.g) == (pt[0] % rc.p, pt[1] % rc.p) and rc.on_curve(pt)


def _diff_ok(a, value):
  m = REL.match(value)
  rc, pt = _point_and_curve(a)
  if not m or rc is None:
    return False
  q = (int(m.group(1), 16), int(m.group(2), 16))
  k = int(m.group(3))
  if not rc.on_curve(q) or not rc.on_curve(pt):
    return False
  return rc.add(pt, rc.neg(q)) == rc.mul(k % rc.n, rc.g)


def divides_other(a, arts):
  n = a.meta.get('n')
  if not n:
    return False
  return any(o is not a and o.meta.get('n') and o.meta['n'] != n and o.meta['n'] % n == 0 for o in arts)


class CallDidNotReturn(Exception):
  """A library call exceeded VERIF_CALL_TIMEOUT seconds (default 1500; the slowest legitimate call takes about a minute)."""


def _with_deadline(fn):
  import os
  import signal
  import threading
  limit = int(os.environ.get('VERIF_CALL_TIMEOUT', '1500'))
  if threading.current_thread() is not threading.main_thread() or limit <= 0:
    return fn()
  def on_alarm(signum, frame):
    raise CallDidNotReturn('no return after %d s' % limit)
  old = signal.signal(signal.SIGALRM, on_alarm)
  signal.alarm(limit)
  try:
    return fn()
  finally:
    signal.alarm(0)
    signal.signal(signal.SIGALRM, old)


def record_call(sid, kind, arts, fn, checks=None, crit=None, libversion=None, extra=None):
  """Runs fn() (a check call on [a.proto for a in arts]) and returns the transition record.

  crit: dict aid -> dict check -> 'must'|'mustnot'|'may' for THIS call (joint verdicts depend on the batch).
  """
  uniq = []
  for a in arts:
    if a not in uniq:
      uniq.append(a)
  before = {a.aid: project(a) for a in uniq}
  rec = {'sid': sid, 'ev': 'call', 'kind': kind, 'all': checks is None, 'checks': list(checks or []),
         'libversion': libversion or art.lib_version(), 'raised': 'none', 'ret': False, 'ret_is_bool': False, 'arts': []}
  if extra:
    rec.update(extra)
  try:
    ret = _with_deadline(fn)
    rec['ret'] = bool(ret)
    rec['ret_is_bool'] = isinstance(ret, bool)
  except Exception as e:  # pylint: disable=broad-except
    rec['raised'] = type(e).__name__
    rec['raised_msg'] = str(e)[:200]
  for a in uniq:
    c = (crit or {}).get(a.aid, {})
    rec['arts'].append({'id': a.aid, 'cls': a.cls, 'has_params': has_params(a), 'crit': c,
                        'attrs': a.meta.get('attrs') or {'family': 'none'},
                        'issuer_sev': int(a.meta.get('issuer_sev', 0)),
                        'divides_other': divides_other(a, uniq),
                        'before': before[a.aid], 'after': project(a)})
  return rec
