"""C12 — NIST SP 800-22 statistics and p-values are computed as specified."""
import collections
import json
import math
import multiprocessing as mp
import random
import traceback
from fractions import Fraction

from pv import shim
from pv import tlc

TESTS_WITH_REF = ('Frequency', 'BlockFrequency', 'Runs', 'LongestRuns', 'Serial', 'ApproximateEntropy', 'RandomWalk', 'NonOverlappingTemplateMatching',
                  'LinearComplexityScatter', 'LinearComplexity', 'BinaryMatrixRank', 'Spectral', 'OverlappingTemplateMatching', 'Universal', 'LargeBinaryMatrixRank')


def bits_of(v, n):
  return [(v >> i) & 1 for i in range(n)]


def val(bits):
  return sum(b << i for i, b in enumerate(bits))


# ------------------------------------------------------------------ reference (auxiliary monitor, mpmath)

def _mp():
  import mpmath
  mpmath.mp.dps = 30
  return mpmath


def igamc(a, x):
  m = _mp()
  return float(m.gammainc(a, x, m.inf, regularized=True)) if x > 0 else 1.0


def erfc(x):
  return float(_mp().erfc(x))


def split(b, m):
  return [b[i * m:(i + 1) * m] for i in range(len(b) // m)]


def longest(x):
  best = cur = 0
  for v in x:
    cur = cur + 1 if v else 0
    best = max(best, cur)
  return best


_TABLES = {}
NIST_LONGEST_RUN_TABLES = {8: [0.2148, 0.3672, 0.2305, 0.1875], 128: [0.1174, 0.2430, 0.2493, 0.1752, 0.1027, 0.1124],
                           10000: [0.0882, 0.2092, 0.2483, 0.1933, 0.1208, 0.0675, 0.0727]}


def longest_run_table(M, lo, hi):
  """Exact distribution of the longest run of ones in an M-bit block, binned to lo..hi (<= lo, ..., >= hi), by DP."""
  key = (M, lo, hi)
  if key in _TABLES:
    return _TABLES[key]
  def count_le(k):
    # number of M-bit strings whose longest run of ones is <= k
    a = [0] * (M + 1)
    for i in range(M + 1):
      if i <= k:
        a[i] = 2 ** i
      else:
        a[i] = sum(a[i - j - 1] for j in range(0, k + 1))
    return a[M]
  tot = 2 ** M
  cum = {k: count_le(k) for k in range(lo - 1, hi)}
  probs = []
  for v in range(lo, hi + 1):
    if v == lo:
      c = cum[lo]
    elif v == hi:
      c = tot - cum[hi - 1]
    else:
      c = cum[v] - cum[v - 1]
    probs.append(Fraction(c, tot))
  _TABLES[key] = probs
  return probs


def _bm(seq):
  """Textbook Berlekamp-Massey over GF(2) on integers (bit i of x = element i)."""
  nbits = len(seq)
  x = 0
  for i, bit in enumerate(seq):
    x |= bit << i
  c, bb, L, m = 1, 1, 0, -1
  for i in range(nbits):
    d = 0                                   # discrepancy sum_j c_j s_{i-j}
    for j in range(L + 1):
      if (c >> j) & 1 and i - j >= 0 and (x >> (i - j)) & 1:
        d ^= 1
    if d:
      tc = c
      c ^= bb << (i - m)
      if 2 * L <= i:
        L, m, bb = i + 1 - L, i, tc
  return L


# SP 800-22 2.9.7: smallest n for each block length L
UNIVERSAL_MIN_N = {6: 387840, 7: 904960, 8: 2068480, 9: 4654080, 10: 10342400, 11: 22753280, 12: 49643520, 13: 107560960, 14: 231669760,
                   15: 496435200, 16: 1059061760}


def _gf2_rank(rows):
  rows = list(rows)
  rank = 0
  while rows:
    piv = rows.pop()
    if piv:
      rank += 1
      low = piv & -piv
      rows = [x ^ piv if x & low else x for x in rows]
  return rank


def _rank_sf(k):
  """P(rank deficiency >= k) of a large random square binary matrix: sum_{j >= k} 2^(-j^2) prod_{i > j} (1 - 2^-i) / prod_{i <= j} (1 - 2^-i)."""
  mpm = _mp()
  inf = mpm.nprod(lambda i: 1 - mpm.mpf(2) ** (-i), [1, mpm.inf])
  tot = mpm.mpf(0)
  for j in range(k, k + 40):
    head = mpm.nprod(lambda i: 1 - mpm.mpf(2) ** (-i), [1, j]) if j else mpm.mpf(1)
    tot += mpm.mpf(2) ** (-j * j) * (inf / head) / head
  return tot if k else mpm.mpf(1)


_OPI = {}


def _overlapping_pi(M, m, K):
  """P(number of (overlapping) all-ones windows of length m in M random bits = 0..K-1, >= K), exact."""
  if (M, m, K) not in _OPI:
    # state: (current run of ones capped at m, count capped at K) -> number of strings
    cur = {(0, 0): 1}
    for _ in range(M):
      nxt = collections.defaultdict(int)
      for (run, cnt), ways in cur.items():
        nxt[(0, cnt)] += ways
        r2 = min(m, run + 1)
        nxt[(r2, min(K, cnt + 1) if r2 == m else cnt)] += ways
      cur = nxt
    tot = [0] * (K + 1)
    for (run, cnt), ways in cur.items():
      tot[cnt] += ways
    _OPI[(M, m, K)] = [Fraction(t, 2 ** M) for t in tot]
  return _OPI[(M, m, K)]


def ref_pvalues(test, b, par=None):
  """Reference p-values from straight-line transcriptions of SP 800-22 (with the documented deviations); returns dict name->p or None."""
  n = len(b)
  if test == 'Frequency':
    S = 2 * sum(b) - n
    return {'result': erfc(abs(S) / math.sqrt(n) / math.sqrt(2))}
  if test == 'BlockFrequency':
    m = 16
    while n // m >= 100:
      m *= 2
    m = max(20, m)
    bl = split(b, m)
    chi = 4 * m * sum((Fraction(sum(x), m) - Fraction(1, 2)) ** 2 for x in bl)
    return {'result': igamc(len(bl) / 2, float(chi) / 2)}
  if test == 'Runs':
    pi = sum(b) / n
    if abs(pi - 0.5) >= 2 / math.sqrt(n):
      return None            # frequency pre-test of SP 800-22 fails: the test is not applicable
    V = 1 + sum(b[i] != b[i + 1] for i in range(n - 1))
    return {'result': erfc(abs(V - 2 * n * pi * (1 - pi)) / (2 * math.sqrt(2 * n) * pi * (1 - pi)))}
  if test == 'LongestRuns':
    if n >= 750000:
      M, lo, hi = 10000, 10, 16
    elif n >= 6272:
      M, lo, hi = 128, 4, 9
    else:
      M, lo, hi = 8, 1, 4
    pi = NIST_LONGEST_RUN_TABLES[M]       # the constants printed in SP 800-22 section 3.4
    bl = split(b, M)
    v = [0] * (hi - lo + 1)
    for x in bl:
      v[min(max(longest(x), lo), hi) - lo] += 1
    N = len(bl)
    chi = sum((v[i] - N * pi[i]) ** 2 / (N * pi[i]) for i in range(len(pi)))
    return {'result': igamc((hi - lo) / 2, chi / 2)}
  if test == 'Serial':
    m_max = par
    def psi(m):
      if m <= 0:
        return 0.0
      c = collections.Counter(tuple(b[(i + j) % n] for j in range(m)) for i in range(n))
      return (2 ** m / n) * sum(v * v for v in c.values()) - n
    out = {}
    for m in range(2, m_max + 1):
      d = psi(m) - psi(m - 1)
      d2 = psi(m) - 2 * psi(m - 1) + psi(m - 2)
      out['m=%d p-value1' % m] = igamc(2 ** (m - 2), d / 2)
      out['m=%d p-value2' % m] = igamc(2 ** (m - 3), d2 / 2)
    return out
  if test == 'ApproximateEntropy':
    m_max = par
    def phi(m):
      c = collections.Counter(tuple(b[(i + j) % n] for j in range(m)) for i in range(n))
      return sum(v / n * math.log(v / n) for v in c.values())
    return {'m=%d' % m: igamc(2 ** (m - 1), (2 * n * (math.log(2) - (phi(m) - phi(m + 1)))) / 2) for m in range(2, m_max + 1)}
  if test == 'BinaryMatrixRank':
    # SP 800-22 2.5 with the documented deviation: the exact rank distribution instead of the asymptotic constants
    r_, c_, k_ = par if isinstance(par, (list, tuple)) else (32, 32, 3)
    if r_ > c_ or n < r_ * c_:
      return None
    rows = [val(b[i * c_:(i + 1) * c_]) for i in range(n // c_)]
    N = len(rows) // r_
    v = [0] * (k_ + 1)
    for i in range(N):
      v[min(k_, r_ - _gf2_rank(rows[i * r_:(i + 1) * r_]))] += 1
    def rank_prob(rho):
      pr = Fraction(1)
      for i in range(rho):
        pr *= Fraction((2 ** r_ - 2 ** i) * (2 ** c_ - 2 ** i), (2 ** rho - 2 ** i))
      return pr / 2 ** (r_ * c_)
    pi = [rank_prob(r_ - j) for j in range(k_)]
    pi.append(1 - sum(pi))
    if any(x <= 0 for x in pi):
      return None
    chi = sum((v[i] - N * pi[i]) ** 2 / (N * pi[i]) for i in range(k_ + 1))
    return {'result': igamc(k_ / 2, float(chi) / 2)}
  if test == 'LargeBinaryMatrixRank':
    # one matrix per size 64, 128, ..: p = P(rank deficiency >= observed) for a random square matrix (asymptotic distribution)
    if n > 2 ** 21:
      return None
    out, size = {}, 64
    while size * size <= n:
      rows = [val(b[i * size:(i + 1) * size]) for i in range(size)]
      out['%d * %d' % (size, size)] = float(_rank_sf(size - _gf2_rank(rows)))
      size *= 2
    return out
  if test == 'Spectral':
    # SP 800-22 2.6: T = sqrt(ln(1/0.05) n), N0 = 0.95 n/2, N1 = #{|DFT_j| < T, j < n/2}, d = (N1 - N0) / sqrt(n 0.95 0.05 / 4)
    import numpy
    if n < 2 or n > 2 ** 21:
      return None
    x = numpy.array([2 * t - 1 for t in b], dtype=float)
    mags = numpy.abs(numpy.fft.fft(x))[:n // 2]
    T = math.sqrt(math.log(1 / 0.05) * n)
    lo, hi = int(numpy.count_nonzero(mags < T * (1 - 1e-9))), int(numpy.count_nonzero(mags < T * (1 + 1e-9)))
    out = []
    for n1 in range(lo, hi + 1):
      d = (n1 - 0.95 * (n // 2)) / math.sqrt(n * 0.95 * 0.05 / 4)
      out.append(erfc(abs(d) / math.sqrt(2)))
    return {'result': out}         # a magnitude within rounding of the threshold may fall on either side
  if test == 'OverlappingTemplateMatching':
    # SP 800-22 2.8 with the documented deviation: exact class probabilities (here by dynamic programming over run length x count)
    m_, M = par if isinstance(par, (list, tuple)) else (9, 2 ** 10 + 8)
    N = n // M
    if N < 1 or M < m_:
      return None
    K = 5
    v = [0] * (K + 1)
    for i in range(N):
      blk = b[i * M:(i + 1) * M]
      cnt = sum(1 for j in range(M - m_ + 1) if all(blk[j:j + m_]))
      v[min(K, cnt)] += 1
    pi = _overlapping_pi(M, m_, K)
    chi = sum((v[i] - N * pi[i]) ** 2 / (N * pi[i]) for i in range(K + 1))
    return {'result': igamc(K / 2, float(chi) / 2)}
  if test == 'Universal':
    # SP 800-22 2.9 (table of expected value / variance per block length L, Q = 10 2^L initialisation blocks)
    tab = {6: (5.2177052, 2.954), 7: (6.1962507, 3.125), 8: (7.1836656, 3.238), 9: (8.1764248, 3.311), 10: (9.1723243, 3.356)}
    Ls = [L for L, mn in UNIVERSAL_MIN_N.items() if n >= mn]
    if not Ls or max(Ls) not in tab:
      return None
    L = max(Ls)
    mu, var = tab[L]
    Q = 10 * 2 ** L
    blocks = [val(b[i * L:(i + 1) * L]) for i in range(n // L)]
    K = len(blocks) - Q
    last = {}
    for i in range(Q):
      last[blocks[i]] = i
    tot = 0.0
    for i in range(Q, Q + K):
      tot += math.log2(i - last.get(blocks[i], -1))
      last[blocks[i]] = i
    fn = tot / K
    c = 0.7 - 0.8 / L + (4 + 32 / L) * K ** (-3 / L) / 15
    sigma = c * math.sqrt(var / K)
    return {'result': erfc(abs(fn - mu) / (math.sqrt(2) * sigma))}
  if test == 'NonOverlappingTemplateMatching':
    # SP 800-22 2.7: eight blocks, W_j = occurrences of the template in block j, mu = (M - m + 1) / 2^m,
    # sigma^2 = M (1/2^m - (2m - 1) / 2^2m), chi^2 = sum (W_j - mu)^2 / sigma^2, p = igamc(N / 2, chi^2 / 2)
    N = 8
    M = n // N
    if M < 4 or n > 300000:
      return None
    m_ = 2 if M < 64 else 3 if M < 256 else 4 if M < 1024 else 5 if M < 2048 else 6 if M < 4096 else 7 if M < 8192 else 8 if M < 16384 else 9 if M < 32768 else 10
    def aperiodic(t):
      return all((t >> (m_ - i)) != (t & ((1 << i) - 1)) for i in range(1, m_))
    cnts = []
    for j in range(N):
      blk = b[j * M:(j + 1) * M]
      c_ = collections.Counter()
      w = 0
      for i, bit in enumerate(blk):          # window value: earlier element = less significant bit (util.FrequencyCount)
        w = (w >> 1) | (bit << (m_ - 1))
        if i >= m_ - 1:
          c_[w] += 1
      cnts.append(c_)
    mu = (M - m_ + 1) / 2 ** m_
    var = M * (1 / 2 ** m_ - (2 * m_ - 1) / 2 ** (2 * m_))
    out = {}
    for t in range(2 ** m_):
      if aperiodic(t):
        chi = sum((c_[t] - mu) ** 2 / var for c_ in cnts)
        out["template '%s'" % format(t, '0%db' % m_)] = igamc(N / 2, chi / 2)
    return out
  if test == 'LinearComplexity':
    # SP 800-22 3.10 with the exact seven-class distribution, plus the documented "extreme values" p-value: the probability of
    # needing q or more coin tosses for N heads, q = sum of -log2 P(linear complexity of the block), P from the exact census
    M = par
    N = n // M
    if M < 10 or M * 200 > n or N * M * M > 6 * 10 ** 7:
      return None
    Ls = [_bm(b[k * M:(k + 1) * M]) for k in range(N)]
    med = (M + 1) // 2
    pi = [Fraction(1, 96), Fraction(1, 32), Fraction(1, 8), Fraction(1, 2), Fraction(1, 4), Fraction(1, 16), Fraction(1, 48)]
    if M % 2:
      pi = pi[::-1]
    v = [0] * 7
    for L in Ls:
      v[0 if L <= med - 3 else 6 if L >= med + 3 else L - med + 3] += 1
    chi = sum((v[i] - N * pi[i]) ** 2 / (N * pi[i]) for i in range(7))
    q = 0
    for L in Ls:
      cnt = 1 if L == 0 else (2 * 4 ** (L - 1) if L <= M // 2 else 4 ** (M - L))        # census of BerlekampMassey.tla (CensusOk)
      q += M - (cnt.bit_length() - 1)
    mpm = _mp()
    tosses = q - 1
    p2 = mpm.fsum(mpm.binomial(tosses, j) for j in range(0, min(N - 1, tosses) + 1)) / mpm.mpf(2) ** tosses
    return {'distribution': igamc(3, float(chi) / 2), 'extreme values': float(p2)}
  if test == 'LinearComplexityScatter':
    step = par
    if isinstance(par, (list, tuple)):        # (step, max_block_size): only the first step * max_block_size bits are tested
      step = par[0]
      b = b[:step * par[1]]
    def bm(seq):
      # textbook Berlekamp-Massey over GF(2) on a list of bits
      nbits = len(seq)
      c, bb = [0] * (nbits + 1), [0] * (nbits + 1)
      c[0] = bb[0] = 1
      L, m = 0, -1
      for i in range(nbits):
        d = seq[i]
        for j in range(1, L + 1):
          d ^= c[j] & seq[i - j]
        if d:
          t = c[:]
          for j in range(nbits - i + m):
            if bb[j]:
              c[j + i - m] ^= 1
          if 2 * L <= i:
            L, m, bb = i + 1 - L, i, t
      return L
    logp = 0
    for i in range(step):
      seq = b[i::step]
      size = len(seq)
      L = bm(seq)
      lp = -size if L == 0 else (2 * L - size - 1 if L <= size // 2 else size - 2 * L)
      logp -= lp
    mpm = _mp()
    tosses = logp - 1
    if tosses < 0:
      return None
    pv = mpm.fsum(mpm.binomial(tosses, j) for j in range(0, min(step - 1, tosses) + 1)) / mpm.mpf(2) ** tosses
    return {'result': float(pv)}
  if test == 'RandomWalk':
    mpm = _mp()
    def Phi(x):
      return float(mpm.ncdf(x))
    def cusum_p(z):
      if z == 0:
        return None
      s1 = sum(Phi((4 * k + 1) * z / math.sqrt(n)) - Phi((4 * k - 1) * z / math.sqrt(n))
               for k in range(math.ceil((-n / z + 1) / 4), math.floor((n / z - 1) / 4) + 1))   # k = (-n/z+1)/4 .. (n/z-1)/4: integers in the interval
      s2 = sum(Phi((4 * k + 3) * z / math.sqrt(n)) - Phi((4 * k + 1) * z / math.sqrt(n))
               for k in range(math.ceil((-n / z - 3) / 4), math.floor((n / z - 1) / 4) + 1))
      return 1 - s1 + s2
    S = [0]
    for v in b:
      S.append(S[-1] + (1 if v else -1))
    out = {'cumulative sums forward': cusum_p(max(abs(x) for x in S)), 'cumulative sums reverse': cusum_p(max(abs(S[n] - S[j]) for j in range(n + 1)))}
    cycles, cur = [], collections.Counter()
    for x in S[1:]:
      if x == 0:
        cycles.append(cur)
        cur = collections.Counter()
      else:
        cur[x] += 1
    cycles.append(cur)
    J = len(cycles)
    ms, mc, mv = par if isinstance(par, (list, tuple)) else (4, 5, 9)     # SP 800-22: states -4..4, counts 0..5, variant states -9..9
    if J >= 500:
      for x in list(range(-ms, 0)) + list(range(1, ms + 1)):
        v = [0] * (mc + 1)
        for c in cycles:
          v[min(mc, c[x])] += 1
        t = 1 / (2 * abs(x))
        pi = [1 - t] + [t * t * (1 - t) ** (k - 1) for k in range(1, mc)] + [t * (1 - t) ** (mc - 1)]
        chi = sum((v[k] - J * pi[k]) ** 2 / (J * pi[k]) for k in range(mc + 1))
        out['random excursions %d' % x] = igamc(mc / 2, chi / 2)
      tot = collections.Counter()
      for c in cycles:
        tot.update(c)
      for x in list(range(-mv, 0)) + list(range(1, mv + 1)):
        out['random excursions variant %d' % x] = erfc(abs(tot[x] - J) / math.sqrt(2 * J * (4 * abs(x) - 2)))
    return out
  return None


def int_stats(test, b):
  """Integer statistics from the definitions (certified by TLC against NistStats.tla when the string is in the record)."""
  n = len(b)
  if test == 'Frequency':
    return {'S': 2 * sum(b) - n}
  if test == 'Runs':
    return {'V': (1 + sum(b[i] != b[i + 1] for i in range(n - 1))) if n else 0, 'ones': sum(b)}
  if test == 'BlockFrequency':
    m = 16
    while n // m >= 100:
      m *= 2
    m = max(20, m)
    return {'m': m, 'block_ones': [sum(x) for x in split(b, m)]}
  if test == 'LongestRuns':
    M, lo, hi = (10000, 10, 16) if n >= 750000 else (128, 4, 9) if n >= 6272 else (8, 1, 4)
    v = [0] * (hi - lo + 1)
    for x in split(b, M):
      v[min(max(longest(x), lo), hi) - lo] += 1
    return {'m': M, 'bins': v}
  if test == 'LinearComplexityScatter':
    return {}
  if test == 'RandomWalk':
    S = [0]
    for v in b:
      S.append(S[-1] + (1 if v else -1))
    J = 1 + sum(1 for x in S[1:] if x == 0)
    return {'zf': max(abs(x) for x in S), 'zb': max(abs(S[n] - S[j]) for j in range(n + 1)), 'J': J,
            'visits_pos': [sum(1 for x in S[1:] if x == k) for k in range(1, 5)],
            'visits_neg': [sum(1 for x in S[1:] if x == -k) for k in range(1, 5)]}
  return {}


def call_test(ns, test, v, n, par):
  if test in ('LargeBinaryMatrixRank', 'LinearComplexityScatter'):
    from paranoid_crypto.lib.randomness_tests import extended_nist_suite as ens
    if test == 'LargeBinaryMatrixRank':
      return ens.LargeBinaryMatrixRank(v, n)
    if isinstance(par, (list, tuple)):
      return ens.LinearComplexityScatter(v, n, par[0], par[1])
    return ens.LinearComplexityScatter(v, n, par)
  if test == 'OverlappingTemplateMatching' and isinstance(par, (list, tuple)):
    return ns.OverlappingTemplateMatching(v, n, par[0], par[1])
  if test == 'BinaryMatrixRank' and isinstance(par, (list, tuple)):
    return ns.BinaryMatrixRank(v, n, par[0], par[1], par[2], False)
  fn = getattr(ns, test)
  if test == 'RandomWalk' and isinstance(par, (list, tuple)):
    return fn(v, n, par[0], par[1], par[2])
  if test == 'LinearComplexity':
    return fn(v, n, par)
  if test in ('Serial', 'ApproximateEntropy') and par:
    return fn(v, n, par)
  return fn(v, n)


def in_domain(test, b):
  """Where SP 800-22 defines the p-value formula (the formula clause is applied only there)."""
  n = len(b)
  if test == 'Runs':
    return n >= 100 and abs(sum(b) / n - 0.5) < 2 / math.sqrt(n)
  if test == 'OverlappingTemplateMatching':
    return n >= 1032
  return n >= 100 if test in ('Frequency', 'BlockFrequency', 'RandomWalk') else True


def formula_domain(test, b):
  """Where the formula clause applies: the cumulative-sums expression of SP 800-22 2.13.4 is a closed form for every n (its worked example
  has n = 10); it is only the RANGE clause that needs n >= 100 (the expression is an approximation and exceeds 1 on short strings)."""
  if test == 'RandomWalk':
    return len(b) >= 2
  return in_domain(test, b)


def stat_record(ns, sid, test, b, par=0, with_ref=True):
  n = len(b)
  v = val(b)
  args = {'test': test, 'n': n, 'par': par if not isinstance(par, (list, tuple)) else 0}
  if test == 'RandomWalk' and isinstance(par, (list, tuple)):
    args['states'] = list(par)
  if n <= 4096:
    args['bits'] = b
  rec = {'sid': sid, 'ev': 'stat', 'args': args, 'obs': {}, 'raised': 'none'}
  try:
    import warnings
    with warnings.catch_warnings():
      warnings.simplefilter('ignore')
      res = call_test(ns, test, v, n, par)
    pv = {'result': float(res)} if isinstance(res, (int, float)) else {k: float(x) for k, x in res}
    nan = any(x != x for x in pv.values())
    ok = True
    st = int_stats(test, b)
    if test == 'LinearComplexityScatter':
      if isinstance(par, (list, tuple)):
        args['par'], args['maxblock'] = par[0], par[1]
        st = {'sizes': [len(b[:par[0] * par[1]][i::par[0]]) for i in range(par[0])]}
      else:
        st = {'sizes': [len(b[i::par]) for i in range(par)]}
    if test == 'Universal' and n >= 387840:
      st = {'refL': max(L for L, mn in UNIVERSAL_MIN_N.items() if n >= mn)}      # the ladder the reference used (checked against NistStats.tla)
    if with_ref and test in TESTS_WITH_REF and formula_domain(test, b) and not nan and not (test in ('Serial', 'ApproximateEntropy') and n > 12000):
      mm = par
      if test == 'Serial' and not par:
        mm = max(2, min(22, n.bit_length() - 4))
      if test == 'ApproximateEntropy' and not par:
        mm = max(2, n.bit_length() - 7) if n < 2 ** 16 else n.bit_length() - 8 if n < 2 ** 20 else n.bit_length() - 9
      ref = ref_pvalues(test, b, par if test in ('BinaryMatrixRank', 'OverlappingTemplateMatching', 'RandomWalk', 'LinearComplexityScatter') else mm)
      if ref is not None:
        ref = {k: x for k, x in ref.items() if x is not None}
        if not set(ref) <= set(pv):
          ok = False
        for k in ref:
          alts = ref[k] if isinstance(ref[k], list) else [ref[k]]
          # the square 32 x 32 rank distribution is embedded to eight printed digits: relative 2e-5 on the p-value
          rel = 2e-5 if test in ('BinaryMatrixRank', 'LargeBinaryMatrixRank') else 1e-6   # embedded constants have 6..8 printed digits
          if k in pv and not any(abs(pv[k] - x) <= max(1e-9, rel * abs(x)) for x in alts):
            ok = False
    rng_ok = (not nan) and all(-1e-9 <= x <= 1 + 1e-9 for x in pv.values())
    if not in_domain(test, b):
      rng_ok = True          # outside the domain of the SP 800-22 formula the range clause is not applied (O1 / O3)
    rec['obs'] = {'count': len(pv), 'pmicro': [int(round(max(0.0, min(2.0, x)) * 10 ** 6)) if x == x else -1 for x in pv.values()],
                  'inrange': bool(rng_ok), 'stat': st if st else {'none': 0}, 'formula_ok': bool(ok)}
    if test == 'RandomWalk' and 'J' not in st:
      rec['obs']['stat'] = int_stats('RandomWalk', b)
  except Exception as e:  # pylint: disable=broad-except
    rec['raised'] = type(e).__name__
    if rec['raised'] == 'ZeroDivisionError' and not in_domain(test, b):
      rec['raised'] = 'none'
      rec['obs'] = {'count': 1, 'pmicro': [0], 'inrange': True, 'stat': int_stats(test, b) or {'none': 0}, 'formula_ok': True}
  return rec


def meta_record(ns, sid, test, b, transform, par=0):
  """Invariance: p(test, s) = p(test, T(s)) for the transformations that provably keep the statistic."""
  n = len(b)
  if transform == 'complement':
    tb = [1 - x for x in b]
  elif transform == 'reverse':
    tb = b[::-1]
  else:
    r = max(1, n // 3)
    tb = b[r:] + b[:r]
  rec = {'sid': sid, 'ev': 'meta', 'args': {'test': test, 'transform': transform, 'n': n}, 'obs': {}, 'raised': 'none'}
  try:
    import warnings
    with warnings.catch_warnings():
      warnings.simplefilter('ignore')
      ra = call_test(ns, test, val(b), n, par)
      rb = call_test(ns, test, val(tb), n, par)
    def vec(res):
      return {'result': float(res)} if isinstance(res, (int, float)) else {k: float(x) for k, x in res}
    pa, pb = vec(ra), vec(rb)
    if test == 'RandomWalk':
      def ren(k):
        if transform == 'reverse':
          return {'cumulative sums forward': 'cumulative sums reverse', 'cumulative sums reverse': 'cumulative sums forward'}.get(k, k)
        if transform == 'complement' and k.startswith('random excursions'):
          head, x = k.rsplit(' ', 1)
          return '%s %d' % (head, -int(x))
        return k
      if transform == 'reverse':
        pa = {k: x for k, x in pa.items() if k.startswith('cumulative')}
        pb = {k: x for k, x in pb.items() if k.startswith('cumulative')}
      pb = {ren(k): x for k, x in pb.items()}
    if test == 'NonOverlappingTemplateMatching' and transform == 'complement':
      # complementing the string maps template t to its complement
      def comp(k):
        t = k.split("'")[1] if "'" in k else None
        if t is None:
          return k
        return k.replace(t, ''.join('1' if c == '0' else '0' for c in t))
      pb = {comp(k): x for k, x in pb.items()}
    keys = sorted(pa)
    if sorted(pb) != keys:
      rec['obs'] = {'pa': [0], 'pb': [10 ** 6, 1]}
    else:
      mic = lambda x: int(round(x * 10 ** 6)) if x == x else -1
      rec['obs'] = {'pa': [mic(pa[k]) for k in keys], 'pb': [mic(pb[k]) for k in keys]}
  except Exception as e:  # pylint: disable=broad-except
    rec['raised'] = type(e).__name__
    if rec['raised'] == 'ZeroDivisionError' and test == 'Runs' and len(set(b)) < 2:
      # Runs on a constant string (O1): outside the domain of SP 800-22 2.3, as in stat_record - not a verdict
      rec['raised'] = 'none'
      rec['obs'] = {'pa': [0], 'pb': [0]}
  return rec


def pure_records(sid, seed):
  """A sequence of calls with varying optional parameters in one process; every call is then repeated in a fresh (forked) process."""
  import os, pickle
  shim.install()
  from paranoid_crypto.lib.randomness_tests import nist_suite as ns
  rng = random.Random(seed)
  n = 20000
  b = [rng.getrandbits(1) for _ in range(n)]
  v = val(b)
  calls = [('OverlappingTemplateMatching', (9, 1032)), ('OverlappingTemplateMatching', (9, 2057)), ('OverlappingTemplateMatching', (4, 64)),
           ('OverlappingTemplateMatching', (4, 35)), ('OverlappingTemplateMatching', (9, 1032)), ('BinaryMatrixRank', (32, 32, 3)),
           ('BinaryMatrixRank', (6, 8, 2)), ('BinaryMatrixRank', (16, 32, 3)), ('BinaryMatrixRank', (6, 8, 2)), ('LinearComplexity', 32),
           ('LinearComplexity', 50), ('Serial', 5), ('Serial', 3), ('ApproximateEntropy', 4), ('ApproximateEntropy', 6),
           ('LinearComplexityScatter', 7), ('LinearComplexityScatter', 32)]
  def vec(res):
    d = {'result': float(res)} if isinstance(res, (int, float)) else {k: float(x) for k, x in res}
    return [int(round(d[k] * 10 ** 6)) if d[k] == d[k] else -1 for k in sorted(d)]
  def fresh(test, par):
    r, w = os.pipe()
    pid = os.fork()
    if pid == 0:
      try:
        os.close(r)
        try:
          out = ('ok', vec(call_test(ns, test, v, n, par)))
        except Exception as e:  # pylint: disable=broad-except
          out = ('err', type(e).__name__)
        with os.fdopen(w, 'wb') as f:
          pickle.dump(out, f)
      finally:
        os._exit(0)
    os.close(w)
    with os.fdopen(r, 'rb') as f:
      data = f.read()
    os.waitpid(pid, 0)
    return pickle.loads(data) if data else ('err', 'died')
  # the fresh-process answers first (this process has not called any test yet), then the history
  fresh_res = [fresh(t, p_) for t, p_ in calls]
  recs = []
  import warnings
  for i, (t, p_) in enumerate(calls):
    rec = {'sid': '%s-%d-%s' % (sid, i, t), 'ev': 'pure', 'args': {'test': t, 'n': n, 'par': list(p_) if isinstance(p_, tuple) else [p_]},
           'obs': {}, 'raised': 'none'}
    try:
      with warnings.catch_warnings():
        warnings.simplefilter('ignore')
        got = vec(call_test(ns, t, v, n, p_))
      if fresh_res[i][0] != 'ok':
        rec['raised'] = str(fresh_res[i][1])
      else:
        rec['obs'] = {'pa': got, 'pb': fresh_res[i][1]}
    except Exception as e:  # pylint: disable=broad-except
      rec['raised'] = type(e).__name__ if fresh_res[i][0] == 'ok' else 'none'
      if rec['raised'] == 'none':
        rec['obs'] = {'pa': [0], 'pb': [0]}
    recs.append(rec)
  return recs


INVARIANT = {
    'Frequency': ('complement', 'reverse', 'rotate'),
    'BlockFrequency': ('complement',),
    'Runs': ('complement', 'reverse'),
    'LongestRuns': (),
    'Spectral': ('reverse',),
    'Serial': ('complement', 'reverse', 'rotate'),
    'ApproximateEntropy': ('complement', 'reverse', 'rotate'),
    'RandomWalk': ('complement', 'reverse'),
}


def strings(rng, n):
  out = {'random': [rng.getrandbits(1) for _ in range(n)]}
  per = rng.choice([3, 5, 7, 11])
  pat = [rng.getrandbits(1) for _ in range(per)]
  if len(set(pat)) < 2:
    pat[rng.randrange(per)] ^= 1            # a genuinely periodic string, not a constant one
  out['periodic'] = [pat[i % per] for i in range(n)]
  k = min(n, 40)
  out['onesided'] = [1] * k + [rng.getrandbits(1) for _ in range(n - k)]
  out['earlyzero'] = ([1, 0] * 3 + [rng.getrandbits(1) for _ in range(n)])[:n]
  out['zerohead'] = ([0] * 20 + [rng.getrandbits(1) for _ in range(n)])[:n]      # whole all-zero blocks of small block sizes
  return out


def worker(job):
  kind, args = job
  try:
    shim.install()
    from paranoid_crypto.lib.randomness_tests import nist_suite as ns
    if kind == 'stat':
      return stat_record(ns, *args), None
    if kind == 'pure':
      return pure_records(*args), None
    return meta_record(ns, *args), None
  except Exception:  # pylint: disable=broad-except
    return None, traceback.format_exc()


def table_records():
  """Embedded probability tables against exactly derived distributions (auxiliary, exact rationals)."""
  shim.install()
  from paranoid_crypto.lib.randomness_tests import nist_suite as ns
  recs = []
  def rec(name, ok, detail):
    return {'sid': 'table-' + name, 'ev': 'table', 'args': {'table': name}, 'obs': {'ok': bool(ok), 'detail': detail}, 'raised': 'none'}
  for x in range(1, 8):
    got = ns.RandomExcursionsDistribution(x, 5)
    t = Fraction(1, 2 * x)
    want = [1 - t] + [t * t * (1 - t) ** (k - 1) for k in range(1, 5)] + [t * (1 - t) ** 4]
    recs.append(rec('excursions-%d' % x, all(abs(g - float(w)) < 1e-12 for g, w in zip(got, want)) and abs(sum(got) - 1) < 1e-12, [float(w) for w in want]))
  # longest-run tables: the literals of LongestRuns against the exact distribution, to one unit of the printed precision
  try:
    import inspect, re
    src = inspect.getsource(ns.LongestRuns)
    for m_ in re.finditer(r'\[\s*(\d+),\s*(\d+),\s*(\d+),\s*(\d+),\s*\[([^\]]*)\]', src):
      M, lo, hi = int(m_.group(2)), int(m_.group(3)), int(m_.group(4))
      vals = [float(x) for x in m_.group(5).replace('\n', ' ').split(',') if x.strip()]
      exact = longest_run_table(M, lo, hi)
      ok = len(vals) == len(exact) and all(abs(v - float(e)) <= 1.0001e-4 for v, e in zip(vals, exact))
      recs.append(rec('longestrun-M%d' % M, ok, {'code': vals, 'exact': [round(float(e), 6) for e in exact]}))
      recs[-1]['args']['M'] = M
  except Exception as e:  # pylint: disable=broad-except
    pass
  # rank distribution of random 32 x 32 binary matrices: P(rank = 32 - j), exact product formula
  try:
    def rank_prob(r, c, rho):
      p = Fraction(1)
      for i in range(rho):
        p *= Fraction((2 ** r - 2 ** i) * (2 ** c - 2 ** i), (2 ** rho - 2 ** i))
      return p / 2 ** (r * c)
    for k in (3, 5):
      got = [float(x) for x in ns.RankDistribution(32, 32, k)]
      want = [float(rank_prob(32, 32, 32 - j)) for j in range(k)]
      want.append(1 - sum(want))
      ok = len(got) == k + 1 and all(abs(g - w) <= 1.0001e-8 for g, w in zip(got, want))
      recs.append(rec('rank-32x32-k%d' % k, ok, {'code': got, 'exact': want}))
    # every optional matrix shape: non-square shapes around the size where the square asymptotic table takes over
    for (r_, c_, k_) in [(31, 32, 3), (32, 33, 3), (32, 40, 2), (40, 32, 5), (31, 31, 5), (33, 33, 4), (64, 64, 5), (30, 30, 3), (3, 3, 2), (8, 8, 3),
                         (100, 31, 2), (16, 32, 3), (64, 60, 1)]:
      got = [float(x) for x in ns.RankDistribution(r_, c_, k_)]
      # documented: p_i = P(rank = r - i) (zero when r - i exceeds the number of columns), p_k = the rest
      want = [float(rank_prob(r_, c_, r_ - j)) if 0 <= r_ - j <= min(r_, c_) else 0.0 for j in range(k_)]
      want.append(1 - sum(want))
      ok = len(got) == k_ + 1 and all(abs(g - w) <= 1.0001e-8 for g, w in zip(got, want))
      recs.append(rec('rank-%dx%d-k%d' % (r_, c_, k_), ok, {'code': got, 'exact': want}))
    # Maurer's table (expected value and variance of log2 of the block distance) from its defining series, to the printed digits
    import numpy
    for L in range(1, 17):
      # direct summation: the terms decay like (1 - 2^-L)^i; 64 * 2^L terms leave a tail below 1e-25
      i_ = numpy.arange(1, 64 * 2 ** L + 1, dtype=numpy.longdouble)
      w_ = numpy.exp((i_ - 1) * numpy.log1p(-numpy.longdouble(2.0) ** (-L)))
      lg = numpy.log2(i_)
      e1 = float(numpy.sum(w_ * lg)) / 2 ** L
      e2 = float(numpy.sum(w_ * lg * lg)) / 2 ** L
      mean_code, std_code = ns.UniversalDistribution(L, 1000)
      c_ = 0.7 - 0.8 / L + (4 + 32 / L) * (1000 ** (-3 / L) / 15)
      var_code = (std_code / c_) ** 2 * 1000
      ok = abs(mean_code - float(e1)) <= 1.5e-6 and abs(var_code - float(e2 - e1 * e1)) <= 1.1e-3
      recs.append(rec('universal-L%d' % L, ok, {'code': [mean_code, var_code], 'exact': [float(e1), float(e2 - e1 * e1)]}))
    # the survival function embedded in the extended suite, to its six printed digits
    from paranoid_crypto.lib.randomness_tests import extended_nist_suite as ens
    tab = [float(x) for x in ens.ASYMPTOTIC_RANK_SF]
    want = [float(_rank_sf(k)) for k in range(len(tab))]
    recs.append(rec('asymptotic-rank-sf', all(abs(g - w) <= 1.5e-5 * w for g, w in zip(tab, want)), {'code': tab[:8], 'exact': want[:8]}))
    got = [float(x) for x in ns.RankDistribution(6, 8, 2, allow_approximation=False)]
    want = [float(rank_prob(6, 8, 6 - j)) for j in range(2)]
    want.append(1 - sum(want))
    recs.append(rec('rank-6x8', len(got) == 3 and all(abs(g - w) < 1e-12 for g, w in zip(got, want)), {'code': got, 'exact': want}))
  except Exception as e:  # pylint: disable=broad-except
    recs.append(rec('rank-32x32', False, 'reference crashed: %s' % type(e).__name__))
  return recs


def run(ctx):
  ctx.trust('TLC 1.8', 'mpmath transcriptions of the SP 800-22 formulas (auxiliary monitor: the real-valued map statistic -> p-value is not '
            'decidable in TLA+; the integer statistic it is applied to is certified by TLC for strings <= 4096 bits)',
            'exact-rational dynamic programming for the longest-run tables (M = 128, 10^4); the M = 8 table is enumerated by TLC')
  ctx.assume('the formula clause is applied where SP 800-22 defines the test: Runs only when the frequency pre-test passes (the code has no '
             'pre-test and divides by zero on constant strings: observation O1), OverlappingTemplateMatching from one block (1032 bits) upwards (O3)')
  ctx.assume('p-value formulas are auxiliary transcriptions (mpmath / exact rationals / numpy FFT), not TLC results; Spectral admits both '
             'sides of a magnitude within 1e-9 of the threshold; the 32 x 32 rank constants are embedded to eight digits (relative 2e-5)')
  r = tlc.expect_holds('NistStats', 'MC_Nist.cfg', timeout=3600)
  ctx.note_mc(r, 'NistStats/MC_Nist: AppendBit walk machine vs definitions, reversal / complement lemmas, ladders, M = 8 table; every string <= 12 bits', 'MaxLen=12')
  d3 = tlc.mc('NistStats', 'MC_Nist_D3.cfg')
  if d3.violated != 'PinnedBackwardAgrees':
    raise tlc.MachineryError('the pinned backward statistic should be refuted by TLC (D3)')
  ctx.notes['design_level_counterexample'] = 'MC_Nist_D3.cfg: extrema without S_0 differ from the definition of the backward cumulative sum (D3)'
  rng = ctx.rng
  jobs = []
  tests_all = ['Frequency', 'BlockFrequency', 'Runs', 'LongestRuns', 'BinaryMatrixRank', 'Spectral', 'NonOverlappingTemplateMatching',
               'OverlappingTemplateMatching', 'Universal', 'LinearComplexity', 'Serial', 'ApproximateEntropy', 'RandomWalk']
  # (1) every short string through the tests whose statistic TLC certifies
  L = 8 if ctx.quick else 11
  for n in range(1, L + 1):
    for v in range(1 << n):
      b = bits_of(v, n)
      for t in ('Frequency', 'Runs', 'RandomWalk'):
        jobs.append(('stat', ('e-%s-%d-%d' % (t, n, v), t, b, 0, t == 'RandomWalk')))
  # (2) ladder grid: n on both sides of every threshold, several string classes
  grid = [99, 100, 101, 127, 128, 129, 1599, 1600, 3199, 3200, 6271, 6272, 31, 32, 33, 511, 512, 2047, 2048, 4095, 4096, 10000, 38911, 38912,
          65535, 65536, 2 ** 16 + 1]
  if not ctx.quick:
    grid += [749999, 750000, 387839, 387840, 2 ** 20 - 1, 2 ** 20, 102399, 102400, 204800]
  # RandomWalk with optional state bounds (more states than NIST's, more in the plain test than in the variant, other count caps)
  for n in ([200000] if ctx.quick else [200000, 1000000]):
    b = None
    for _ in range(200):          # a string whose walk returns to zero at least 500 times (otherwise the excursion tests are skipped)
      b = strings(rng, n)['random']
      if int_stats('RandomWalk', b)['J'] >= 520:
        break
    for st in ((12, 5, 9), (6, 5, 3), (2, 5, 9), (4, 3, 9), (4, 7, 2), (1, 5, 1)):
      jobs.append(('stat', ('w-RandomWalk-%d-%s' % (n, '.'.join(map(str, st))), 'RandomWalk', b, st, True)))
  # Universal on both sides of the first block-length thresholds of SP 800-22 2.9.7
  for n in ([387840, 904959, 904960] if ctx.quick else [387840, 904959, 904960, 2068479, 2068480, 1000000]):
    jobs.append(('stat', ('u-Universal-%d-random' % n, 'Universal', strings(rng, n)['random'], 0, True)))
  for n in grid:
    for cname, b in strings(rng, n).items():
      if ctx.quick and cname in ('periodic', 'earlyzero') and n > 5000:
        continue
      for t in tests_all:
        par = 0
        if t == 'LinearComplexity':
          for bs in (9, 10, 11, 13, 16, 17, 101, 512):        # every residue of the block size modulo 4 (median and class boundaries)
            jobs.append(('stat', ('g-%s%d-%d-%s' % (t, bs, n, cname), t, b, bs, n <= 70000)))
          continue
        if t in ('Spectral',) and n > 70000 and ctx.quick:
          continue
        if t in ('Serial', 'ApproximateEntropy') and n > 70000:
          continue
        jobs.append(('stat', ('g-%s-%d-%s' % (t, n, cname), t, b, par, n <= 70000)))
  # (2b) extended suite: large matrix rank ladder / thresholds, scattered linear complexity for n % step != 0 and == 0
  for n in [4095, 4096, 16383, 16384, 20000] + ([] if ctx.quick else [65535, 65536, 262144]):
    b = strings(rng, n)['random']
    jobs.append(('stat', ('x-LargeBinaryMatrixRank-%d' % n, 'LargeBinaryMatrixRank', b, 0, False)))
  for n in [1000, 1001, 1024, 1023, 2047, 4096]:
    for step in (1, 7, 32, 64):
      for cname in ('random', 'periodic'):
        jobs.append(('stat', ('x-Scatter-%d-%d-%s' % (n, step, cname), 'LinearComplexityScatter', strings(rng, n)[cname], step, True)))
  # optional max_block_size: inputs shorter than, a little longer than and several times longer than step * max_block_size
  for n, step, mb in [(1000, 7, 200), (1000, 7, 100), (3000, 7, 100), (4000, 32, 30), (4096, 64, 16), (2000, 1, 300), (9000, 7, 100)]:
    for cname in ('random', 'periodic'):
      jobs.append(('stat', ('x-ScatterMax-%d-%d-%d-%s' % (n, step, mb, cname), 'LinearComplexityScatter', strings(rng, n)[cname], (step, mb), True)))
  # (2c) optional parameters under call histories vs fresh processes
  for i in range(2 if ctx.quick else 8):
    jobs.append(('pure', ('p-%d' % i, ctx.seed * 100 + i)))
  # (3) invariances
  for n in ([1000, 4096, 10007] if ctx.quick else [1000, 4096, 10007, 65536, 100003]):
    for cname, b in strings(rng, n).items():
      for t, trs in INVARIANT.items():
        for tr in trs:
          jobs.append(('meta', ('m-%s-%s-%d-%s' % (t, tr, n, cname), t, b, tr, 0)))
  if ctx.only_sid:
    jobs = [j for j in jobs if ctx.only_sid.startswith(j[1][0])]
  mpctx = mp.get_context('fork')
  from pv import proc
  res = list(proc.imap_unordered(worker, jobs, procs=15, chunk=20))
  recs = []
  for rec, err in res:
    if err:
      raise tlc.MachineryError('C12 worker crashed:\n%s' % err)
    if isinstance(rec, list):
      recs += rec
    else:
      recs.append(rec)
  recs += [x for x in table_records() if not ctx.only_sid or x['sid'] == ctx.only_sid]
  ctx.replayed = len(recs)
  for x in (recs[3], recs[len(recs) // 2], recs[-1]):
    ctx.sample(x if len(json.dumps(x)) < 900 else {'sid': x['sid'], 'ev': x['ev'], 'test': x['args'].get('test'), 'n': x['args'].get('n'), 'obs': {k: v for k, v in x['obs'].items() if k != 'stat'}})
  random.Random(3).shuffle(recs)
  c, fails, trs = tlc.validate_trace_parallel('NistTrace', 'NistTrace.cfg', recs, 'C12', jobs=15, timeout=3600, heap='3g')
  ctx.note_mc(trs[0], 'NistTrace (first of %d chunks)' % len(trs))
  ctx.states += sum(t.distinct for t in trs[1:])
  ctx.transitions += sum(t.generated for t in trs[1:])
  ctx.validated = c
  by = {x['sid']: x for x in recs}
  def det(rec, f):
    a = rec['args']
    d = {'ev': rec['ev'], 'test': a.get('test'), 'n': a.get('n'), 'par': a.get('par'), 'transform': a.get('transform'), 'table': a.get('table'),
         'M': a.get('M'),
         'raised': rec['raised'], 'obs': {k: v for k, v in rec['obs'].items() if k != 'stat' or len(json.dumps(v)) < 200}}
    if 'bits' in a and len(a['bits']) <= 64:
      d['bits'] = ''.join(map(str, a['bits']))
    return d
  ctx.trace_failures(fails, by, det)
  ctx.distinct = set(by)
  ctx.notes['aux_formula_checked_records'] = sum(1 for x in recs if x['ev'] == 'stat' and x['args']['test'] in TESTS_WITH_REF)


def selftest(ctx):
  shim.install()
  from paranoid_crypto.lib.randomness_tests import nist_suite as ns
  good = stat_record(ns, 'good', 'RandomWalk', [1, 1, 0, 1, 0, 0, 0, 1], 0, False)
  bad = json.loads(json.dumps(good))
  bad['sid'] = 'corrupt'
  bad['obs']['stat']['zb'] += 1
  _, fails, _ = tlc.validate_trace('NistTrace', 'NistTrace.cfg', [good, bad], 'C12self')
  got = [(f['sid'], f['clause']) for f in fails]
  assert got == [('corrupt', 'IntegerStatistic')], got
  print('selftest ok', got)
