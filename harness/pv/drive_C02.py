"""C02 — every discrete log or key relation reported for an EC key or signer is true."""
import random

from pv import drive_C10
from pv import drive_C16
from pv import smallec
from pv import tlc

DIRECTED = [
    ('ecdsa', 'negated-issuer', {'s1': 'msbneg', 's2': 'healthyA'}, [{'all': False, 'check': 'CheckNonceMSB', 'batch': ['s1', 's2']},
                                                                  {'all': False, 'check': 'CheckNonceCommonPrefix', 'batch': ['s2', 's1']}]),
    ('ecdsa', 'below-margin', {'s1': 'msbweak', 's2': 'msbA', 's3': 'healthyB'},
     [{'all': False, 'check': 'CheckNonceMSB', 'batch': ['s1', 's2', 's3']}, {'all': False, 'check': 'CheckNonceGeneralized', 'batch': ['s1', 's3']},
      {'all': False, 'check': 'CheckCr50U2f', 'batch': ['s1', 's2']}]),
    ('ecdsa', 'two-curves', {'s1': 'msb384', 's2': 'msbA', 's3': 'healthy384'}, [{'all': False, 'check': 'CheckNonceMSB', 'batch': ['s3', 's1', 's2']}]),
    ('ecdsa', 'lcg-then-curves-without-model', {'s1': 'lcgA', 's2': 'healthy521', 's3': 'healthyk1'},
     [{'all': False, 'check': 'CheckLCGNonceGMP', 'batch': ['s1', 's2', 's3']}, {'all': False, 'check': 'CheckLCGNonceJavaUtilRandom', 'batch': ['s1', 's2', 's3']}]),
    # several hundred guesses on one curve in one call: the recorded logarithm must be the guess that matched THIS issuer
    ('ecdsa', 'crowd-and-weak', {'s1': 'crowd', 's2': 'msbA', 's3': 'msb384', 's4': 'msbB', 's5': 'msbC'},
     [{'all': False, 'check': 'CheckNonceMSB', 'batch': ['s1', 's2', 's3', 's4', 's5']},
      {'all': False, 'check': 'CheckNonceCommonPrefix', 'batch': ['s2', 's4', 's1', 's5']}]),
    ('ecdsa', 'behind-u2f-issuer', {'s1': 'u2fA', 's2': 'healthyA', 's3': 'healthyk1', 's4': 'healthyB'},
     [{'all': False, 'check': 'CheckCr50U2f', 'batch': ['s1', 's2', 's3', 's4']}, {'all': True, 'check': 'ALL', 'batch': ['s3', 's1', 's2']}]),
    ('ec', 'negative-logarithm', {'s1': 'weakprivateneg', 's2': 'weakprivate', 's3': 'weakprivateneg'},
     [{'all': False, 'check': 'CheckWeakECPrivateKey', 'batch': ['s1', 's2', 's3']}]),
    ('ec', 'structured', {'s1': 'weakprivate', 's2': 'healthy', 's3': 'closeA', 's4': 'closeB'},
     [{'all': False, 'check': 'CheckWeakECPrivateKey', 'batch': ['s1', 's2']},
      {'all': False, 'check': 'CheckECKeySmallDifference', 'batch': ['s3', 's2', 's4', 's1']}]),
]


def run(ctx):
  ctx.trust('TLC 1.8', 'refec.py reference multiplication (verifies every recorded logarithm and relation)', 'pv.checks.project',
            'regex parser of the relation string')
  ctx.assume('the claim is made for keys that are valid points of their named curve; logarithms recorded for invalid points are '
             'outside the property (they are driven under C18)')
  smallec.check_cfgs()
  # T1: soundness of the three searches on whole small groups, points that are NOT small logarithms included
  r = tlc.expect_holds('Bsgs', 'MC_Bsgs_quick.cfg', timeout=3600)
  ctx.note_mc(r, 'Bsgs: the verified candidate is the logarithm (mod q) in every cache state')
  rng = random.Random('C02-%d' % ctx.seed)
  recs_by_tag = {}
  for tag, q in (('c73', 67), ('c67', 73)):
    for h in range(6 if ctx.quick else 60):
      hist = []
      for _ in range(3):
        if rng.random() < 0.6:
          hist.append([['dl', rng.randrange(1, 4), rng.randrange(1, q + 1)], 0])
        else:
          hist.append([['diff', rng.randrange(1, q // 2), 0], 0])
      recs_by_tag.setdefault(tag, []).extend(drive_C10.replay_history(tag, hist, 'C02-%s-h%d' % (tag, h), rng))
  for tag, recs in recs_by_tag.items():
    if ctx.only_sid:
      recs = [x for x in recs if x['sid'] == ctx.only_sid]
      if not recs:
        continue
    c, fails, trs = tlc.validate_trace_parallel('EcTrace', 'EcTrace_%s.cfg' % tag, recs, 'C02-' + tag, jobs=6)
    ctx.validated += c
    ctx.replayed += len(recs)
    ctx.note_mc(trs[0], 'EcTrace_%s: DLogSound / DiffRelationSound on the whole group' % tag)
    by = {x['sid']: x for x in recs}
    ctx.trace_failures(fails, by, lambda rec, f: {'curve': tag, 'ev': rec['ev'], 'args': rec['args'], 'obs': rec['obs'], 'raised': rec['raised']})
    ctx.distinct.update(by)
  # T2: named curves through the checks, with wrong-guess pressure
  q = ctx.quick
  plans = [('ecdsa', 'GEN_Checks_ecdsasound.cfg', 5 if q else 50, 3), ('ec', 'GEN_Checks_ecsound.cfg', 3 if q else 30, 3)]
  saved = drive_C16.DIRECTED
  drive_C16.DIRECTED = DIRECTED
  try:
    drive_C16.replay_and_validate(ctx, plans, 'C02', pre_annotate=False)
  finally:
    drive_C16.DIRECTED = saved


def selftest(ctx):
  drive_C10.selftest(ctx)
