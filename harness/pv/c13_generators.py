"""C13, generator clauses: real generator output through the real suite (TestBitString), validated by GenTrace.tla."""
import multiprocessing as mp
import traceback

from pv import shim
from pv import tlc

P_FAIL = 1e-9
# (name, family, minimal input size for the rank clause [bits], sizes driven)
WEAK = [
    ('trunclcg16', 'lcg', 0), ('trunclcg20', 'lcg', 0), ('trunclcg28', 'lcg', 0), ('trunclcg32', 'lcg', 0), ('trunclcg64', 'lcg', 0),
    ('trunclcg128', 'lcg', 0), ('lehmer128', 'lcg', 0), ('lehmer128/16', 'lcg', 0), ('java', 'lcg', 0), ('mwc64', 'lcg', 0),
    ('mwc128', 'lcg', 0), ('mwc256', 'lcg', 0),
    ('xorshift128+', 'xor', 2 ** 16), ('xorwow', 'xor', 2 ** 18), ('xorshift*', 'xor', 2 ** 22),
]
GOOD = ['shake128', 'pcg64', 'philox']


def run_source(args):
  name, cls, family, rank_bits, n, seed = args
  sid = 'gen-%s-%s-n%d-s%d' % (cls, name.replace('/', '_'), n, seed)
  rec = {'sid': sid, 'ev': 'gen', 'args': {'source': name, 'cls': cls, 'family': family, 'n': n, 'seed': seed, 'rank_bits': rank_bits},
         'obs': {}, 'raised': 'none'}
  try:
    shim.install()
    from paranoid_crypto.lib.randomness_tests import random_test_suite as rts, rng
    bits = rng.GetRng(name).RandomBits(n, seed=seed)
    runs = {}
    orig_run = rts.TestStructure.Run
    order = []
    def wrapper(self, b, nn):
      ret = orig_run(self, b, nn)
      key = id(self)
      if key not in runs:
        order.append(key)
      names = sorted(self.state)
      runs[key] = {'test': self.test_name, 'count': int(self.runs), 'states': [self.state[k].name for k in names],
                   'below': [bool(self.p_values[k][-1] < P_FAIL) for k in names], 'finished': bool(self.finished),
                   'pmin': min([self.p_values[k][-1] for k in names], default=1.0)}
      return ret
    rts.TestStructure.Run = wrapper
    try:
      ret = rts.TestBitString(bits, n, significance_level=P_FAIL, log_level=0)
    finally:
      rts.TestStructure.Run = orig_run
    rec['obs'] = {'ret': bool(ret), 'runs': [runs[k] for k in order]}
  except Exception as e:  # pylint: disable=broad-except
    rec['raised'] = type(e).__name__
    rec['raised_msg'] = traceback.format_exc()[-400:]
  return rec


def population_worker(args):
  """All NIST and extended tests of the suite's own table on 2^20 bits of a good generator; returns {test label: [p-values]}."""
  name, seed, n = args
  try:
    shim.install()
    from paranoid_crypto.lib.randomness_tests import random_test_suite as rts, rng, nist_suite
    bits = rng.GetRng(name).RandomBits(n, seed=seed)
    out = {}
    for fn, par in rts.NIST_TESTS + rts.EXTENDED_NIST_TESTS:
      label = fn.__name__ + ('' if not par else '-' + '-'.join(map(str, par)))
      try:
        res = fn(bits, n, *par)
      except nist_suite.InsufficientDataError:
        continue
      ps = [float(res)] if isinstance(res, (int, float)) else [float(x) for _, x in res]
      # p = 1 exactly is how LargeBinaryMatrixRank reports a full-rank matrix; templates: the first 40 of 148 keep the counts small
      out[label] = ps[:40]
    return (name, seed), out, None
  except Exception:  # pylint: disable=broad-except
    return (name, seed), None, traceback.format_exc()


def population_records(ctx):
  """The fraction of p-values at or below alpha over many seeds of the good generators, per test: decided by GenTrace (5 sigma)."""
  from pv import proc
  seeds = range(1, 9) if ctx.quick else range(1, 61)
  jobs = [(g, s_, 2 ** 20) for g in GOOD for s_ in seeds]
  pool = {}
  for key, out, err in proc.imap_unordered(population_worker, jobs, procs=14):
    if err:
      raise tlc.MachineryError('population worker crashed:\n%s' % err)
    for label, ps in out.items():
      pool.setdefault(label, []).extend(ps)
  recs = []
  for label, ps in sorted(pool.items()):
    ps = ps[:1900]
    recs.append({'sid': 'pop-%s' % label, 'ev': 'pop', 'args': {'test': label, 'K': len(ps), 'generators': GOOD, 'seeds': len(list(seeds))},
                 'obs': {'le_1_20': sum(1 for x in ps if x <= 0.05), 'le_1_100': sum(1 for x in ps if x <= 0.01),
                         'le_1_1000': sum(1 for x in ps if x <= 0.001), 'nan': sum(1 for x in ps if x != x)}, 'raised': 'none'})
  return recs


def plan(ctx):
  jobs = []
  if ctx.quick:
    for g in GOOD:
      jobs.append((g, 'good', 'good', 0, 2 ** 20, 5))
    for name, fam, rb in WEAK:
      if name == 'xorshift*':
        n = 2 ** 16            # the rank clause needs 2^22 bits: thorough only; scattered linear complexity applies
      elif name == 'xorwow':
        n = 2 ** 18
      else:
        n = 2 ** 16
      jobs.append((name, 'weak', fam, rb, n, 1))
  else:
    for g in GOOD:
      for seed in range(1, 9):
        jobs.append((g, 'good', 'good', 0, 2 ** 20, seed))
      jobs.append((g, 'good', 'good', 0, 2 ** 22, 77))
    # the upper end of the documented range: other block lengths of Universal, truncation in the scattered linear complexity
    jobs.append(('shake128', 'good', 'good', 0, 2 ** 24, 3))
    jobs.append(('pcg64', 'good', 'good', 0, 2 ** 23, 4))
    for name, fam, rb in WEAK:
      for seed in (1, 2, 3):
        for n in ([2 ** 16, 2 ** 18] if fam == 'lcg' else [2 ** 16, 2 ** 18, 2 ** 22]):
          jobs.append((name, 'weak', fam, rb, n, seed))
  return jobs


def _run_all(jobs):
  from pv import proc
  return list(proc.imap_unordered(run_source, jobs, procs=min(12, max(1, len(jobs)))))


def start(ctx):
  """Starts the generator runs in a background pool (they take ~40 s; the rule part runs meanwhile)."""
  jobs = plan(ctx)
  if ctx.only_sid:
    jobs = [j for j in jobs if 'gen-%s-%s-n%d-s%d' % (j[1], j[0].replace('/', '_'), j[4], j[5]) == ctx.only_sid]
  from pv import proc
  return proc.start_background(_run_all, (jobs,))


def finish(ctx, handle):
  from pv import proc
  recs = proc.finish_background(handle, 7200)
  if not recs:
    return
  ctx.replayed += len(recs)
  ctx.sample({'sid': recs[0]['sid'], 'ret': recs[0]['obs'].get('ret'),
              'runs': [{k: v for k, v in r.items() if k in ('test', 'states', 'pmin')} for r in recs[0]['obs'].get('runs', [])][:6]})
  if not ctx.only_sid or ctx.only_sid.startswith('pop-'):
    pop = population_records(ctx)
    if ctx.only_sid:
      pop = [x for x in pop if x['sid'] == ctx.only_sid]
    recs = recs + pop
    ctx.replayed += len(pop)
    ctx.notes['population_pvalues'] = sum(x['args']['K'] for x in pop)
  c, fails, tr = tlc.validate_trace('GenTrace', 'GenTrace.cfg', recs, 'C13gen')
  ctx.validated += c
  ctx.note_mc(tr, 'GenTrace: single-run rule, return rule and labelled expectations on real generator output')
  by = {x['sid']: x for x in recs}
  def det(rec, f):
    a = rec['args']
    if rec['ev'] == 'pop':
      return {'population': True, 'test': a['test'], 'K': a['K'], 'counts': rec['obs']}
    failed = [r['test'] for r in rec['obs'].get('runs', []) if 'FAILED' in r['states']]
    return {'source': a['source'], 'cls': a['cls'], 'family': a['family'], 'n': a['n'], 'seed': a['seed'], 'raised': rec['raised'],
            'ret': rec['obs'].get('ret'), 'failed_tests': failed,
            'smallest': sorted((r['pmin'], r['test']) for r in rec['obs'].get('runs', []))[:3]}
  ctx.trace_failures(fails, by, det)
  ctx.distinct.update(by)
  ctx.notes['generator_runs'] = len(recs)
  ctx.assume('weak-generator clauses use catalogue seeds; "the lattice bias search fails it" is read as some block size among 256/384/512/1024; '
             'the rank clause for the xorshift family applies from the matrix size the documentation tabulates (2^16 / 2^18 / 2^22 bits); '
             'the population statement is decided per test on the pooled p-values of SHAKE128 / PCG64 / Philox over 8 (thorough 60) seeds at 2^20 bits: '
             'counts at alpha = 1/20, 1/100, 1/1000 within five binomial standard deviations (GenTrace.Within)')
