"""C13 — the randomness suite decides by its rule, passes good generators, fails the documented weak ones.

Part A (decision rule, T1): TestStructure.tla is model-checked; TLC generates
every history of a single structure and -simulate behaviours of the two entry
points; each is replayed through the real TestStructure / TestSource /
TestBitString with scripted tests returning p = 2^-e; every Run() and every
return is validated by TSTrace.tla.

Part B (generators, T2): real generator output through the real tests; the
recorded p-value lists are projected by a reference Fisher combination
(mpmath) to the two booleans the rule needs and TLC validates the bookkeeping
and the labelled expectations (GenTrace.tla).
"""
import json
import os
import shutil

from pv import shim
from pv import tlc

INF = 9999
R = 7
P_FAIL = 1e-9
P_FAIL_CLOSE = 3e-4


class Runaway(Exception):
  pass


def _fail_at(k, p_fail):
  """Least integer S with Q(k, S ln 2) < p_fail, by exact series in mpmath."""
  import mpmath
  mpmath.mp.dps = 60
  s = 0
  while True:
    x = mpmath.mpf(s) * mpmath.log(2)
    q = mpmath.e ** (-x) * sum(x ** i / mpmath.factorial(i) for i in range(k))
    if q < mpmath.mpf(p_fail):
      return s
    s += 1


def check_constants():
  txt = open(os.path.join(tlc.SPEC, 'MC_TS.tla')).read()
  import re
  fa = [int(x) for x in re.search(r'FailAtDef == <<([^>]*)>>', txt).group(1).split(',')]
  want = [_fail_at(k, P_FAIL) for k in range(1, len(fa) + 1)]
  if fa != want:
    raise tlc.MachineryError('MC_TS.tla FailAtDef %s != mpmath %s' % (fa, want))
  ra = [int(x) for x in re.search(r'RepAtDef == <<([^>]*)>>', txt).group(1).split(',')]
  if ra != [R * k for k in range(1, len(ra) + 1)]:
    raise tlc.MachineryError('RepAtDef')
  fc = [int(x) for x in re.search(r'FailAtClose == <<([^>]*)>>', txt).group(1).split(',')]
  if fc != [_fail_at(k, P_FAIL_CLOSE) for k in range(1, len(fc) + 1)]:
    raise tlc.MachineryError('MC_TS.tla FailAtClose')


def _pv(e):
  return 0.0 if e == INF else 2.0 ** -e


class Scripted:
  """Scripted tests for one behaviour: per test id a queue of results."""

  def __init__(self, hist, names_of, scalar_ids, rng):
    self.q = {}
    for h in hist:
      self.q.setdefault(h['t'], []).append(h)
    self.calls = 0
    self.rng = rng
    self.names_of = names_of
    self.scalar_ids = scalar_ids
    self.last = {}

  def make(self, tid, nist_suite):
    def test(bits, n, *params):
      self.calls += 1
      if self.calls > 60:
        raise Runaway('scripted test called more than 60 times')
      q = self.q.get(tid) or []
      if q:
        h = q.pop(0)
        res = h['res'] if isinstance(h['res'], dict) else {}
        ins = h['ins'] or (not res and h['fin'] and self.rng.random() < 0.5)
      else:
        # beyond the model's behaviour (only reached if the code deviates or the
        # behaviour was cut at MaxRuns): a terminating result
        res = {nm: 0 for nm in self.names_of[tid]}
        ins = False
      self.last[tid] = (res, ins)
      if ins:
        raise nist_suite.InsufficientDataError('scripted')
      if tid in self.scalar_ids and set(res) == {'result'}:
        v = _pv(res['result'])
        return v if self.rng.random() < 0.7 or v not in (0.0, 1.0) else int(v)
      return [(k, _pv(e)) for k, e in sorted(res.items())]
    test.__name__ = 'Scripted%d' % tid
    test._tid = tid
    return test


def replay_behaviour(rts, nist_suite, sid, hist, mode, min_reps, tests, names_of, rng, p_fail=None):
  """Runs the real entry point with scripted tests; returns the records."""
  recs = [{'sid': sid, 'ev': 'Start', 'raised': 'none'}]
  sc = Scripted(hist, names_of, {2}, rng)
  fns = {t: sc.make(t, nist_suite) for t in tests}
  orig_tests = rts.TESTS
  orig_run = rts.TestStructure.Run

  def run_wrapper(self, bits, n):
    tid = getattr(self.test, '_tid', -1)
    raised = 'none'
    ret = None
    try:
      ret = orig_run(self, bits, n)
      return ret
    except BaseException as e:  # logged on the error path too
      raised = type(e).__name__
      raise
    finally:
      res, ins = sc.last.get(tid, ({}, False))
      names = sorted(self.state)
      recs.append({'sid': sid, 'ev': 'Run', 't': tid, 'insufficient': bool(ins),
                   'names': sorted(res) if not ins else [], 'exps': [res[k] for k in sorted(res)] if not ins else [],
                   'obs': {'names': names, 'states': [self.state[k].name for k in names],
                           'finished': bool(self.finished), 'runs': int(self.runs), 'ret': bool(ret),
                           'failed': bool(self.Failed())},
                   'raised': raised})
  rts.TESTS = [(fns[t], []) for t in tests]
  rts.TestStructure.Run = run_wrapper
  rec = {'sid': sid, 'ev': 'Return', 'obs': {}, 'raised': 'none'}
  try:
    if mode == 'source':
      ret = rts.TestSource(lambda n: 0, 64, significance_level_repeat=2.0 ** -R,
                           significance_level_fail=(p_fail or P_FAIL), log_level=0, min_repetitions=min_reps)
    else:
      ret = rts.TestBitString(0, 64, significance_level=2.0 ** -30, log_level=0)
    rec['obs'] = {'ret': bool(ret), 'ret_is_bool': isinstance(ret, bool)}
  except BaseException as e:  # pylint: disable=broad-except
    rec['raised'] = type(e).__name__
    rec['obs'] = {'ret': False, 'ret_is_bool': False}
  finally:
    rts.TESTS = orig_tests
    rts.TestStructure.Run = orig_run
  recs.append(rec)
  return recs


def _hist_from_sim(states):
  last = states[-1][1]
  h = tlc.tla_value(last['hist'])
  out = []
  for x in h:
    res = x['res'] if isinstance(x['res'], dict) else {}
    out.append({'t': x['t'], 'res': res, 'fin': x['fin'], 'ins': x['ins']})
  return out


def rule_part(ctx):
  shim.install()
  from paranoid_crypto.lib.randomness_tests import random_test_suite as rts, nist_suite
  check_constants()
  names_of = {1: ['a', 'b'], 2: ['result']}
  # 1. model checking
  cfgs = ['MC_TS_bit.cfg', 'MC_TS_quick.cfg', 'MC_TS_close.cfg'] if ctx.quick else ['MC_TS_bit.cfg', 'MC_TS_quick.cfg', 'MC_TS_close.cfg', 'MC_TS_source1.cfg',
                                                                'MC_TS_source2.cfg']
  for c in cfgs:
    r = tlc.expect_holds('MC_TS', c, require_actions=('StepRun', 'EndRound'), timeout=1800)
    ctx.note_mc(r, 'TestStructure/%s' % c)
  # 2. scenarios: exhaustive single-structure histories + simulated two-structure behaviours
  plans = []  # (trace cfg, mode, min_reps, tests, list of (sid, hist))
  def gen(cfg):
    g = tlc.run('GEN_TS', cfg, workers=1, coverage=False)
    if g.violated:
      raise tlc.MachineryError('generator %s: %s %s' % (cfg, g.violated, g.error_text))
    ctx.note_mc(g, 'MC_TS/%s history enumeration' % cfg)
    seen, out = set(), []
    for s in g.prints.get('HIST', []):
      key = json.dumps(s, sort_keys=True)
      if key in seen:
        continue
      seen.add(key)
      hist = [{'t': h['t'], 'res': h['res'] if isinstance(h['res'], dict) else {}, 'fin': h['fin'], 'ins': h['ins']}
              for h in s['hist']]
      out.append(hist)
    if not out:
      raise tlc.MachineryError('no history from %s' % cfg)
    return out
  for m in (1, 2):
    hs = gen('GEN_TS_scalar%d.cfg' % m)
    if ctx.quick:
      hs = ctx.rng.sample(hs, min(len(hs), 700))
    plans.append(('TSTrace_scalar%d.cfg' % m, 'source', m, [2], [('sc%d-%05d' % (m, i), h) for i, h in enumerate(hs)]))
    hn = gen('GEN_TS_named%d.cfg' % m)
    hn = ctx.rng.sample(hn, min(len(hn), 700 if ctx.quick else 6000))
    plans.append(('TSTrace_named%d.cfg' % m, 'source', m, [1], [('nm%d-%05d' % (m, i), h) for i, h in enumerate(hn)]))
  # fail level close to the repeat level: the region where "below the fail level" and "above the combined repeat level" overlap
  hc = gen('GEN_TS_close.cfg')
  hc = ctx.rng.sample(hc, min(len(hc), 1500 if ctx.quick else 20000))
  plans.append(('TSTrace_close.cfg', 'source', 1, [2], [('cl-%05d' % i, h) for i, h in enumerate(hc)], P_FAIL_CLOSE))
  hb = gen('GEN_TS_bit.cfg')
  plans.append(('TSTrace_bit.cfg', 'bitstring', 1, [1, 2], [('bit-%05d' % i, h) for i, h in enumerate(hb)]))
  simdir = os.path.join(tlc.BUILD, 'sim-C13-%d' % os.getpid())
  for m in (1, 2):
    shutil.rmtree(simdir, ignore_errors=True)
    os.makedirs(simdir)
    num = 400 if ctx.quick else 4000
    r = tlc.run('GEN_TS', 'SIM_TS_source%d.cfg' % m, workers=1, coverage=False,
                simulate='file=%s/tr,num=%d' % (simdir, num), depth=20, seed=ctx.seed + m)
    if r.violated:
      raise tlc.MachineryError('simulate: %s' % r.error_text)
    beh = tlc.parse_sim_files(simdir)
    if len(beh) < num // 2:
      raise tlc.MachineryError('simulate produced %d behaviours' % len(beh))
    ctx.checker_cmds.append(r.cmd)
    plans.append(('TSTrace_source%d.cfg' % m, 'source', m, [1, 2],
                  [('sim%d-%s' % (m, name), _hist_from_sim(states)) for name, states in beh if states]))
    shutil.rmtree(simdir, ignore_errors=True)
  # 3. replay + 4. validate
  for plan in plans:
    cfg, mode, m, tests, items = plan[:5]
    pf = plan[5] if len(plan) > 5 else None
    recs = []
    for sid, hist in items:
      if ctx.only_sid and sid != ctx.only_sid:
        continue
      recs += replay_behaviour(rts, nist_suite, sid, hist, mode, m, tests, names_of, ctx.rng, pf)
    if not recs:
      continue
    ctx.replayed += len(items)
    ctx.sample({'cfg': cfg, 'hist': items[0][1], 'records': recs[:3]}, limit=5)
    c, fails, tr = tlc.validate_trace('TSTrace', cfg, recs, 'C13')
    ctx.validated += c
    ctx.note_mc(tr, 'TSTrace/%s' % cfg)
    bysid = {}
    for rr in recs:
      bysid.setdefault(rr['sid'], []).append(rr)
    hists = dict(items)
    ctx.trace_failures(fails, {s: {'hist': hists[s], 'records': bysid[s]} for s in bysid},
                       lambda rec, f: {'cfg': cfg, 'mode': mode, 'min_reps': m, 'hist': rec['hist']})
    ctx.distinct.update(bysid)


def run(ctx):
  ctx.trust('TLC 1.8 + CommunityModules', 'mpmath series for the FailAt constants of MC_TS.tla (checked on every run)',
            'harness wrapper around TestStructure.Run (records after return, error path included)')
  ctx.assume('p-values 2^-e make the Fisher rule exact integer arithmetic; ties Sum = k*R reached by unequal exponents '
             '(two different float summations in the code) admit both PASSED and UNDECIDED')
  from pv import c13_generators
  handle = c13_generators.start(ctx)          # real generators run in a background pool meanwhile
  rule_part(ctx)
  c13_generators.finish(ctx, handle)


def selftest(ctx):
  shim.install()
  from paranoid_crypto.lib.randomness_tests import random_test_suite as rts, nist_suite
  import random
  hist = [{'t': 2, 'res': {'result': 8}, 'fin': False, 'ins': False},
          {'t': 2, 'res': {'result': 0}, 'fin': True, 'ins': False}]
  recs = replay_behaviour(rts, nist_suite, 'good', hist, 'source', 1, [2], {2: ['result']}, random.Random(1))
  bad = json.loads(json.dumps(recs))
  for r in bad:
    r['sid'] = 'corrupt'
  bad[1]['obs']['states'] = ['PASSED']
  drop = json.loads(json.dumps(recs))
  for r in drop:
    r['sid'] = 'dropped'
  del drop[2]
  _, fails, _ = tlc.validate_trace('TSTrace', 'TSTrace_scalar1.cfg', recs + bad + drop, 'C13self')
  got = sorted((f['sid'], f['clause']) for f in fails)
  print(got)
  assert ('corrupt', 'StateRule') in got and any(s == 'dropped' for s, _ in got) and not any(s == 'good' for s, _ in got), got
  print('selftest ok')
