"""C08 — ECDSA signatures with biased or predictable nonces reveal the signing key."""
import ctypes
import hashlib
import json
import multiprocessing as mp
import random
import traceback

from pv import art
from pv import checks
from pv import gen
from pv import shim
from pv import tlc

CHECK_OF = {'msb': 'CheckNonceMSB', 'prefix': 'CheckNonceCommonPrefix', 'postfix': 'CheckNonceCommonPostfix',
            'general': 'CheckNonceGeneralized', 'u2f': 'CheckCr50U2f', 'lcg': 'CheckLCGNonceGMP'}


class MPZ(ctypes.Structure):
  _fields_ = [('alloc', ctypes.c_int), ('size', ctypes.c_int), ('d', ctypes.c_void_p)]


def gmp_stream(size, seed, bits, count):
  """count values of mpz_urandomb(bits) from gmp_randinit_lc_2exp_size(size) - THE generator the property names."""
  try:
    lib = ctypes.CDLL('libgmp.so.10')
  except OSError:
    return None
  st = ctypes.create_string_buffer(256)
  if not lib.__gmp_randinit_lc_2exp_size(st, ctypes.c_ulong(size)):
    return None
  lib.__gmp_randseed_ui(st, ctypes.c_ulong(seed))
  z = MPZ()
  lib.__gmpz_init(ctypes.byref(z))
  lib.__gmpz_get_str.restype = ctypes.c_char_p
  out = []
  for _ in range(count):
    lib.__gmpz_urandomb(ctypes.byref(z), st, ctypes.c_ulong(bits))
    out.append(int(lib.__gmpz_get_str(None, 16, ctypes.byref(z)), 16))
  return out


def nonce_gen(cls, rc, bias, rng, count):
  """count nonces of the bias class for the curve order rc.n."""
  n = rc.n
  L = n.bit_length()
  out = []
  if cls == 'lcg':
    vals = gmp_stream(bias, rng.randrange(1, 2 ** 31), L, 3 * count + 8)
    if vals is None:
      return None
    return [v for v in vals if 0 < v < n][:count]
  pre = rng.getrandbits(bias) if bias else 0
  post = rng.getrandbits(bias) if bias else 0
  mult = rng.randrange(2, 2 ** 64)
  minv = pow(mult, -1, n)
  while len(out) < count:
    if cls == 'msb':
      k = rng.getrandbits(L - bias)
    elif cls == 'prefix':
      k = (pre << (L - bias - 1)) | rng.getrandbits(L - bias - 1)
    elif cls == 'postfix':
      k = (rng.getrandbits(L - bias - 1) << bias) | post
    elif cls == 'general':
      k = (rng.getrandbits(L - bias) * minv) % n
    elif cls == 'u2f':
      k = int.from_bytes(b''.join(bytes([rng.getrandbits(8)]) * 4 for _ in range(L // 32)), 'big')
    elif cls == 'healthy':
      k = rng.randrange(1, n)
    else:
      raise ValueError(cls)
    if 0 < k < n:
      out.append(k)
  return out


def lcg_models(curve_type):
  """[sample_size, min_signatures, sliding_window_size] of every shipped GMP model of the curve, in table order."""
  from paranoid_crypto.lib import lcg_constants as lc
  return [[int(c['sample_size']), int(c['min_signatures']), int(c['sliding_window_size'])] for c in lc.CONSTANT_FACTORY
          if c['curve'] == curve_type and c['lcg'] == lc.LcgName.GMP]


def lcg_needed(curve_type, size):
  from paranoid_crypto.lib import lcg_constants as lc
  for c in lc.CONSTANT_FACTORY:
    if c['curve'] == curve_type and c['lcg'] == lc.LcgName.GMP and c['lcg_output_size'] == size:
      return int(c['sliding_window_size'])
  return 0


def build_batch(cell, inst):
  rng = random.Random(hashlib.sha1(repr((sorted(cell.items()), inst)).encode()).hexdigest())
  nc = gen.named_curves()
  groups = []     # (descriptor, [Art])
  def add_group(cls, curve, bias, count, tag):
    ct, _, rc = nc[curve]
    d = rng.randrange(2 ** (rc.n.bit_length() - 8), rc.n)
    ks = nonce_gen(cls, rc, bias, rng, count)
    if ks is None:
      return False
    hm = cell.get('hash', 'sha256')
    sigs = [gen.ecdsa_sig(rng, '%s-%d' % (tag, i), curve, d, k, cls, hashname=(hm if (i == 0 or hm != 'sha512z') else 'sha512'))
            for i, k in enumerate(ks)]
    desc = {'curvebits': rc.n.bit_length(), 'cls': cls, 'bias': bias, 'uniq': len(sigs), 'known': True,
            'needed': lcg_needed(ct, bias) if cls == 'lcg' else 0, 'curve': curve}
    groups.append((desc, sigs))
    return True
  cls, curve, bias = cell['cls'], cell['curve'], cell['bias']
  count = cell['count']
  if cls == 'lcg':
    need = lcg_needed(nc[curve][0], bias)
    off = cell['count']
    if not need:
      count = 4
    elif off == 99:
      from paranoid_crypto.lib import lcg_constants as lc
      mins = [int(c['min_signatures']) for c in lc.CONSTANT_FACTORY if c['curve'] == nc[curve][0] and c['lcg'] == lc.LcgName.GMP
              and c['lcg_output_size'] == bias]
      count = max(1, mins[0] - 1)
    else:
      count = max(need, 2) + off
  if not add_group(cls, curve, bias, count, 'w'):
    return None
  other = 'secp384r1' if curve != 'secp384r1' else 'secp256r1'
  if cell['partner'] == 'healthy-same-curve':
    add_group('healthy', curve, 0, 5, 'h')
  elif cell['partner'] == 'healthy-other-curve':
    add_group('healthy', other, 0, 5, 'h')
  elif cell['partner'] == 'biased-other-issuer':
    add_group(cls, curve, bias, cell['count'], 'v')
    add_group('healthy', curve, 0, 3, 'h')
  # order of the batch
  lists = [list(s) for _, s in groups]
  gid_of = {}
  for gi, (_, s) in enumerate(groups):
    for a in s:
      gid_of[a.aid] = gi + 1
  if cell['order'] == 'grouped':
    batch = [a for l in lists for a in l]
  elif cell['order'] == 'reversed':
    batch = [a for l in reversed(lists) for a in reversed(l)]
  else:
    batch = []
    while any(lists):
      for l in lists:
        if l:
          batch.append(l.pop(0))
  # exact duplicates of signatures of the first group
  for j in range(cell['dups']):
    src = groups[0][1][j % len(groups[0][1])]
    p = gen.pbmod().ECDSASignature()
    p.CopyFrom(src.proto)
    dup = checks.Art(src.aid + '-dup%d' % j, 'ecdsa', p, src.cls, **dict(src.meta))
    gid_of[dup.aid] = 1
    batch.insert(rng.randrange(len(batch) + 1), dup)
  return [g for g, _ in groups], batch, gid_of


def run_cell(args):
  cell, inst = args
  sid = 'C08-%s-%s-b%d-c%d-%s-%s-d%d-i%d%s' % (cell['cls'], cell['curve'], cell['bias'], cell['count'], cell['partner'], cell['order'],
                                              cell['dups'], inst, '' if cell.get('hash', 'sha256') == 'sha256' else '-' + cell['hash'])
  try:
    shim.install()
    from paranoid_crypto.lib import paranoid  # noqa
    from paranoid_crypto.lib import ecdsa_sig_checks as esc
    from paranoid_crypto.lib import hidden_number_problem as hnp
    built = build_batch(cell, inst)
    if built is None:
      return sid, None, 'skipped: libgmp not loadable'
    groups, batch, gid_of = built
    name = CHECK_OF[cell['cls']]
    chk = getattr(esc, name)()
    calls = []
    orig = getattr(hnp, 'HiddenNumberProblem', None)
    if orig is not None:
      def wrapper(a, b, *rest, **kw):
        calls.append(len(a))
        return orig(a, b, *rest, **kw)
      hnp.HiddenNumberProblem = wrapper
    lcgcalls = []
    orig2 = getattr(hnp, 'HiddenNumberProblemWithPrecomputation', None)
    if orig2 is not None:
      def wrapper2(a0, b0, n_, constants, *rest, **kw):
        lcgcalls.append([len(a0), len(constants)])
        return orig2(a0, b0, n_, constants, *rest, **kw)
      hnp.HiddenNumberProblemWithPrecomputation = wrapper2
    nc_ = gen.named_curves()
    models = [lcg_models(nc_[g['curve']][0]) if (name == 'CheckLCGNonceGMP' and g['curve'] in nc_) else [] for g in groups]
    rec = {'sid': sid, 'ev': 'nonce', 'args': {'check': name, 'groups': groups, 'models': models, 'sigs': [{'g': gid_of[a.aid]} for a in batch]},
           'obs': {}, 'raised': 'none', 'scenario': {'cell': cell, 'instance': inst}}
    try:
      chk.Check([a.proto for a in batch])
      flag, ok = [], []
      for a in batch:
        ti = checks.project(a)
        ent = [e for e in ti['entries'] if e['name'] == name]
        flag.append(bool(ent and ent[0]['result']))
        ok.append(ti['dlog'] == 'ok')
      rec['obs'] = {'flag': flag, 'dlog_ok': ok, 'calls': calls if orig is not None else [-1],
                    'lcgcalls': lcgcalls if (orig2 is not None and name == 'CheckLCGNonceGMP') else [[-1, -1]]}
    except Exception as e:  # pylint: disable=broad-except
      rec['raised'] = type(e).__name__
    finally:
      if orig is not None:
        hnp.HiddenNumberProblem = orig
      if orig2 is not None:
        hnp.HiddenNumberProblemWithPrecomputation = orig2
    return sid, rec, None
  except Exception:  # pylint: disable=broad-except
    return sid, None, traceback.format_exc()


# ---------------------------------------------------------------- interleavings generated by TLC from SigPipeline.tla
LAYOUT_CURVE = {'X': 'secp256r1', 'Y': 'secp256r1', 'Z': 'secp256k1', 'V': 'secp256k1'}
LAYOUT_WEAK = ('X', 'V')
LAYOUT_BIAS = 200
_material = None


def layout_material():
  """The signatures of the four issuers (fixed catalogue seed): weak issuers have three nonces below 2^(256 - 200)."""
  global _material
  if _material is None:
    rng = random.Random('SigPipeline material')
    nc = gen.named_curves()
    _material = {}
    for iss, curve in sorted(LAYOUT_CURVE.items()):
      rc = nc[curve][2]
      d = rng.randrange(2 ** 250, rc.n)
      ks = [rng.randrange(1, 2 ** (256 - LAYOUT_BIAS)) if iss in LAYOUT_WEAK else rng.randrange(1, rc.n) for _ in range(3)]
      _material[iss] = [gen.ecdsa_sig(rng, '%s%d' % (iss, i), curve, d, k, 'msb' if iss in LAYOUT_WEAK else 'healthy') for i, k in enumerate(ks)]
  return _material


def run_layout(args):
  idx, seq, spec_flagged, name = args
  sid = 'C08-layout-%s-%s' % (''.join(seq), name)
  try:
    shim.install()
    from paranoid_crypto.lib import paranoid  # noqa
    from paranoid_crypto.lib import ecdsa_sig_checks as esc
    mat = layout_material()
    issuers = sorted(set(seq))
    cls = 'msb' if name == 'CheckNonceMSB' else 'prefix'
    groups = [{'curvebits': 256, 'cls': cls if iss in LAYOUT_WEAK else 'healthy', 'bias': LAYOUT_BIAS if iss in LAYOUT_WEAK else 0,
               'uniq': seq.count(iss), 'known': True, 'needed': 0, 'curve': LAYOUT_CURVE[iss]} for iss in issuers]
    used = {iss: 0 for iss in issuers}
    batch = []
    for iss in seq:
      src = mat[iss][used[iss]]
      used[iss] += 1
      pr = gen.pbmod().ECDSASignature()
      pr.CopyFrom(src.proto)
      batch.append((checks.Art('%s-%d' % (src.aid, len(batch)), 'ecdsa', pr, src.cls, **dict(src.meta)), issuers.index(iss) + 1))
    rec = {'sid': sid, 'ev': 'nonce', 'args': {'check': name, 'groups': groups, 'models': [[] for _ in groups], 'sigs': [{'g': g} for _, g in batch],
                                                'spec_flagged': list(spec_flagged)},
           'obs': {}, 'raised': 'none', 'scenario': {'cell': {'cls': 'layout', 'curve': 'secp256r1+secp256k1', 'bias': LAYOUT_BIAS, 'count': len(seq),
                                                             'partner': 'interleaved', 'order': ''.join(seq), 'dups': 0}, 'instance': 0}}
    try:
      chk = getattr(esc, name)()
      checks.record_call  # (deadline helper lives there)
      checks._with_deadline(lambda: chk.Check([a.proto for a, _ in batch]))
      flag, ok = [], []
      for a, _ in batch:
        ti = checks.project(a)
        ent = [e for e in ti['entries'] if e['name'] == name]
        flag.append(bool(ent and ent[0]['result']))
        ok.append(ti['dlog'] == 'ok')
      rec['obs'] = {'flag': flag, 'dlog_ok': ok, 'calls': [-1], 'lcgcalls': [[-1, -1]]}
    except Exception as e:  # pylint: disable=broad-except
      rec['raised'] = type(e).__name__
    return sid, rec, None
  except Exception:  # pylint: disable=broad-except
    return sid, None, traceback.format_exc()


def layout_jobs(ctx):
  """TLC enumerates every interleaving (SigPipeline.tla) and the verdict of every position; the seeded confusion must be refuted."""
  bug = tlc.mc('MC_SigPipeline', 'MC_SigPipeline_bug.cfg', workers=1)
  if bug.violated != 'ExactlyTheWeak':
    raise tlc.MachineryError('SigPipeline: storing results by batch position should be refuted by TLC (got %r)' % bug.violated)
  ctx.notes['design_level_counterexample_sigpipeline'] = 'MC_SigPipeline_bug.cfg: per-curve indexes used as batch positions violate ExactlyTheWeak'
  quick = tlc.expect_holds('MC_SigPipeline', 'MC_SigPipeline_quick.cfg', workers=1)
  ctx.note_mc(quick, 'SigPipeline/MC_SigPipeline_quick: every interleaving of X x3 (weak), Y x2, Z x1 (other curve)')
  full = tlc.expect_holds('MC_SigPipeline', 'MC_SigPipeline_full.cfg', workers=1, heap='4g')
  ctx.note_mc(full, 'SigPipeline/MC_SigPipeline_full: every interleaving of X x3, Y x2, Z x1, V x3 (two weak issuers on two curves)')
  def uniq(r):
    out = {}
    for l in r.prints.get('LAYOUT', []):
      out[''.join(l['seq'])] = l
    return [out[k] for k in sorted(out)]
  lq, lf = uniq(quick), uniq(full)
  if len(lq) != 60 or len(lf) != 5040:
    raise tlc.MachineryError('SigPipeline: expected 60 / 5040 layouts, got %d / %d' % (len(lq), len(lf)))
  if ctx.quick:
    lf = ctx.rng.sample(lf, 240)
  jobs = []
  for i, l in enumerate(lq + lf):
    names = ['CheckNonceMSB', 'CheckNonceCommonPrefix'] if (not ctx.quick or i % 4 == 0) else ['CheckNonceMSB']
    for nm in names:
      jobs.append((i, list(l['seq']), [bool(x) for x in l['flagged']], nm))
  return jobs


def run(ctx):
  ctx.trust('TLC 1.8', 'pv.gen reference signer (certified by TLC on small curves in C09)', 'pv.checks.project (reference multiplication of the recorded key)',
            'system libgmp through ctypes for the truncated-LCG nonces', 'harness wrapper around hidden_number_problem.HiddenNumberProblem (list lengths only)')
  ctx.assume('SolverFinds: success of lattice reduction on the documented margin is what the property claims; catalogue instances '
             '(seed derived from the cell)')
  ctx.assume('"as many consecutive signatures as the shipped model declares sufficient" is read as sliding_window_size (min_signatures is '
             'announced as unstable by the constants file)')
  r = tlc.expect_holds('HnpWindows', 'MC_Hnp.cfg')
  ctx.note_mc(r, 'HnpWindows/MC_Hnp: window passes partition the unique list for every n <= 260, whole group seen in one call up to 120, one call up to 24')
  g = tlc.run('HnpGrid', 'HnpGrid_%s.cfg' % ('quick' if ctx.quick else 'thorough'), workers=1, coverage=False)
  if g.violated:
    raise tlc.MachineryError('HnpGrid: %s' % g.error_text)
  ctx.note_mc(g, 'HnpGrid layout enumeration')
  cells = list({json.dumps(c, sort_keys=True): c for c in g.prints.get('CELL', [])}.values())
  if not cells:
    raise tlc.MachineryError('HnpGrid produced no cell')
  # every LCG model the library ships (curve x generator size), at exactly the number of signatures the model declares sufficient
  shim.install()
  from paranoid_crypto.lib import lcg_constants as lc
  nc_ = gen.named_curves()
  name_of = {v[0]: k for k, v in nc_.items()}
  have = {(c['curve'], c['bias'], c['count']) for c in cells if c['cls'] == 'lcg'}
  for m_ in lc.CONSTANT_FACTORY:
    if m_['lcg'] == lc.LcgName.GMP and m_['curve'] in name_of:
      for off in ((0,) if ctx.quick else (0, 3)):
        key = (name_of[m_['curve']], int(m_['lcg_output_size']), off)
        if key not in have:
          have.add(key)
          cells.append({'cls': 'lcg', 'curve': key[0], 'bias': key[1], 'count': off, 'partner': 'none', 'order': 'grouped', 'dups': 0, 'hash': 'sha256'})
  insts = 1 if ctx.quick else 2
  jobs = [(c, i) for c in cells for i in range(insts)]
  if ctx.only_sid:
    jobs = [j for j in jobs if ctx.only_sid.startswith('C08-%s-%s-b%d-c%d-%s-%s-d%d-i%d' % (
        j[0]['cls'], j[0]['curve'], j[0]['bias'], j[0]['count'], j[0]['partner'], j[0]['order'], j[0]['dups'], j[1]))]
  mpctx = mp.get_context('fork')
  from pv import proc
  ljobs = layout_jobs(ctx)
  if ctx.only_sid:
    ljobs = [j for j in ljobs if ctx.only_sid == 'C08-layout-%s-%s' % (''.join(j[1]), j[3])]
  results = list(proc.imap_unordered(run_cell, jobs, procs=15, chunk=2))
  results += list(proc.imap_unordered(run_layout, ljobs, procs=15, chunk=12))
  ctx.notes['interleavings_replayed'] = len(ljobs)
  recs = []
  for sid, rec, err in results:
    if err and err.startswith('skipped'):
      ctx.skip('%s: %s' % (sid, err))
    elif err:
      raise tlc.MachineryError('cell %s crashed in the harness:\n%s' % (sid, err))
    else:
      recs.append(rec)
  ctx.replayed = len(recs)
  ctx.notes['cells'] = len(cells)
  for x in recs[:3]:
    ctx.sample({'sid': x['sid'], 'groups': x['args']['groups'], 'n_sigs': len(x['args']['sigs']), 'obs_calls': x['obs'].get('calls'),
                'flagged': sum(x['obs'].get('flag', []))})
  c, fails, trs = tlc.validate_trace_parallel('HnpTrace', 'HnpTrace.cfg', recs, 'C08', jobs=8, timeout=3600)
  ctx.note_mc(trs[0], 'HnpTrace (first of %d chunks)' % len(trs))
  ctx.validated = c
  by = {x['sid']: x for x in recs}
  def det(rec, f):
    cell = rec['scenario']['cell']
    d = {'check': rec['args']['check'], 'groups': rec['args']['groups'], 'raised': rec['raised'], 'instance': rec['scenario']['instance'],
         'flagged': rec['obs'].get('flag'), 'calls': rec['obs'].get('calls')}
    d.update(cell)
    g0 = rec['args']['groups'][0]
    d['times_margin_x10'] = (10 * g0['uniq'] * g0['bias']) // (2 * g0['curvebits']) if g0['bias'] else 0
    return d
  ctx.trace_failures(fails, by, det)
  ctx.distinct = set(by)


def selftest(ctx):
  cell = {'cls': 'msb', 'curve': 'secp256r1', 'bias': 64, 'count': 8, 'partner': 'healthy-same-curve', 'order': 'roundrobin', 'dups': 0}
  sid, rec, err = run_cell((cell, 0))
  assert err is None, err
  bad = json.loads(json.dumps(rec))
  bad['sid'] = 'corrupt'
  bad['obs']['flag'][0] = False
  bad2 = json.loads(json.dumps(rec))
  bad2['sid'] = 'dropped-call'
  bad2['obs']['calls'] = bad2['obs']['calls'][:-1]
  _, fails, _ = tlc.validate_trace('HnpTrace', 'HnpTrace.cfg', [rec, bad, bad2], 'C08self')
  got = sorted((f['sid'], f['clause']) for f in fails)
  assert got == [('corrupt', 'EverySignatureOfIssuerFlagged'), ('dropped-call', 'WindowSizes')], got
  print('selftest ok', got)
