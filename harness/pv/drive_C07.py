"""C07 — healthy keys and signatures are never accused (alone or next to weak neighbours)."""
from pv import drive_C16
from pv import tlc

DIRECTED = [
    ('rsa', 'population', {'s%d' % i: c for i, c in enumerate(['healthy', 'healthy', 'healthy3072', 'healthy4096', 'healthy', 'healthy3072'], 1)},
     [{'all': True, 'check': 'ALL', 'batch': ['s1', 's2', 's3', 's4', 's5', 's6']}]),
    ('ec', 'all-curves', {'s1': 'healthy224', 's2': 'healthy521', 's3': 'healthyk1', 's4': 'healthybp256', 's5': 'healthybp384', 's6': 'healthybp512'},
     [{'all': True, 'check': 'ALL', 'batch': ['s1', 's2', 's3', 's4', 's5', 's6']}]),
    # healthy artifacts BEHIND weak ones and behind artifacts of another curve (result entries and per-curve indices are per artifact)
    ('rsa', 'behind-nm1-pair', {'s1': 'healthy', 's2': 'nm1A', 's3': 'nm1B', 's4': 'healthy', 's5': 'healthy3072'},
     [{'all': False, 'check': 'CheckGCDN1', 'batch': ['s1', 's2', 's3', 's4', 's5']}, {'all': True, 'check': 'ALL', 'batch': ['s2', 's3', 's4', 's5', 's1']}]),
    ('rsa', 'behind-shared-pair', {'s1': 'healthy', 's2': 'sharedA', 's3': 'sharedB', 's4': 'healthy', 's5': 'healthy3072'},
     [{'all': False, 'check': 'CheckGCD', 'batch': ['s1', 's2', 's3', 's4', 's5']}, {'all': True, 'check': 'ALL', 'batch': ['s2', 's3', 's4', 's5', 's1']}]),
    ('rsa', 'padded-encodings', {'s1': 'healthypad', 's2': 'healthy', 's3': 'healthypad', 's4': 'exponent'},
     [{'all': True, 'check': 'ALL', 'batch': ['s1', 's2']}, {'all': False, 'check': 'CheckExponents', 'batch': ['s4', 's3', 's1']},
      {'all': False, 'check': 'CheckSizes', 'batch': ['s3']}]),
    ('rsa', 'behind-each-weak-family', {'s1': 'small', 's2': 'healthy', 's3': 'fermat', 's4': 'healthy3072', 's5': 'exponent', 's6': 'healthy'},
     [{'all': True, 'check': 'ALL', 'batch': ['s1', 's2', 's3', 's4', 's5', 's6']}]),
    ('ec', 'behind-close-pair', {'s1': 'healthy', 's2': 'closeA', 's3': 'closeB', 's4': 'healthy', 's5': 'healthy384', 's6': 'weakprivate'},
     [{'all': False, 'check': 'CheckECKeySmallDifference', 'batch': ['s1', 's2', 's3', 's4', 's5']},
      {'all': False, 'check': 'CheckWeakECPrivateKey', 'batch': ['s6', 's1', 's5', 's4']},
      {'all': True, 'check': 'ALL', 'batch': ['s5', 's6', 's2', 's3', 's4', 's1']}]),
    ('ecdsa', 'behind-other-curve-and-weak', {'s1': 'healthyk1', 's2': 'healthyA', 's3': 'msbA', 's4': 'healthyB', 's5': 'healthy384'},
     [{'all': False, 'check': 'CheckNonceMSB', 'batch': ['s1', 's2', 's3']},
      {'all': True, 'check': 'ALL', 'batch': ['s5', 's1', 's2', 's3', 's4']},
      {'all': False, 'check': 'CheckNonceCommonPrefix', 'batch': ['s1', 's3', 's2', 's4']}]),
    # the searches share one table per curve: a key that occurs twice stays unaccused after a search for weak private keys; issuer keys with
    # the coordinates of another curve's (invalid) key keep their own verdict whichever comes first
    ('ec', 'duplicates-after-a-private-key-search', {'s1': 'healthy', 's2': 'healthy', 's3': 'copy1', 's4': 'farA', 's5': 'farB'},
     [{'all': False, 'check': 'CheckWeakECPrivateKey', 'batch': ['s1', 's2']}, {'all': False, 'check': 'CheckECKeySmallDifference', 'batch': ['s1', 's2', 's3']},
      {'all': False, 'check': 'CheckECKeySmallDifference', 'batch': ['s4', 's3', 's5', 's1']}]),
    ('ecdsa', 'same-coordinates-other-curve-first', {'s1': 'healthyA', 's2': 'samexy', 's3': 'healthyB'},
     [{'all': False, 'check': 'CheckIssuerKey', 'batch': ['s2', 's1', 's3'], 'keep_order': True},
      {'all': True, 'check': 'ALL', 'batch': ['s2', 's3', 's1'], 'keep_order': True}]),
    ('ecdsa', 'behind-u2f-issuer', {'s1': 'u2fA', 's2': 'healthyA', 's3': 'healthyk1', 's4': 'healthyB'},
     [{'all': False, 'check': 'CheckCr50U2f', 'batch': ['s1', 's2', 's3', 's4']}, {'all': True, 'check': 'ALL', 'batch': ['s3', 's1', 's2']}]),
    ('ecdsa', 'mixed', {'s1': 'healthyA', 's2': 'msbA', 's3': 'healthy384', 's4': 'healthyB'},
     [{'all': True, 'check': 'ALL', 'batch': ['s1', 's2', 's3', 's4']}]),
]


def population_worker(args):
  """One batch of fresh healthy RSA keys through the entry point."""
  idx, count, seed = args
  import random
  from pv import checks, gen, scen
  try:
    rng = random.Random('C07-pop-%d-%d' % (idx, seed))
    paranoid, registry, entry = scen._registry('rsa', True)
    batch = [gen.rsa_healthy(rng, 'p%d-%d' % (idx, j), rng.choice([2048, 2048, 3072])) for j in range(count)]
    crit = gen.rsa_joint_crit(batch)
    rec = checks.record_call('C07-population-%d' % idx, 'rsa', batch, lambda: entry([a.proto for a in batch]), None, crit)
    rec['scenario'] = {'classes': 'healthy population', 'call': {'all': True, 'n': count}}
    return rec, None
  except Exception:  # pylint: disable=broad-except
    import traceback
    return None, traceback.format_exc()


def run(ctx):
  ctx.trust('TLC 1.8', 'pv.gen: healthy = independent uniformly random primes / private keys / nonces from the seeded generator', 'pv.checks.project')
  ctx.assume('design false-positive rate <= 2^-37 per key: any observed accusation of a healthy artifact is reported as a violation, for any seed')
  ctx.assume('quick tier: small-difference check built with max_diff = 2^12; thorough tier: default singletons')
  r = tlc.expect_holds('MC_Checks', 'MC_Checks.cfg', timeout=3600)
  ctx.note_mc(r, 'Checks/MC_Checks: HealthyNeverAccused, UntouchedOutsideBatch over all histories')
  q = ctx.quick
  plans = [('rsa', 'GEN_Checks_rsahealthy.cfg', 8 if q else 200, 3), ('ec', 'GEN_Checks_echealthy.cfg', 4 if q else 60, 3),
           ('ecdsa', 'GEN_Checks_ecdsahealthy.cfg', 3 if q else 30, 3)]
  saved = drive_C16.DIRECTED
  drive_C16.DIRECTED = DIRECTED
  try:
    recs = drive_C16.replay_and_validate(ctx, plans, 'C07', pre_annotate=False)
  finally:
    drive_C16.DIRECTED = saved
  # a population of fresh healthy RSA keys (a false-positive rate of 1 in 64 is seen with probability > 99 %)
  import multiprocessing as mp
  nb, per = (16, 20) if ctx.quick else (100, 20)
  from pv import proc
  res = list(proc.imap_unordered(population_worker, [(i, per, ctx.seed) for i in range(nb)], procs=15))
  pop = []
  for rec, err in res:
    if err:
      raise tlc.MachineryError('population worker crashed:\n%s' % err)
    pop.append(rec)
  if ctx.only_sid:
    pop = [x for x in pop if x['sid'] == ctx.only_sid]
  if pop:
    c, fails, trs = tlc.validate_trace_parallel('ChecksTrace', 'ChecksTrace.cfg', pop, 'C07pop', jobs=8, timeout=3600)
    ctx.validated += c
    ctx.replayed += len(pop)
    by = {x['sid']: x for x in pop}
    ctx.trace_failures(fails, by, lambda rec, f: {'kind': 'rsa', 'population': True, 'ret': rec['ret'], 'raised': rec['raised'],
                                                  'accused': [(a['id'], [e['name'] for e in a['after']['entries'] if e['result']],
                                                               format(0, 'x')) for a in rec['arts'] if a['after']['weak']][:5]})
    ctx.distinct.update(by)
    recs = recs + pop
  # healthy keys on the boundary of the ROCA fingerprint (a power of 65537 modulo all of the 39 primes but one): the residue
  # criterion of Roca.tla says "not ROCA" for each of them
  from pv import drive_C06, proc
  near = drive_C06.near_roca_keys(ctx.rng)
  nres = list(proc.imap_unordered(drive_C06.rsa_worker, [(t, n_, e_, nb_, False, False) for t, n_, e_, nb_ in near], procs=15, chunk=2))
  nrecs = []
  for rec, err in nres:
    if err:
      raise tlc.MachineryError('near-ROCA worker crashed:\n%s' % err)
    rec['sid'] = rec['sid'].replace('C06-', 'C07-')
    nrecs.append(rec)
  if ctx.only_sid:
    nrecs = [x for x in nrecs if x['sid'] == ctx.only_sid]
  if nrecs:
    c, fails, trs = tlc.validate_trace_parallel('ChecksTrace', 'ChecksTrace.cfg', nrecs, 'C07roca', jobs=4, timeout=3600)
    ctx.validated += c
    ctx.replayed += len(nrecs)
    by = {x['sid']: x for x in nrecs}
    ctx.trace_failures(fails, by, lambda rec, f: {'kind': 'rsa', 'near_roca': rec.get('scenario'), 'raised': rec['raised'],
                                                  'entries': [(e['name'], e['result']) for e in rec['arts'][0]['after']['entries']]})
    ctx.distinct.update(by)
  ctx.notes['healthy_near_roca_keys'] = len(nrecs)
  ctx.notes['healthy_rsa_population'] = nb * per
  healthy = sum(1 for x in recs for a in x['arts'] if a['cls'].startswith('healthy'))
  ctx.notes['healthy_artifact_checks'] = healthy


def selftest(ctx):
  drive_C16.selftest(ctx)
