"""C07 — healthy keys and signatures are never accused (alone or next to weak neighbours)."""
from pv import drive_C16
from pv import tlc

DIRECTED = [
    ('rsa', 'population', {'s%d' % i: c for i, c in enumerate(['healthy', 'healthy', 'healthy3072', 'healthy4096', 'healthy', 'healthy3072'], 1)},
     [{'all': True, 'check': 'ALL', 'batch': ['s1', 's2', 's3', 's4', 's5', 's6']}]),
    ('ec', 'all-curves', {'s1': 'healthy224', 's2': 'healthy521', 's3': 'healthyk1', 's4': 'healthybp256', 's5': 'healthybp384', 's6': 'healthybp512'},
     [{'all': True, 'check': 'ALL', 'batch': ['s1', 's2', 's3', 's4', 's5', 's6']}]),
    ('ecdsa', 'mixed', {'s1': 'healthyA', 's2': 'msbA', 's3': 'healthy384', 's4': 'healthyB'},
     [{'all': True, 'check': 'ALL', 'batch': ['s1', 's2', 's3', 's4']}]),
]


def run(ctx):
  ctx.trust('TLC 1.8', 'pv.gen: healthy = independent uniformly random primes / private keys / nonces from the seeded generator', 'pv.checks.project')
  ctx.assume('design false-positive rate <= 2^-37 per key: any observed accusation of a healthy artifact is reported as a violation, for any seed')
  ctx.assume('quick tier: small-difference check built with max_diff = 2^12; thorough tier: default singletons')
  r = tlc.expect_holds('MC_Checks', 'MC_Checks.cfg', timeout=3600)
  ctx.note_mc(r, 'Checks/MC_Checks: HealthyNeverAccused, UntouchedOutsideBatch over all histories')
  q = ctx.quick
  plans = [('rsa', 'GEN_Checks_rsahealthy.cfg', 8 if q else 200, 3), ('ec', 'GEN_Checks_echealthy.cfg', 4 if q else 60, 3),
           ('ecdsa', 'GEN_Checks_ecdsahealthy.cfg', 3 if q else 30, 3)]
  saved = drive_C16.DIRECTED
  drive_C16.DIRECTED = DIRECTED
  try:
    recs = drive_C16.replay_and_validate(ctx, plans, 'C07', pre_annotate=False)
  finally:
    drive_C16.DIRECTED = saved
  healthy = sum(1 for x in recs for a in x['arts'] if a['cls'].startswith('healthy'))
  ctx.notes['healthy_artifact_checks'] = healthy


def selftest(ctx):
  drive_C16.selftest(ctx)
