"""C15 — bit-sequence primitives match their definitions for every string and length."""
import json
import random

from pv import shim
from pv import tlc


def val(bits):
  return sum(b << i for i, b in enumerate(bits))


def tobits(v, n=None):
  n = v.bit_length() if n is None else n
  return [(v >> i) & 1 for i in range(n)]


def call(rec, fn, post):
  try:
    rec['obs'] = post(fn())
  except Exception as e:  # pylint: disable=broad-except
    rec['raised'] = type(e).__name__
  return rec


def records_for(u, bits, tag, ms, split_ms, scatter_ms, singles=True, wraps=(True, False), subseq=True):
  n = len(bits)
  v = val(bits)
  out = []
  def R(ev, **args):
    a = {'bits': bits}
    a.update(args)
    return {'sid': '%s-%s%s' % (tag, ev, ''.join('-%s%s' % (k[0], int(x) if isinstance(x, bool) else x) for k, x in sorted(args.items()))),
            'ev': ev, 'args': a, 'obs': {}, 'raised': 'none'}
  for m in ms:
    for w in wraps:
      out.append(call(R('freq', m=m, wrap=w), lambda: u.FrequencyCount(v, n, m, w), lambda x: {'counts': [int(c) for c in x]}))
      if subseq:
        out.append(call(R('subseq', m=m, wrap=w), lambda: list(u.SubSequences(v, n, m, w)), lambda x: {'values': [int(c) for c in x]}))
  for m in split_ms:
    out.append(call(R('split', m=m), lambda: u.SplitSequence(v, n, m), lambda x: {'blocks': [tobits(int(c), m) for c in x]}))
  for m in scatter_ms:
    out.append(call(R('scatter', m=m), lambda: u.Scatter(v, m), lambda x: {'parts': [tobits(int(c)) for c in x]}))
  if singles:
    out.append(call(R('runs'), lambda: u.Runs(v, n), lambda x: {'value': int(x)}))
    out.append(call(R('longest'), lambda: u.LongestRunOfOnes(v), lambda x: {'value': int(x)}))
    out.append(call(R('popcount'), lambda: u.BitCount(v), lambda x: {'value': int(x)}))
    out.append(call(R('reverse'), lambda: u.ReverseBits(v, n), lambda x: {'bits': tobits(int(x), n), 'overflow': int(x) >> n != 0}))
    out.append(call(R('bits'), lambda: u.Bits(v, n), lambda x: {'pm': [int(c) for c in x]}))
    for m in sorted(set([1, 2, 3, 9, n] + list(ms))):
      if 1 <= m <= max(n, 1):
        out.append(call(R('overlap', m=m), lambda: u.OverlappingRunsOfOnes(v, m), lambda x: {'value': int(x)}))
  return out


def rank_record(u, rows_bits, sid):
  rows = [sum(1 << c for c in r) for r in rows_bits]
  rec = {'sid': sid, 'ev': 'rank', 'args': {'rows': [sorted(r) for r in rows_bits]}, 'obs': {}, 'raised': 'none'}
  return call(rec, lambda: u.BinaryMatrixRank(rows), lambda x: {'value': int(x)})


def rank_cases(rng, quick):
  out = []
  shapes = [(0, 0), (1, 1), (3, 5), (5, 3), (31, 31), (32, 32), (49, 60), (50, 60), (50, 10), (64, 64)]
  shapes += [(255, 40), (256, 40)] if quick else [(255, 255), (256, 256), (300, 128), (1000, 64)]
  for rows, cols in shapes:
    for kind in ('random', 'zero', 'dup', 'deficient', 'identity'):
      if kind == 'random':
        m = [[c for c in range(cols) if rng.getrandbits(1)] for _ in range(rows)]
      elif kind == 'zero':
        m = [[] for _ in range(rows)]
      elif kind == 'dup':
        base = [[c for c in range(cols) if rng.getrandbits(1)] for _ in range(max(1, rows // 3))]
        m = [list(rng.choice(base)) for _ in range(rows)]
      elif kind == 'deficient':
        k = max(1, min(rows, cols) // 2)
        basis = [set(c for c in range(cols) if rng.getrandbits(1)) for _ in range(k)]
        m = []
        for _ in range(rows):
          acc = set()
          for b in basis:
            if rng.getrandbits(1):
              acc ^= b
          m.append(sorted(acc))
      else:
        m = [[i % cols] if cols else [] for i in range(rows)]
        rng.shuffle(m)
      out.append((m, 'rank-%dx%d-%s' % (rows, cols, kind)))
  return out


def build(quick, seed, only_sid):
  shim.install()
  from paranoid_crypto.lib.randomness_tests import util as u
  rng = random.Random(seed)
  recs = []
  exh = 8 if quick else 12
  for n in range(0, exh + 1):
    for v in range(1 << n):
      bits = tobits(v, n)
      ms = list(range(1, n + 1))
      recs += records_for(u, bits, 'e%d-%d' % (n, v), ms + ([n + 1] if n < 4 else []), list(range(1, n + 2)), [1, 2, 3, n + 1])
  # sampled 9..16 (quick) with all m
  for n in range(exh + 1, 17):
    for k in range(12 if quick else 60):
      bits = tobits(rng.getrandbits(n), n)
      recs += records_for(u, bits, 's%d-%d' % (n, k), list(range(1, n + 1)), list(range(1, n + 1)), [1, 2, 3, 5])
  # fast-path grid: both sides of 50 * 2^m < length, every residue mod 8
  grid = []
  for m in ([1, 2, 3, 4] if quick else [1, 2, 3, 4, 5, 6]):
    t = 50 * 2 ** m
    base = (t // 8) * 8
    for length in sorted(set([base - 8 + r for r in range(8)] + [base + r for r in range(17)] + [t - 1, t, t + 1, t + 2])):
      if length > m:
        grid.append((length, m))
  for length, m in grid:
    for cls in ('random', 'ones', 'periodic'):
      if cls == 'random':
        bits = tobits(rng.getrandbits(length), length)
      elif cls == 'ones':
        bits = [1] * length
      else:
        per = rng.choice([3, 5, 7, 9])
        pat = tobits(rng.getrandbits(per), per)
        bits = [pat[i % per] for i in range(length)]
      recs += records_for(u, bits, 'g%d-%d-%s' % (length, m, cls), [m], [], [], singles=False, subseq=(cls == 'random'))
  # long strings: block sizes 1..70, scatter, singles
  for length in ([1000, 4093, 4096] if quick else [1000, 4093, 4096, 8191, 16384, 65536]):
    bits = tobits(rng.getrandbits(length), length)
    # every block size up to 72 (each value around the machine-word sizes matters: the shift-and-mask path reads a window of bytes), then a sample
    bl = (list(range(1, 73)) if (not quick or length == 1000) else [1, 7, 8, 9, 16, 31, 32, 33, 57, 59, 61, 62, 63, 64, 65, 70]) + [100, 127, 128, 129, 255, 257]
    recs += records_for(u, bits, 'L%d' % length, [1, 2, 5] if length <= 8191 else [3], bl, [1, 2, 7, 32, 33], subseq=False)
    runs = [0] * length
    for _ in range(20):
      a = rng.randrange(length)
      for j in range(a, min(length, a + rng.choice([1, 2, 9, 33, 65, 130]))):
        runs[j] = 1
    recs += records_for(u, runs, 'Lr%d' % length, [], [], [], singles=True)
  for m, sid in rank_cases(rng, quick):
    recs.append(rank_record(u, m, sid))
  if only_sid:
    recs = [r for r in recs if r['sid'] == only_sid]
  return recs


def run(ctx):
  ctx.trust('TLC 1.8', 'int <-> 0/1 list conversion of the harness (val/tobits)')
  r = tlc.expect_holds('BitPrims', 'MC_BitPrims.cfg', timeout=1800)
  ctx.note_mc(r, 'BitPrims/MC_BitPrims: every string of length <= 10, definitions against second formulations', 'MaxLen=10')
  recs = build(ctx.quick, ctx.seed, ctx.only_sid)
  ctx.replayed = len(recs)
  for x in (recs[40 % len(recs)], recs[len(recs) // 2], recs[-1]):
    ctx.sample(x if len(json.dumps(x)) < 700 else {'sid': x['sid'], 'ev': x['ev'], 'note': 'large record'})
  rnd = random.Random(3)
  rnd.shuffle(recs)
  c, fails, trs = tlc.validate_trace_parallel('BitPrimsTrace', 'BitPrimsTrace.cfg', recs, 'C15', jobs=15, timeout=3600, heap='3g')
  for tr in trs[:1]:
    ctx.note_mc(tr, 'BitPrimsTrace (first of %d chunks)' % len(trs))
  ctx.states += sum(t.distinct for t in trs[1:])
  ctx.transitions += sum(t.generated for t in trs[1:])
  ctx.validated = c
  by = {x['sid']: x for x in recs}
  def det(rec, f):
    a = dict(rec['args'])
    b = a.pop('bits', None)
    d = {'ev': rec['ev'], 'args': a if len(json.dumps(a)) < 300 else 'large', 'raised': rec['raised']}
    if b is not None:
      d['n'] = len(b)
      d['bits'] = ''.join(map(str, b))[:200]
    if len(json.dumps(rec['obs'])) < 300:
      d['obs'] = rec['obs']
    return d
  ctx.trace_failures(fails, by, det)
  ctx.distinct = set(by)


def selftest(ctx):
  shim.install()
  from paranoid_crypto.lib.randomness_tests import util as u
  good = records_for(u, [1, 0, 1, 1, 0], 'good', [2], [2], [2])
  bad = json.loads(json.dumps(good[0]))
  bad['sid'] = 'corrupt'
  bad['obs']['counts'][1] += 1
  _, fails, _ = tlc.validate_trace('BitPrimsTrace', 'BitPrimsTrace.cfg', good + [bad], 'C15self')
  got = [(f['sid'], f['clause']) for f in fails]
  assert got == [('corrupt', 'FrequencyCountDef')], got
  print('selftest ok', got)
