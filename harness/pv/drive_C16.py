"""C16 — verdict bookkeeping is faithful and monotone."""
import json

from pv import scen
from pv import tlc


def plan(ctx):
  q = ctx.quick
  return [('rsa', 'GEN_Checks_rsa.cfg', 10 if q else 120, 5), ('ec', 'GEN_Checks_ec.cfg', 8 if q else 60, 4),
          ('ecdsa', 'GEN_Checks_ecdsa.cfg', 6 if q else 40, 3)]


# directed scenarios (in addition to the TLC-simulated ones): combinations a random sample rarely hits
DIRECTED = [
    # the optional log_level of the entry points changes what is printed, not what is returned or recorded
    ('rsa', 'log-levels', {'s1': 'fermat', 's2': 'healthy', 's3': 'small'},
     [{'all': True, 'check': 'ALL', 'batch': ['s1', 's2'], 'log_level': 1}, {'all': True, 'check': 'ALL', 'batch': ['s3', 's2'], 'log_level': 2}]),
    ('ec', 'log-levels', {'s1': 'weakprivate', 's2': 'healthy'},
     [{'all': True, 'check': 'ALL', 'batch': ['s1', 's2'], 'log_level': 1}]),
    ('ecdsa', 'log-levels', {'s1': 'msbA', 's2': 'healthyA'},
     [{'all': True, 'check': 'ALL', 'batch': ['s1', 's2'], 'log_level': 1}, {'all': True, 'check': 'ALL', 'batch': ['s2'], 'log_level': 2}]),
    # the return value accumulates over curves; the issuer-key entry carries the HIGHEST severity of the issuer key's failed checks
    ('ecdsa', 'u2f-then-later-curve', {'s1': 'u2fA', 's2': 'healthy521', 's3': 'healthy384'},
     [{'all': False, 'check': 'CheckCr50U2f', 'batch': ['s1', 's2']}, {'all': False, 'check': 'CheckCr50U2f', 'batch': ['s3', 's1', 's2']}]),
    ('ecdsa', 'issuer-two-failures', {'s1': 'tinyissuerA', 's2': 'tinyissuerB', 's3': 'healthyA'},
     [{'all': False, 'check': 'CheckIssuerKey', 'batch': ['s1', 's2', 's3']}, {'all': True, 'check': 'ALL', 'batch': ['s2', 's1']}]),
    # a suspicion (positive, severity UNKNOWN) must not colour the entries written after it, in the batch or in later calls
    ('rsa', 'lhw-suspicion-first', {'s1': 'lhwA', 's2': 'healthy', 's3': 'small', 's4': 'healthy3072'},
     [{'all': False, 'check': 'CheckLowHammingWeight', 'batch': ['s1', 's2', 's3']}, {'all': True, 'check': 'ALL', 'batch': ['s4']}]),
    ('ecdsa', 'xy-r1-k1', {'s1': 'healthyA', 's2': 'samexy'}, [{'all': False, 'check': 'CheckIssuerKey', 'batch': ['s1', 's2']}]),
    ('ecdsa', 'xy-k1-r1', {'s1': 'healthyA', 's2': 'samexy'}, [{'all': False, 'check': 'CheckIssuerKey', 'batch': ['s2', 's1']}]),
    ('ecdsa', 'issuer-severity-history', {'s1': 'close192A', 's2': 'close192B', 's3': 'healthyA'},
     [{'all': False, 'check': 'CheckIssuerKey', 'batch': ['s1', 's2', 's3']}, {'all': False, 'check': 'CheckIssuerKey', 'batch': ['s1']},
      {'all': False, 'check': 'CheckIssuerKey', 'batch': ['s3', 's2', 's1']}]),
    ('rsa', 'mixed-sizes', {'s1': 'small', 's2': 'pattern4096'}, [{'all': False, 'check': 'CheckBitPatterns', 'batch': ['s1', 's2']}]),
    ('rsa', 'rerun', {'s1': 'fermat', 's2': 'healthy', 's3': 'sharedA', 's4': 'sharedB'},
     [{'all': True, 'check': 'ALL', 'batch': ['s1', 's2', 's3', 's4']}, {'all': True, 'check': 'ALL', 'batch': ['s4', 's1']},
      {'all': False, 'check': 'CheckGCD', 'batch': ['s3']}, {'all': False, 'check': 'CheckFermat', 'batch': ['s1', 's1']}]),
    ('rsa', 'union', {'s1': 'tri', 's2': 'triP', 's3': 'triQ'},
     [{'all': False, 'check': 'CheckGCD', 'batch': ['s1', 's2']}, {'all': False, 'check': 'CheckGCD', 'batch': ['s3', 's1']},
      {'all': False, 'check': 'CheckGCD', 'batch': ['s1', 's2', 's3']}]),
    ('ec', 'rerun', {'s1': 'closeA', 's2': 'closeB', 's3': 'weakprivate'},
     [{'all': False, 'check': 'CheckECKeySmallDifference', 'batch': ['s1', 's2', 's3']},
      {'all': False, 'check': 'CheckECKeySmallDifference', 'batch': ['s2']}, {'all': False, 'check': 'CheckValidECKey', 'batch': ['s3', 's1']}]),
]


def model_check(ctx):
  r = tlc.expect_holds('MC_Checks', 'MC_Checks.cfg', timeout=3600)
  ctx.note_mc(r, 'Checks/MC_Checks: bookkeeping invariants + Monotone/UntouchedOutsideBatch over all histories of 2 calls, 2 artifacts, '
              'pre-annotated starts, every verdict assignment within must/mustnot/may')
  if not ctx.quick:
    r = tlc.expect_holds('MC_Checks', 'MC_Checks_3.cfg', timeout=7200)
    ctx.note_mc(r, 'Checks/MC_Checks_3: three checks')
  if ctx.prop == 'C16':
    apalache_inductive(ctx)


def apalache_inductive(ctx):
  """Unbounded histories for the bookkeeping core: Init => IndInv and IndInv /\\ Next => IndInv' /\\ Mono (Apalache)."""
  import os, shutil, subprocess, time
  d = os.path.join(tlc.SPEC, 'apalache')
  out = os.path.join(tlc.BUILD, 'apalache-%d' % os.getpid())
  def run(mod, init, inv, length):
    t0 = time.time()
    p = subprocess.run(['apalache-mc', 'check', '--init=' + init, '--inv=' + inv, '--length=%d' % length, '--out-dir=' + out, mod + '.tla'],
                       cwd=d, capture_output=True, text=True, timeout=900)
    shutil.rmtree(out, ignore_errors=True)
    ok = 'EXITCODE: OK' in p.stdout
    err = 'EXITCODE: ERROR (12)' in p.stdout      # 12 = invariant violated
    if not ok and not err:
      raise tlc.MachineryError('apalache failed on %s: %s' % (mod, (p.stdout + p.stderr)[-800:]))
    return ok, round(time.time() - t0, 1)
  obligations = [('TestInfoInd', 'Init', 'IndInv', 0), ('TestInfoInd', 'IndInit', 'IndInvAndMono', 1)]
  done = []
  for mod, init, inv, length in obligations:
    ok, w = run(mod, init, inv, length)
    if not ok:
      raise tlc.MachineryError('inductive obligation %s/%s does not hold: the bookkeeping model is wrong' % (init, inv))
    done.append({'obligation': '%s => %s (length %d)' % (init, inv, length), 'wall_s': w})
  ok, w = run('TestInfoIndBad', 'IndInit', 'IndInvAndMono', 1)
  if ok:
    raise tlc.MachineryError('the always-append deviation should violate NoDup (non-vacuity of the inductive check)')
  ctx.notes['apalache_inductive'] = {'discharged': done, 'non_vacuity': 'always-append deviation violates the invariant (%.1fs)' % w}
  ctx.checker_cmds.append('apalache-mc check --init=IndInit --inv=IndInvAndMono --length=1 TestInfoInd.tla')


CROSS_ORDERS = [('rsa', 'ec', 'ecdsa', 'rsa'), ('ec', 'rsa', 'ecdsa'), ('ecdsa', 'rsa', 'ec')]


def replay_and_validate(ctx, plans, label, detail_keys=('kind',), cheap_ec=None, pre_annotate=True, directed=True):
  cheap_ec = ctx.quick if cheap_ec is None else cheap_ec
  jobs = []
  for kind, cfg, num, depth in plans:
    beh, r = scen.gen_behaviours(cfg, num, ctx.seed + len(jobs), depth)
    ctx.checker_cmds.append(r.cmd)
    for name, clsmap, hist in beh:
      sid = '%s-%s-%s' % (label, kind, name)
      if ctx.only_sid and not ctx.only_sid.startswith(sid):
        continue
      jobs.append((kind, sid, clsmap, hist, ctx.seed, cheap_ec, pre_annotate))
  for kind, name, clsmap, hist in (DIRECTED if directed else []):
    sid = '%s-%s-directed-%s' % (label, kind, name)
    if not ctx.only_sid or ctx.only_sid.startswith(sid):
      jobs.append((kind, sid, clsmap, hist, ctx.seed, cheap_ec, pre_annotate))
  # the three entry points in one process, in three orders
  for order in CROSS_ORDERS if (directed and label in ('C16', 'C18')) else []:
    sid = '%s-cross-%s' % (label, '.'.join(order))
    if not ctx.only_sid or ctx.only_sid.startswith(sid):
      jobs.append(('cross', sid, list(order), ctx.seed, cheap_ec))
  results = scen.run_parallel(jobs)
  recs = []
  for sid, rs, err in results:
    if err:
      raise tlc.MachineryError('scenario %s crashed in the harness:\n%s' % (sid, err))
    recs += rs
  if ctx.only_sid:
    recs = [x for x in recs if x['sid'] == ctx.only_sid]
  ctx.replayed += len(recs)
  ctx.notes['behaviours_replayed'] = ctx.notes.get('behaviours_replayed', 0) + len(jobs)
  if not recs:
    return recs
  for x in recs[:2]:
    ctx.sample({'sid': x['sid'], 'scenario': x.get('scenario'), 'ret': x['ret'], 'raised': x['raised'],
                'first_artifact_after': x['arts'][0]['after'] if x['arts'] else None})
  c, fails, trs = tlc.validate_trace_parallel('ChecksTrace', 'ChecksTrace.cfg', recs, label, jobs=8, timeout=3600)
  ctx.note_mc(trs[0], 'ChecksTrace (first of %d chunks)' % len(trs))
  ctx.states += sum(t.distinct for t in trs[1:])
  ctx.transitions += sum(t.generated for t in trs[1:])
  ctx.validated += c
  by = {x['sid']: x for x in recs}
  def det(rec, f):
    sc = rec.get('scenario', {})
    return {'kind': rec['kind'], 'classes': sc.get('classes'), 'call': sc.get('call'), 'raised': rec['raised'],
            'raised_msg': rec.get('raised_msg'), 'ret': rec['ret'],
            'arts': [{'id': a['id'], 'cls': a['cls'], 'after_entries': [(e['name'], e['result'], e['sev']) for e in a['after']['entries'] if e['result']],
                      'weak': a['after']['weak']} for a in rec['arts']][:6]}
  ctx.trace_failures(fails, by, det)
  ctx.distinct.update(by)
  return recs


def run(ctx):
  ctx.trust('TLC 1.8', 'pv.checks.project (own parser of attached_info; one division per factor; reference multiplication per dlog)',
            'pv.gen (the harness owns p, q, d, k of every artifact)', 'the documented check table in TestInfo.tla')
  ctx.assume('quick tier: the small-difference check is constructed with max_diff = 2^12; the thorough tier uses the default singletons')
  ctx.assume('entry order inside test_results is not normative; names are compared as sets')
  model_check(ctx)
  from pv import tim
  tim.run(ctx, 150 if ctx.quick else 3000)       # stateful trace validation of util.py itself
  reg = tim.registry_records()
  c_, fails_, tr_ = tlc.validate_trace('ChecksTrace', 'ChecksTrace.cfg', reg, 'C16reg')
  ctx.validated += c_
  ctx.replayed += len(reg)
  ctx.trace_failures(fails_, {x['sid']: x for x in reg}, lambda rec, f: {'kind': rec['kind'], 'registry': rec['obs']})
  replay_and_validate(ctx, plan(ctx), 'C16')


def selftest(ctx):
  import random
  res = scen.run_scenario(('rsa', 'self', {'s1': 'healthy', 's2': 'small'}, [{'all': False, 'check': 'CheckSizes', 'batch': ['s1', 's2']}], 1, True, False))
  recs = res[1]
  bad = json.loads(json.dumps(recs[0]))
  bad['sid'] = 'corrupt'
  bad['arts'][1]['after']['weak'] = False
  drop = json.loads(json.dumps(recs[0]))
  drop['sid'] = 'dropped-entry'
  drop['arts'][0]['after']['entries'] = []
  _, fails, _ = tlc.validate_trace('ChecksTrace', 'ChecksTrace.cfg', recs + [bad, drop], 'C16self')
  got = sorted((f['sid'], f['clause']) for f in fails)
  assert ('corrupt', 'WeakIffPositiveEntry') in got and ('dropped-entry', 'OneEntryPerApplicableCheck') in got and not any(s == recs[0]['sid'] for s, _ in got), got
  print('selftest ok', got)
