"""Writes MANIFEST.json from the table below (kept in code so that it stays valid)."""
import json
import os

HOME = os.environ.get('VERIF_HOME', '/verif')

CHECKS = {}   # filled by register()
NOT_YET = {}


def register(pid, text, note, technique, design_ref):
  CHECKS[pid] = dict(text=text, note=note, technique=technique, design_ref=design_ref)


register('C03',
         'TLC model-checks the product/remainder tree of BatchGCD in the free commutative semiring for every batch size '
         '0..130 (polynomial identities, hence valid for all integer inputs of that size); the real ExtendedProductTree/'
         'FastProduct are executed on symbolic leaves for every n and the recorded tree and T are validated by a TLC trace '
         'specification against the model; TLC-enumerated bag scenarios (duplicates, nested moduli, several partners, extra '
         'product, empty batch, all orderings) are replayed through BatchGCD / CheckGCD / CheckGCDN1 with concrete primes and '
         'TLC recomputes the expected gcd bag for every record.'
         ' Rounds 3-4: N-1 bounds that are not powers of two (gcd of a key of the batch, one less, one more), decided by TLC from the bags.',
         'Trusted: TLC, the .proto shim, the 40-line free-semiring Poly class, trial division of results by the harness\'s own '
         'primes. N-1 variant decided for bounds 2^(63k) via prime counts.',
         'TLA+ spec (BatchGcd.tla) checked with TLC + TLC-generated scenarios replayed into the code + TLC trace validation',
         'DESIGN.md 5/C03')


register('C13',
         'TestStructure.tla (Run, TestSource, TestBitString as a state machine over p-values 2^-e, for which Fisher\'s rule is '
         'exact integer arithmetic) is model-checked with TLC (failed-iff, undecided-iff, return-iff-failed, finished structures '
         'never rerun, TestBitString runs each once); TLC enumerates every history of a single structure and simulates '
         'behaviours of the entry points; each is replayed through the real TestStructure/TestSource/TestBitString with scripted '
         'tests and every Run() and return is validated step by step by the TLC trace specification TSTrace.tla.'
         ' Rounds 3-4: population statement (GenTrace.Within), fail level close to the repeat level (MC_TS_close / GEN_TS_close / TSTrace_close), good generators at 2^23 and 2^24 bits in the thorough tier.',
         'Trusted: TLC, mpmath series for the FailAt constants, the wrapper that records TestStructure.Run after it returns. '
         'Float ties at Sum = k*R with unequal exponents admit both outcomes. The generator clauses (good generators pass, '
         'weak ones fail) are validated by GenTrace.tla on real generator output; the population statement (fraction of p-values at or below '
         '1/20, 1/100, 1/1000 over 24 / 180 runs of the good generators per test) is decided by GenTrace.Within in integer arithmetic.',
         'TLA+ spec (TestStructure.tla) model-checked with TLC + TLC-generated histories replayed into the code + TLC trace validation',
         'DESIGN.md 5/C13')


register('C14',
         'BerlekampMassey.tla: TLC proves on every sequence of length <= 9 (quick; <= 12 thorough) and at every prefix that the '
         'Berlekamp-Massey machine\'s register length equals the brute-force shortest LFSR (definition: exists taps), that its '
         'connection polynomial generates the prefix, and that the census of linear complexities equals the closed form. The '
         'three implementations (C++ compiled from /repo with the carry-less-multiplication path, C++ portable path, Python) are '
         'run on every sequence of length 0..12 (0..16 thorough), on class sequences at every 64-bit boundary up to 1100 bits and '
         'TLC recomputes the linear complexity of every recorded sequence with the verified machine; LfsrCount/LfsrLogProbability '
         'on the full grid n <= 64 are recomputed by TLC.'
         ' Round 3: LfsrLogProbability for every m at n = 2956 and 4096 and the median band up to n = 65536.',
         'Trusted: TLC, ctypes + 3-line extern "C" wrapper, g++. The CLMUL variant is built with -mpclmul -D__CLMUL__ because gcc '
         'does not define the macro the source tests for. Sequences longer than 1100 bits: implementations compared with each other only.',
         'TLA+ spec (BerlekampMassey.tla) model-checked against the brute-force definition with TLC + exhaustive/boundary replay into the three implementations + TLC trace validation',
         'DESIGN.md 5/C14')


register('C15',
         'BitPrims.tla gives the one-line definitions (window census with/without wrap, sub-sequences, block split, scatter, '
         'runs, longest run, overlapping runs, reversal, +-1 expansion, popcount, GF(2) rank on sets of columns); TLC checks them '
         'against independent second formulations on every string of length <= 10. The real functions are replayed on every '
         'string of length <= 8 (quick; <= 12 thorough) with every m, sampled strings to 16 bits, a TLC-sized grid on both sides '
         'of the 50*2^m fast-path threshold at every residue mod 8, block sizes to 70, long strings, and rank on shapes around '
         '32/50/256 rows; TLC re-evaluates the definition on every recorded input (BitPrimsTrace.tla).'
         ' Round 4: every block size up to 72 in the quick tier.',
         'Trusted: TLC, the harness\'s int<->bit-list conversion. Inputs outside the documented domains (m <= 0 for counts, seq longer than length) are not driven.',
         'TLA+ definitions (BitPrims.tla) model-checked for mutual consistency with TLC + exhaustive/threshold replay + TLC trace validation',
         'DESIGN.md 5/C15')


register('C19',
         'NTheory.tla: TLC checks the transcribed Newton iterations (2-adic inverse, inverse square root, four square roots) '
         'against brute-force definitions for all n < 2^K, k <= K (K = 8 quick, 10 thorough), continued-fraction convergents '
         'against the definitional value of the finite continued fraction, rounded division, Irwin-Hall numerators on the grid of '
         'quarters. Echelon.tla transcribes echelon_form/solve_right with exact rationals; TLC proves the returned vector satisfies '
         'the system on all 3x3 systems over -1..1 (and all 59049 5x4 systems of a unit-like vocabulary in the thorough tier) and '
         'refutes the pinned row move and the pinned rounding offset (design-level counterexamples D4, D9). All those inputs plus '
         'sampled systems to 8x5, upper-triangular systems, pseudo-averages (all lifts enumerated by TLC), sieve, and random '
         '1..4096-bit operands are replayed into the real functions and every record is validated by NTheoryTrace.tla.'
         " Round 2: lll.reduce on small full-rank bases (same lattice by Cramer's rule, first vector within the LLL bound of the shortest, decided by TLC).",
         'Trusted: TLC; Python int/Fraction for operands beyond 32 bits (events *_big); mpmath monitor for Igamc/NormalCdf/'
         'BinomialCdf/CombinedPValue/UniformSumCdf(real x)/Bias (aux, not model checking). Small-root finders not driven yet.',
         'TLA+ specs (NTheory.tla, Echelon.tla) model-checked with TLC + TLC-enumerated inputs replayed + TLC trace validation',
         'DESIGN.md 5/C19')


register('C11',
         'EcGroup.tla writes the chord-and-tangent law definitionally over F_p; TLC checks on four whole prime-order groups '
         '(orders 67..73, incl. an a = -3 and two a = 0 curves) closure, identity, inverse, commutativity, associativity on all '
         'triples, the isomorphism k -> kG with Z_q and scalar multiplication by every integer in -3..q+2. The real EcCurve class '
         '(size-generic) is constructed on the same curves and every public point operation is replayed: all pairs for Add/'
         'Subtract/AddJacobian (random Z-scaling), all points x scalars -q..2q for Multiply/MultiplyAffine, batched operations on '
         'every list of <= 4 special-case classes (inf, same, opposite, double, generic) sharing one inversion, BatchInverse, '
         'BatchMultiplyG, PointSequence; TLC recomputes every result from its own law (EcTrace.tla). Named curves: same case '
         'classes against a 30-line reference law, parameter sanity per CURVE_FACTORY entry (T2).'
         ' Round 2: whole-group arithmetic on the cofactor-2 and cofactor-4 curves (EcGroup SpecAll model-checked; every pair of points incl. order two, scalars around q and q h).',
         'Trusted: TLC; for named curves refec.py and gmpy2.is_prime (Miller-Rabin). Curves with a cofactor are not used here (the '
         'property quantifies over prime-order groups).',
         'TLA+ group-law spec (EcGroup.tla) model-checked on whole small groups with TLC + exhaustive replay into EcCurve + TLC trace validation',
         'DESIGN.md 5/C11')


register('C10',
         'Bsgs.tla models PointTable/BatchDL/BatchDLOfDifferences in Z_q with the cached table they share; TLC checks that after '
         'every call of every call history (all bounds 1..Q, list lengths 1..3, all max_diff) every x below the bound is found, '
         'and refutes both off-by-one deviations of the step constants (non-vacuity). TLC-simulated call histories are replayed '
         'on fresh EcCurve objects over real small curves of the same order, each model call expanded into real calls covering '
         'every x below the bound; TLC validates each result from the definitional group law (sound: dl*G = P, complete: every '
         'x < bound found; difference search: relation true, both partners flagged, identical keys silent). Named curves: '
         'boundary x values under call histories, small differences with history lists, structured private keys through '
         'ExtendedBatchDL, decided by TLC from the known keys (T2).'
         ' Rounds 3-4: top byte shift on a Brainpool curve, check-level scenarios with close / structured keys around keys of other curves.',
         'Trusted: TLC, refec.py, the relation-string regex. ExtendedBatchDL needs a 2^32 search, so it is exercised on named curves only.',
         'TLA+ spec (Bsgs.tla) model-checked over call histories with TLC + TLC-simulated histories replayed on small real curves + TLC trace validation',
         'DESIGN.md 5/C10')


register('C09',
         'EcGroup.tla defines ECDSA signing, the hidden-number pair and RFC 6979 bits2int on small curves; TLC proves '
         'k = a + b d (mod q) for every d, every k and boundary z on the whole group. The real EcCurve on the same curves is '
         'replayed over (d, k, z) grids (all pairs in the thorough tier), every hash bit string of length 0..8 (0..11 thorough) '
         'against the 7-bit orders (shorter, equal, longer, unaligned), and protobuf signatures with leading zero bytes; TLC '
         'recomputes r, s (certifying the reference signer), the truncated hash and the relation (EcTrace.tla). Named curves: '
         'hash lengths 0..66 bytes on every curve, and Int2Bytes/Bytes2Int/Hex2Bytes on 0..65535 and up to 4096 bits (T2).'
         " Rounds 2-4: Hex2Bytes compared on exact bytes; the modulus of the relation must be the order of the table's generator (reference arithmetic).",
         'Trusted: TLC; for named curves the reference signer (certified by TLC on the small curves), bits2int_ref and int.from_bytes.',
         'TLA+ spec (EcGroup.tla: Sign/Bits2Int/HnpRelation) model-checked with TLC + exhaustive small-curve replay + TLC trace validation',
         'DESIGN.md 5/C09')


register('C20',
         'Rng.tla models the framing of every generator (words -> bytes -> cut to ceil(n/8) bytes -> clear excess bits -> '
         'integer) with the four truncation styles found in rng.py; TLC proves three of them stay below 2^n for every buffer '
         'and refutes the fourth (TruncLcgRand masks byte 0 of a little-endian buffer: known finding D5). java.util.Random and '
         'new BigInteger(numBits, rnd) are specified on 12-bit limbs and TLC checks the specification reproduces the output of '
         'the real JDK 17 (regenerated at run time) before it judges rng.JavaRandom byte for byte; the truncated LCG is '
         'specified from its recurrence and recomputed by TLC for state sizes 4..14 bits. Every registry generator is replayed '
         'for n in 1..130 and around every multiple of 8/32/64 up to 2048 (all n thorough) with two seeds and unseeded; purity '
         'under interleaved calls for every seedable generator.'
         ' Rounds 2-4: seeds whose low 32 / 64 bits are zero or beyond the state size, call histories with one seed on one generator object against a fresh process, Java seeds beyond 48 bits and negative (JDK fixture regenerated).',
         'Trusted: TLC, the JDK, hashlib digests for purity, Python-int reference recurrence for registry-size truncated LCGs. '
         'urandom and subsetsum* cannot be seeded by construction (range clause only). D5 is a known finding (repair would break '
         'the pinned rng_test.testTruncLcg).',
         'TLA+ spec (Rng.tla: framing invariant, java.util.Random on limbs, truncated LCG) model-checked with TLC + replay of every registry generator + TLC trace validation',
         'DESIGN.md 5/C20')


register('C16',
         'TestInfo.tla mirrors SetTestResult / AttachFactors / GetHighestSeverity and pins the documented check table (names, '
         'severities, applicability, joint vs single); Checks.tla explores every history of calls (single check or entry point, '
         'any sub-batch incl. empty, pre-annotated artifacts, every verdict assignment inside must/mustnot/may) and TLC checks '
         'one-entry-per-check, no duplicates, weak-iff-positive, version stamped, return-iff-weak and the action properties '
         'Monotone / UntouchedOutsideBatch. TLC-simulated call histories over the real check names (plus directed ones: re-runs, '
         'factor-set union, equal coordinates under two curve labels) are replayed on real RSA / EC / ECDSA protobufs and every '
         'call is validated as a transition (before -> after projected TestInfo) by ChecksTrace.tla, naming the violated clause.'
         ' Rounds 3-4: suspicion-first severity, U2F issuer before a later curve, issuer key failing two EC checks, entry points with log_level 1 and 2, the three entry points in one process.',
         'Trusted: TLC, pv.checks.project (own parser of attached_info), pv.gen ground truth of every artifact, the check table in '
         'TestInfo.tla (from README / class docstrings). Quick tier builds the small-difference check with max_diff = 2^12.',
         'TLA+ spec (TestInfo.tla, Checks.tla) model-checked over call histories with TLC + TLC-simulated histories replayed on real protobufs + TLC transition validation',
         'DESIGN.md 5/C16')
register('C17',
         'Each call of a TLC-simulated history is executed on fresh copies of the artifacts in five settings: after the earlier '
         'calls of the history in one process (warm caches / tables / singletons), every artifact alone in a fresh process, the '
         'batch in a fresh process, the batch permuted, and the batch with healthy artifacts added. SoloTrace.tla decides: single '
         'checks give the same entry and evidence as alone; joint checks: flagged fresh => flagged later, permutation-equivariant, '
         'healthy neighbours neutral. The cache that makes this non-trivial (per-curve table shared by three searches) is '
         'model-checked in Bsgs.tla for every reachable cache state; the bookkeeping side in Checks.tla.'
         ' Rounds 2-4: healthy behind weak / other curve, duplicates next to a close key in three orders, a low-Hamming-weight suspicion first, private values on the last baby-step table entry for the batch size at hand; forked settings bounded by a semaphore.',
         'Trusted: TLC, pv.checks.project, fork semantics for "fresh process". The oracle is the code\'s own verdict in another setting. '
         'Permutation/neighbour clauses for joint checks apply to decided (must/mustnot) artifacts only.',
         'TLA+ specs (Checks.tla, Bsgs.tla) model-checked with TLC + each simulated call replayed in five settings + TLC trace validation (SoloTrace.tla)',
         'DESIGN.md 5/C17')
register('C18',
         'Total (raised = FALSE, boolean return) is an invariant of Checks.tla over every history and batch incl. the empty one. '
         'TLC-simulated histories over the degenerate vocabulary (moduli prime / even / square / 2^k / odd length / 64 and 65 bits / '
         'three primes, empty and huge exponents, curve identifiers 0..25, coordinates 0 / p / x+p / huge / off-curve / y = 0, '
         'duplicates, empty and 64-byte hashes, r, s in {1, n-1}, invalid and unsupported issuer keys, empty batches) are replayed '
         'through every individual check and every entry point; ChecksTrace.tla rejects any exception or non-bool return and also '
         'checks the bookkeeping and evidence clauses on these inputs.'
         ' Rounds 2-4: every library call runs under a deadline (non-termination = clause Total); moduli with Keypair-table prefixes at odd and even sizes; honest issuers with exactly 24 / 48 / 120 signatures; negative logarithms; the three entry points in one process in three orders.',
         'Trusted: TLC, record_call (exception class, type of the return value).',
         'TLA+ spec (Checks.tla: Total) model-checked with TLC + degenerate-batch histories generated by TLC replayed into every check + TLC trace validation',
         'DESIGN.md 5/C18')


register('C04',
         'FactorCriteria.tla states the documented regions as closed forms (Fermat: steps < max_steps, exact both ways; equal low/high '
         'bits: r >= 3 and 4(r+s) >= bits + 8; the six FIPS-misreading differences with primes >= 384 bits; listed unseeded outputs '
         'and their top-bit variants). FamilyGrid.tla generates with TLC the boundary cells (steps - max_steps in -2..1 for step '
         'bounds 1/2/1000/100000 and prime sizes 64..1024 (2048 thorough); (r, s) on and next to the line; every D x L). The harness '
         'builds a modulus per cell (exact Fermat step count, exact common bits), computes its attributes from p and q, runs the '
         'family\'s checks on protobufs, and ChecksTrace.tla applies the criterion: must flag / must not flag / both primes '
         'recorded, plus all bookkeeping and evidence clauses.'
         ' Rounds 2-4: Fermat.tla transcribes FermatFactor (TLC: every n <= 2500, a semiprime is factored exactly when (p+q)/2 - ceil(sqrt n) < max_steps) and FermatTrace validates the real function on every n < 3000 x five step bounds; splits with more than half of the low bits equal; upper differences on moduli of odd length; GMP Mersenne-Twister outputs regenerated with gmpy2 as table-independent ground truth.',
         'Trusted: TLC, pv.weak abstraction map, gmpy2 primality. Completeness of the Lehman/continued-fraction step is the claim '
         'itself: catalogue instances (seed derived from the cell). Quick tier stops at 1024-bit primes and 7 listed outputs per size.',
         'TLA+ criteria (FactorCriteria.tla) + TLC-generated boundary grid (FamilyGrid.tla) replayed on constructed moduli + TLC trace validation (ChecksTrace.tla)',
         'DESIGN.md 5/C04')
register('C05',
         'FactorCriteria.tla gives the regions for word repetitions (w in the default list, 16 w <= bits, <= 32 deviating low bits), '
         'swapped-limb repetitions (limb 8/16/32/64, odd pattern length, 10 * denominator bits <= bits), both primes repeating words '
         '<= 64 bits, Hamming weights <= 32, shared 2^20-smooth part >= 2^60 with one smooth side (factored unless both are smooth). '
         'FamilyGrid.tla generates the cells with TLC (sizes 1024/2048, thorough 3072/4096); a modulus is built per cell, its actual '
         'attributes are computed from p and q, the family\'s check runs on protobufs and ChecksTrace.tla applies the criterion '
         '(must flag, both primes recorded where the statement says factored, severity rule of CheckLowHammingWeight).'
         ' Rounds 2-4: cells covering every factor of the default Pollard product (1861 blocks of primes, 12 blocks of prime powers; quick: the boundary blocks), shared factors with prime powers beyond the product, slow starters of the low-Hamming-weight search (four catalogue instances are known findings).',
         'Trusted: TLC, pv.weak abstraction map. Why the 3-dimensional lattice / best-first search succeeds is outside the model: the '
         'specification states that it must on the documented region; catalogue instances.',
         'TLA+ criteria (FactorCriteria.tla) + TLC-generated family grid replayed on constructed moduli + TLC trace validation (ChecksTrace.tla)',
         'DESIGN.md 5/C05')


register('C01',
         'FactorsSound is an invariant of the verdict model (Checks.tla: evidence only when weak; Monotone: a recorded factor never '
         'disappears) checked by TLC over all call histories. C01Grid.tla generates with TLC every modulus class (healthy, small, '
         '64/65-bit, odd length, prime, square, even, 2^k, three primes, every documented weak family) x (RSA check, constructor '
         'parameter: Fermat bound 0/1/10^5, pattern lists default/[1]/[300]/[], continued-fraction bounds, Pollard bounds) plus '
         'aggregate contexts (shared, nested, duplicate, several partners, N-1 with gcd bounds 1/2^64/2^128) and every public '
         'factoring helper. Each cell is replayed on real protobufs / function calls; ChecksTrace.tla checks on every record: each '
         'recorded value divides n (or n-1), one is proper unless n divides another modulus of the batch, evidence implies weak, '
         'helpers return only divisors whose product is n.'
         ' Rounds 2-4: histories of one CheckKeypairDenylist object, re-check histories of the aggregate checks, even moduli whose successors share a large factor.',
         'Trusted: TLC, own parser of attached_info + one division per factor (pv.checks.project). Known finding: CheckGCD records '
         '{n, 1} when a modulus shares each prime with a different partner.',
         'TLA+ invariant (Checks.tla/ChecksTrace.tla FactorsSound) + TLC-generated class x check x parameter grid replayed + TLC trace validation',
         'DESIGN.md 5/C01')
register('C02',
         'Soundness of the three discrete-log searches is checked on whole small groups: TLC recomputes from the definitional group '
         'law that every returned logarithm satisfies dl*G = P and every recorded relation key - Q = k*G holds, under call histories '
         'and for points that are not small logarithms (EcTrace.tla; cache model Bsgs.tla). On named curves TLC-simulated and '
         'directed batches with wrong-guess pressure (healthy signatures, bias below the margin, strongly biased nonces attributed '
         'to the negated issuer point, two curves and several issuers in one batch, structured and close private keys) go through '
         'every nonce / LCG / U2F / EC check; ChecksTrace.tla requires every recorded DISCRETE_LOG(_DIFF) to be true and every '
         'positive nonce verdict to come with a verifiable private key.'
         ' Rounds 2-4: 400 honest issuers next to three weak ones (hundreds of guesses in one call), a U2F-weak issuer in front of healthy ones.',
         'Trusted: TLC, refec.py reference multiplication, regex of the relation string. Keys that are not valid points are outside the claim.',
         'TLA+ group-law spec (EcGroup.tla) as oracle on small curves + verdict invariants (ChecksTrace.tla DlogSound) on TLC-generated batches + TLC trace validation',
         'DESIGN.md 5/C02')
register('C07',
         'HealthyNeverAccused and UntouchedOutsideBatch are checked by TLC on the verdict model over all histories. TLC-simulated '
         'batches (1..6 slots, two entry-point calls each) of healthy RSA keys (2048/3072/4096), EC keys on all eight strong curves '
         'and uniformly-nonced signatures, alone and mixed with weak neighbours (Fermat-close, shared prime, small, weak private '
         'key, off-curve, biased nonces, invalid issuer), are replayed through the all-checks entry points; ChecksTrace.tla requires '
         'every entry of a healthy artifact to be negative, the entry point to return False on all-healthy batches, and weak '
         'neighbours to keep their own verdicts.'
         ' Rounds 2-4: healthy artifacts behind weak ones and behind another curve (n-1 pairs, shared primes, close EC keys, U2F and MSB issuers), padded field encodings, near-ROCA healthy semiprimes.',
         'Trusted: TLC, pv.gen (healthy = independent uniform primes / keys / nonces). Population size is what bounds the '
         'false-positive rate that can be seen: quick ~40 healthy artifacts, thorough ~2000.',
         'TLA+ invariant (Checks.tla HealthyNeverAccused) + TLC-simulated healthy/mixed batches through the entry points + TLC trace validation',
         'DESIGN.md 5/C07')


register('C06',
         'Exact criteria in the specification: sizes (bits < 2048) and exponents (e != 65537) on projected integers; ROCA and its '
         'variant re-derived inside TLC from the two prime lists (Roca.tla: subgroup generated by 65537 modulo each of the 39 primes, '
         'non-zero squares modulo each of the 48) and applied to the residue vector of each modulus; denylist membership; covered '
         'Keypair seeds must be flagged and factored; EC validity as the four clauses of IsValidPublicKey and the 224-bit order '
         'rule. T1: IsValidPublicKey is replayed on coordinate squares [0, 2p)^2 of small curves incl. cofactor 2 and 4 and TLC '
         'recomputes Valid from the definitional law. Boundary replays: 2^2047-1 / 2^2047 / 2^2048-1, leading-zero encodings of n '
         'and e, ROCA-structured moduli, moduli missing the ROCA / variant condition at exactly one prime (incl. residue 0), CRT-'
         'built variant moduli, custom Storage denylists (same hash under another key type), covered / uncovered Keypair seeds, '
         'every named curve with off-curve / 0 / p / x+p / 2^521 coordinates, unknown and binary-field identifiers.'
         ' Rounds 2-4: the 768 covered Keypair moduli come from a committed fixture (not from the generator under test) and all of them run in both tiers; histories of one CheckKeypairDenylist object; healthy semiprimes on the boundary of the ROCA fingerprint.',
         'Trusted: TLC, residues and bit lengths computed by the harness, hashlib fingerprint, reference on-curve test, the repository\'s '
         'keypair_generator as the definition of the vulnerable generator. Moduli divisible by one of the 48 primes are "may" for the variant.',
         'TLA+ exact criteria (FactorCriteria.tla, Roca.tla, EcGroup.tla Valid) evaluated by TLC on boundary replays + small-curve exhaustive validity',
         'DESIGN.md 5/C06')


register('C08',
         'HnpWindows.tla specifies how the nonce checks turn a batch into lattice problems (per curve and issuer, duplicates '
         'removed, windows of 24/48/120 with early stop) and the documented margins; TLC checks for every group size 0..260 that '
         'each pass partitions the unique list, that up to 120 signatures one call sees the whole group and up to 24 exactly one '
         'call is made. HnpGrid.tla generates with TLC the layouts: bias class (top bits zero, common prefix, common postfix, '
         'multiplied form, U2F, GMP truncated LCG of each shipped size) x curve x bias width on the margin x partner groups '
         '(healthy same / other curve, second biased issuer) x interleaving x duplicates. Each layout is signed with the reference '
         'signer (LCG nonces from the system libgmp itself), run through the real check with the solver entry wrapped, and '
         'HnpTrace.tla decides: every signature of a must-group flagged with the correct key, other issuers keep their verdict, '
         'no flag without a correct key, multiset of solver-call sizes equals the specification\'s.'
         ' Rounds 2-4: SigPipeline.tla (bookkeeping of BiasedBaseCheck over an interleaved batch; TLC checks ExactlyTheWeak on all 5040 interleavings of four issuers on two curves, refutes the index confusion, and prints every layout with its verdicts for replay); biases 128 / 176 (few signatures); hash lengths other than the order length.',
         'Trusted: TLC, reference signer, reference multiplication of the recorded key, libgmp. Success of lattice reduction on the '
         'margin is the claim itself (catalogue instances); misses of the multiplied form at exactly 2x the curve size are known findings.',
         'TLA+ spec (HnpWindows.tla) model-checked with TLC + TLC-generated layout grid signed and replayed + TLC trace validation (HnpTrace.tla)',
         'DESIGN.md 5/C08')


register('C12',
         'NistStats.tla decides what is integer about the SP 800-22 tests: the parameter ladders (block-frequency block size, '
         'longest-run parameter sets, template length, m_max of Serial / ApproximateEntropy, Universal L), the exact '
         'insufficient-data thresholds, the number of returned p-values, and the integer statistics (S_n, V_n, ones per block, '
         'longest-run bins, cumulative-sum extrema forward / backward, cycle count, state visits), written definitionally and - '
         'for the walk - as an AppendBit machine that TLC checks against the definitions for every string up to 12 bits together '
         'with the reversal and complement lemmas; the M = 8 longest-run table is enumerated exactly by TLC; TLC refutes the pinned '
         'backward statistic (D3). Replays: every string up to 8 bits (11 thorough) through Frequency / Runs / RandomWalk, a grid of '
         'lengths on both sides of every threshold x string classes through all 13 tests, and invariance pairs (complement, reverse, '
         'rotate). NistTrace.tla decides per record: insufficient-data exactly below the minimum, ladder, integer statistic = '
         'specification (certifying the reference), range, invariances; the real-valued map statistic -> p-value is an auxiliary '
         'mpmath monitor whose boolean the trace specification requires.',
         'Trusted: TLC; AUX (not model checking): mpmath transcriptions of the SP 800-22 formulas for Frequency, BlockFrequency, Runs, '
         'LongestRuns, Serial, ApproximateEntropy, cumulative sums and excursions; exact-rational DP for longest-run tables; rank '
         'distribution product formula (13 matrix shapes); since round 2 also BinaryMatrixRank (own GF(2) elimination, exact class '
         'probabilities), Spectral (numpy FFT, both sides of a threshold tie admitted), both template tests (exact class probabilities by '
         'DP for the overlapping one), Universal (SP 800-22 table; the block length the reference uses is checked against '
         'NistStats.UniversalL) and both p-values of LinearComplexity (textbook Berlekamp-Massey + the census of BerlekampMassey.tla). '
         'Known finding: the M = 10^4 table is NIST\'s printed (inexact) one.',
         'TLA+ spec (NistStats.tla) model-checked with TLC (AppendBit machine vs definitions, lemmas) + threshold-grid and exhaustive short-string replays + TLC trace validation; real-valued formulas by an auxiliary monitor',
         'DESIGN.md 5/C12')


def main():
  props = [json.loads(l)['id'] for l in open(os.path.join(HOME, 'properties.jsonl'))]
  checks = []
  for pid in props:
    if pid not in CHECKS:
      continue
    c = CHECKS[pid]
    checks.append({
        'property_id': pid,
        'quick_cmd': './check %s --tier quick' % pid,
        'thorough_cmd': './check %s --tier thorough' % pid,
        'evidence_file': 'evidence/%s.json' % pid,
        'replay_cmd_template': './check %s --replay {path}' % pid,
        'engine': 'tlc-trace',
        'level_claimed': {'category': 'model_checking', 'text': c['text'], 'design_ref': c['design_ref']},
        'level_note': c['note'],
        'technique': c['technique'],
    })
  na = [{'property_id': p, 'reason': NOT_YET.get(p, 'check not built yet in this round (planned, see DESIGN.md section 5); '
                                                 'no claim is made until its TLA+ specification and conformance harness exist')}
        for p in props if p not in CHECKS]
  m = {
      'version': 1,
      'setup_cmd': './setup.sh',
      'hooks': {
          'guard': 'PARANOID_VERIF',
          'enable': 'no in-repo hooks: observation points are public functions / caller-owned protobufs; the harness wraps '
                    'module attributes from its own process (add-only, outside /repo)',
          'baseline_off_cmd': 'cd /repo && /venv/bin/python -m pytest -ra -q -p no:cacheprovider --timeout=900 '
                              '--continue-on-collection-errors',
          'source_commits': [],
          'add_only': True,
      },
      'engines': [{'name': 'tlc-trace', 'path': 'check', 'serves_properties': sorted(CHECKS),
                   'kind_free_text': 'TLA+ specifications under spec/ model-checked with TLC; scenarios generated by TLC; '
                                     'replay into /repo code; observations validated by TLC trace specifications'}],
      'checks': checks,
      'not_applicable': na,
      'notes': 'See DESIGN.md. Exit 2 of a check means machinery failure, not a verdict.',
  }
  with open(os.path.join(HOME, 'MANIFEST.json'), 'w') as f:
    json.dump(m, f, indent=1)
  print('MANIFEST.json: %d checks, %d not_applicable' % (len(checks), len(na)))


if __name__ == '__main__':
  main()
