"""C03 — shared-factor detection across a batch is exact for every batch shape.

1. TLC model-checks the symbolic product/remainder tree for every batch size
   0..130 (BatchGcd.tla, MC_PTree.cfg).
2. TLC generates bag scenarios (BatchGcdGen.tla).
3. The real code is replayed: ExtendedProductTree / FastProduct on symbolic
   leaves (free commutative semiring) for every n, BatchGCD / CheckGCD /
   CheckGCDN1 on concrete primes.
4. TLC validates every recorded observation (BatchGcdTrace.tla).
"""
import itertools
import json

import gmpy2

from pv import art
from pv import shim
from pv import tlc


class Poly:
  """Element of the free commutative semiring N[x_1..x_n]: {monomial(tuple of sorted leaf ids w/ repetition): coeff}."""
  __slots__ = ('m',)

  def __init__(self, m):
    self.m = m

  @staticmethod
  def leaf(i):
    return Poly({(i,): 1})

  def __mul__(self, o):
    if isinstance(o, int):
      return Poly({k: v * o for k, v in self.m.items()} if o else {})
    out = {}
    for a, ca in self.m.items():
      for b, cb in o.m.items():
        k = tuple(sorted(a + b))
        out[k] = out.get(k, 0) + ca * cb
    return Poly(out)

  __rmul__ = __mul__

  def __add__(self, o):
    if isinstance(o, int):
      o = Poly({(): o} if o else {})
    out = dict(self.m)
    for k, v in o.m.items():
      out[k] = out.get(k, 0) + v
    return Poly(out)

  __radd__ = __add__


def _tree_record(ntheory_util, n, sid):
  rec = {'sid': sid, 'ev': 'tree', 'args': {'n': n}, 'obs': {}, 'raised': 'none'}
  try:
    tree, t = ntheory_util.ExtendedProductTree([Poly.leaf(i) for i in range(1, n + 1)])
    levels = []
    ok = True
    for lv in tree:
      row = []
      for node in lv:
        if isinstance(node, Poly) and len(node.m) == 1 and list(node.m.values()) == [1]:
          row.append(list(next(iter(node.m))))
        else:
          ok = False
          row.append([])
      levels.append(row)
    if isinstance(t, int):
      t = Poly({(): t})
    rec['obs'] = {'levels': levels, 'tmono': [list(k) for k in sorted(t.m)],
                  'coef_one': ok and all(v == 1 for v in t.m.values())}
  except Exception as e:  # pylint: disable=broad-except
    rec['raised'] = type(e).__name__
  return rec


def _fastprod_record(ntheory_util, n, sid):
  rec = {'sid': sid, 'ev': 'fastprod', 'args': {'n': n}, 'obs': {}, 'raised': 'none'}
  try:
    p = ntheory_util.FastProduct([Poly.leaf(i) for i in range(1, n + 1)])
    if isinstance(p, int):
      p = Poly({(): p})
    if len(p.m) == 1:
      k, c = next(iter(p.m.items()))
      rec['obs'] = {'mono': list(k), 'coef': c}
    else:
      rec['obs'] = {'mono': [], 'coef': 0}
  except Exception as e:  # pylint: disable=broad-except
    rec['raised'] = type(e).__name__
  return rec


def _norm(bag):
  return {k: v for k, v in bag.items() if v}


class PrimeBook:
  """Concrete primes for abstract names; factors results back into bags."""

  def __init__(self, rng, bits_of):
    self.rng = rng
    self.bits_of = bits_of
    self.p = {}

  def get(self, name):
    if name not in self.p:
      if name == 'two':
        self.p[name] = 2
      else:
        while True:
          c = art.rand_prime(self.rng, self.bits_of(name))
          if c not in self.p.values():
            self.p[name] = c
            break
    return self.p[name]

  def value(self, bag):
    v = gmpy2.mpz(1)
    for k, e in bag.items():
      v *= gmpy2.mpz(self.get(k)) ** e
    return v

  def tobag(self, g):
    g = int(g)
    if g <= 0:
      return {}, False
    out = {}
    for k, p in self.p.items():
      e = 0
      while g % p == 0:
        g //= p
        e += 1
      if e:
        out[k] = e
    return out, g == 1


def _gcd_record(rsa_util, book, batch, extra, sid, use_extra_arg):
  batch = [_norm(b) for b in batch]
  extra = _norm(extra)
  rec = {'sid': sid, 'ev': 'gcd', 'args': {'batch': batch, 'extra': extra}, 'obs': {}, 'raised': 'none'}
  vals = [book.value(b) for b in batch]
  try:
    if extra or use_extra_arg:
      res = rsa_util.BatchGCD(vals, book.value(extra))
    else:
      res = rsa_util.BatchGCD(vals)
    bags = [book.tobag(g) for g in res]
    rec['obs'] = {'gcds': [b for b, _ in bags], 'clean': [c for _, c in bags]}
  except Exception as e:  # pylint: disable=broad-except
    rec['raised'] = type(e).__name__
  return rec, vals


def _factors_of(key, name):
  for a in key.test_info.attached_info:
    if a.info_name == name:
      return art.parse_factor_info(a.value)
  return []


def _check_record(check, ev, book, batch, sid, offset=0, k=None, info='N_FACTORS'):
  batch = [_norm(b) for b in batch]
  rec = {'sid': sid, 'ev': ev, 'args': {'batch': batch, 'extra': {}}, 'obs': {}, 'raised': 'none'}
  if k is not None:
    rec['args']['k'] = k
  keys = [art.rsa_key(book.value(b) + offset) for b in batch]
  try:
    ret = check.Check(keys)
    flag, weak, facs = [], [], []
    cname = type(check).__name__
    for key in keys:
      ent = [r for r in key.test_info.test_results if r.test_name == cname]
      flag.append(bool(ent and ent[0].result))
      weak.append(bool(key.test_info.weak))
      fl = _factors_of(key, info)
      fb = []
      for f in (fl or []):
        b, clean = book.tobag(f)
        fb.append(b if clean else {'UNKNOWN': 1})
      facs.append(fb)
    rec['obs'] = {'flag': flag, 'weak': weak, 'facs': facs, 'ret': bool(ret),
                  'ret_is_bool': isinstance(ret, bool)}
  except Exception as e:  # pylint: disable=broad-except
    rec['raised'] = type(e).__name__
  return rec


def _shape_batches(rng, n):
  """Batches of n values over distinct primes where chosen positions share a prime.

  Returns list of (batch as bags, description).  Positions refer to the caller's
  list; the code re-orders through set(), so several random pairs are used and
  the last/first positions are always included.
  """
  out = []
  names = ['q%d' % i for i in range(n)]
  base = [{names[i]: 1, 'r%d' % i: 1} for i in range(n)]
  if n == 0:
    return [([], 'empty')]
  if n == 1:
    return [([dict(base[0])], 'single')]
  pairs = {(0, n - 1), (n - 2, n - 1), (0, 1)}
  while len(pairs) < min(5, n * (n - 1) // 2):
    a, b = sorted(rng.sample(range(n), 2))
    pairs.add((a, b))
  for a, b in sorted(pairs):
    if a == b:
      continue
    batch = [dict(x) for x in base]
    batch[a]['s'] = 1
    batch[b]['s'] = 1
    del batch[a]['r%d' % a]
    del batch[b]['r%d' % b]
    out.append((batch, 'share(%d,%d)' % (a, b)))
  return out


def build_records(ctx, scenarios_small, scenarios_perm):
  shim.install()
  from paranoid_crypto.lib import ntheory_util, rsa_util, rsa_aggregate_checks
  rng = ctx.rng
  recs = []
  # (1) symbolic tree, every n
  sizes = list(range(0, 131))
  if not ctx.quick:
    sizes += [131, 191, 192, 193, 255, 256, 257, 300, 383, 511, 512, 513, 600]
  for n in sizes:
    recs.append(_tree_record(ntheory_util, n, 'tree-n%d' % n))
    recs.append(_fastprod_record(ntheory_util, n, 'fastprod-n%d' % n))
  # (2) real integers, tree shape: every n with shared primes at varying positions
  book = PrimeBook(rng, lambda name: 40)
  shape_sizes = list(range(0, 131)) if not ctx.quick else list(range(0, 40)) + [63, 64, 65, 96, 97, 127, 128, 129, 130]
  for n in shape_sizes:
    for j, (batch, desc) in enumerate(_shape_batches(rng, n)):
      if ctx.quick and j >= 2 and n > 8:
        break
      r, _ = _gcd_record(rsa_util, book, batch, {}, 'shape-n%d-%s' % (n, desc), False)
      recs.append(r)
  # (3) bag semantics from TLC scenarios
  book2 = PrimeBook(rng, lambda name: {'p1': 256, 'p2': 300, 'p3': 200, 'p4': 521}.get(name, 128))
  for i, scn in enumerate(scenarios_small):
    r, _ = _gcd_record(rsa_util, book2, scn['batch'], scn['extra'], 'bag-%06d' % i, bool(_norm(scn['extra'])))
    recs.append(r)
  # (4) all orderings of the multi-value scenarios through BatchGCD and CheckGCD
  chk = rsa_aggregate_checks.CheckGCD()
  book3 = PrimeBook(rng, lambda name: 512)
  for i, scn in enumerate(scenarios_perm):
    batch = scn['batch']
    perms = set(itertools.permutations(range(len(batch))))
    for j, perm in enumerate(sorted(perms)):
      pb = [batch[k] for k in perm]
      if j == 0 or len(batch) <= 3 or rng.random() < 0.2:
        recs.append(_check_record(chk, 'checkgcd', book3, pb, 'chk-%06d-p%d' % (i, j)))
  # (5) N-1 variant: n = 1 + 2^a * product of 64-bit primes; bound 2^(63k)
  book4 = PrimeBook(rng, lambda name: 64)
  book4.get('two')
  n1_scns = []
  G = ['g1', 'g2', 'g3']
  for k in (1, 2, 3):
    for shape in range(12 if ctx.quick else 40):
      ln = rng.choice([0, 1, 2, 3, 4, 5])
      batch = []
      for _ in range(ln):
        bag = {'two': rng.choice([1, 1, 2])}
        for g in G:
          bag[g] = rng.choice([0, 0, 1, 1, 2])
        bag['u%d' % rng.randrange(6)] = 1          # partially shared filler
        bag['w%d' % len(batch)] = rng.choice([0, 1])  # private filler
        batch.append(_norm(bag))
      if ln and rng.random() < 0.3:
        batch.append(dict(rng.choice(batch)))       # duplicate modulus
      n1_scns.append((k, batch))
  n1_scns.append((2, []))
  for i, (k, batch) in enumerate(n1_scns):
    c = rsa_aggregate_checks.CheckGCDN1(gcd_bound=2 ** (63 * k))
    # moduli must be >= 2^63: pad tiny ones with a private big prime
    pb = []
    for j, b in enumerate(batch):
      b = dict(b)
      if sum(v for kk, v in b.items() if kk != 'two') < 1:
        b['pad%d' % j] = 1
      pb.append(b)
    recs.append(_check_record(c, 'gcdn1', book4, pb, 'n1-%04d' % i, offset=1, k=k, info='N-1_FACTORS'))
    # the same batch with a bound that is NOT a power of two: the gcd of key j (by its definition, math.gcd), one less, one more
    vals = [book4.value(b) for b in pb]          # n_i - 1
    if len(pb) >= 2:
      import math
      j = rng.randrange(len(pb))
      others = 1
      for t_, v in enumerate(vals):
        if v != vals[j]:
          others *= v
      gj = math.gcd(int(vals[j]), int(others)) if others != 1 else 0
      if gj > 4:
        for off in (-1, 0, 1):
          c2 = rsa_aggregate_checks.CheckGCDN1(gcd_bound=gj + off)
          r2 = _check_record(c2, 'gcdn1x', book4, pb, 'n1x-%04d-%d' % (i, off + 1), offset=1, info='N-1_FACTORS')
          r2['args']['ref'] = j + 1
          r2['args']['off'] = off
          recs.append(r2)
  return recs


def run(ctx):
  ctx.trust('TLC 1.8 + CommunityModules Json/IOUtils', 'pv.shim (.proto mini-parser)',
            'Poly: 40-line free-semiring arithmetic used to execute the real tree code symbolically',
            'PrimeBook.tobag: trial division of results by the primes the harness generated',
            'gmpy2.is_prime for generating primes')
  ctx.assume('N-1 variant is read as: gcd(n_i - 1, product of the other distinct n_j - 1) >= bound; decided by TLC via '
             'the number of 64-bit primes in the expected gcd bag with bound = 2^(63k)')
  # 1. model check the symbolic tree, all n <= 130 (both tiers: 12 s)
  r = tlc.expect_holds('BatchGcd', 'MC_PTree.cfg',
                       require_actions=('BuildLevel', 'StartDescend', 'Descend', 'Finish'))
  ctx.note_mc(r, 'BatchGcd/MC_PTree: symbolic product+remainder tree, every n in 0..130, with and without extra product',
              'MaxN=130')
  # 2. scenarios
  def gen(cfg):
    g = tlc.run('BatchGcdGen', cfg, workers=1, coverage=False)
    if g.violated:
      raise tlc.MachineryError('generator %s: %s' % (cfg, g.error_text))
    ctx.note_mc(g, 'BatchGcdGen/%s scenario enumeration' % cfg)
    seen, out = set(), []
    for s in g.prints.get('SCN', []):
      key = json.dumps(s, sort_keys=True)
      if key not in seen:
        seen.add(key)
        out.append(s)
    if not out:
      raise tlc.MachineryError('generator %s produced no scenario' % cfg)
    return out
  small = gen('BatchGcdGen_quick.cfg')
  big = gen('BatchGcdGen_len3.cfg')
  if ctx.quick:
    big = ctx.rng.sample(big, 1500)
    perm_src = ctx.rng.sample(big, 150)
  else:
    big = big + ctx.rng.sample(gen('BatchGcdGen_len4.cfg'), 12000)
    perm_src = ctx.rng.sample(big, 1500)
  perm_src.append({'batch': [], 'extra': {}})
  recs = build_records(ctx, small + big, perm_src)
  if ctx.only_sid:
    recs = [r for r in recs if r['sid'] == ctx.only_sid]
  ctx.replayed = len(recs)
  for r in recs[:3] + recs[-2:]:
    ctx.sample({k: (v if k != 'obs' or len(json.dumps(v)) < 400 else '...') for k, v in r.items()})
  by_sid = {r['sid']: r for r in recs}
  consumed = 0
  CH = 20000
  for off in range(0, len(recs), CH):
    chunk = recs[off:off + CH]
    c, fails, tr = tlc.validate_trace('BatchGcdTrace', 'BatchGcdTrace.cfg', chunk, 'C03', timeout=3600)
    consumed += c
    ctx.note_mc(tr, 'BatchGcdTrace validation chunk')
    ctx.trace_failures(fails, by_sid, lambda rec, f: {
        'ev': rec['ev'], 'raised': rec['raised'], 'n': rec['args'].get('n', len(rec['args'].get('batch', []))),
        'batch': rec['args'].get('batch') if len(json.dumps(rec['args'])) < 300 else 'large'})
  ctx.validated = consumed
  ctx.distinct = set(by_sid)
  ctx.notes['exhaustive'] = False
  ctx.notes['tree_sizes_symbolic'] = 'every n in 0..130' + ('' if ctx.quick else ' plus 13 larger sizes to 600')


def selftest(ctx):
  """Binding demonstration: a corrupted field and a dropped level are rejected."""
  shim.install()
  from paranoid_crypto.lib import ntheory_util
  good = _tree_record(ntheory_util, 5, 'good')
  bad1 = json.loads(json.dumps(good))
  bad1['sid'] = 'corrupt-field'
  bad1['obs']['tmono'][0] = [1, 2, 3]
  bad2 = json.loads(json.dumps(good))
  bad2['sid'] = 'dropped-level'
  bad2['obs']['levels'].pop()
  _, fails, _ = tlc.validate_trace('BatchGcdTrace', 'BatchGcdTrace.cfg', [good, bad1, bad2], 'C03self')
  got = {f['sid']: f['clause'] for f in fails}
  assert got == {'corrupt-field': 'TValue', 'dropped-level': 'TreeShape'}, got
  print('selftest ok', got)
