"""C04 — RSA keys whose primes are close in a documented sense are always factored."""
from pv import families
from pv import shim
from pv import tlc


def fermat_small_records(quick):
  shim.install()
  from paranoid_crypto.lib import rsa_util
  recs = []
  for n in range(3, 3000):     # (TLC needs ~n/2 scan steps for a prime n: 3000 keeps the trace validation within minutes in both tiers)
    for ms in (1, 2, 5, 100, 100000):
      rec = {'sid': 'fermat-small-%d-%d' % (n, ms), 'ev': 'fermat', 'args': {'n': n, 'max_steps': ms}, 'obs': {}, 'raised': 'none'}
      try:
        res = rsa_util.FermatFactor(n, ms)
        rec['obs'] = {'p': int(res[0]), 'q': int(res[1])} if res else {'p': 0, 'q': 0}
      except Exception as e:  # pylint: disable=broad-except
        rec['raised'] = type(e).__name__
      recs.append(rec)
  return recs


def run(ctx):
  ctx.trust('TLC 1.8', 'pv.weak: (p+q)/2 - ceil(sqrt n), common low/high bits, D index computed from p and q (abstraction map)',
            'pv.checks.project', 'gmpy2 next_prime / is_prime')
  ctx.assume('completeness of the guess-based (Lehman / continued fraction) factoring is a claim about a heuristic: instances are '
             'catalogue instances with seeds derived from the cell, not from VERIF_SEED')
  r = tlc.expect_holds('MC_Checks', 'MC_Checks.cfg', timeout=3600)
  ctx.note_mc(r, 'Checks/MC_Checks (must => positive entry, evidence only when weak)')
  # the Fermat loop itself: transcription model-checked against the definition and the criterion, then the real function on every small n
  for ms in (1, 3, 40):
    r = tlc.expect_holds('Fermat', 'MC_Fermat_%d.cfg' % ms, require_actions=('Start', 'Loop'))
    ctx.note_mc(r, 'Fermat/MC_Fermat_%d: b2 = a^2 - n, sound, first square = definition, semiprime factored iff (p+q)/2 - ceil(sqrt n) < %d; '
                   'every n <= 2500' % (ms, ms))
  recs = fermat_small_records(ctx.quick)
  if ctx.only_sid:
    recs = [x for x in recs if x['sid'] == ctx.only_sid]
  if recs:
    c, fails, trs = tlc.validate_trace_parallel('FermatTrace', 'FermatTrace.cfg', recs, 'C04fermat', jobs=6)
    ctx.note_mc(trs[0], 'FermatTrace (first of %d chunks): rsa_util.FermatFactor on every n below the bound x five step bounds' % len(trs))
    extra_validated, extra_replayed = c, len(recs)
    by = {x['sid']: x for x in recs}
    ctx.trace_failures(fails, by, lambda rec, f: {'family': 'fermat-small', 'args': rec['args'], 'obs': rec['obs'], 'raised': rec['raised']})
  else:
    extra_validated = extra_replayed = 0
  if not ctx.only_sid or not ctx.only_sid.startswith('fermat-small'):
    families.run_family_check(ctx, 'C04', families.C04_FAMILIES, 1 if ctx.quick else 6)
  ctx.validated += extra_validated
  ctx.replayed += extra_replayed
  if recs:
    ctx.distinct.update(x['sid'] for x in recs)


def selftest(ctx):
  import json
  sid, rec, err = families.run_cell(({'family': 'fermat', 'pbits': 100, 'max_steps': 1000, 'steps': 999}, 0, 'C04'))
  assert err is None, err
  bad = json.loads(json.dumps(rec))
  bad['sid'] = 'corrupt'
  bad['arts'][0]['attrs']['steps'] = 1000      # same observation, criterion now says mustnot
  _, fails, _ = tlc.validate_trace('ChecksTrace', 'ChecksTrace.cfg', [rec, bad], 'C04self')
  got = sorted((f['sid'], f['clause']) for f in fails)
  assert ('corrupt', 'MustNotFlag') in got and not any(s == sid for s, _ in got), got
  print('selftest ok', got)
