"""C04 — RSA keys whose primes are close in a documented sense are always factored."""
from pv import families
from pv import tlc


def run(ctx):
  ctx.trust('TLC 1.8', 'pv.weak: (p+q)/2 - ceil(sqrt n), common low/high bits, D index computed from p and q (abstraction map)',
            'pv.checks.project', 'gmpy2 next_prime / is_prime')
  ctx.assume('completeness of the guess-based (Lehman / continued fraction) factoring is a claim about a heuristic: instances are '
             'catalogue instances with seeds derived from the cell, not from VERIF_SEED')
  r = tlc.expect_holds('MC_Checks', 'MC_Checks.cfg', timeout=3600)
  ctx.note_mc(r, 'Checks/MC_Checks (must => positive entry, evidence only when weak)')
  families.run_family_check(ctx, 'C04', families.C04_FAMILIES, 1 if ctx.quick else 6)


def selftest(ctx):
  import json
  sid, rec, err = families.run_cell(({'family': 'fermat', 'pbits': 100, 'max_steps': 1000, 'steps': 999}, 0, 'C04'))
  assert err is None, err
  bad = json.loads(json.dumps(rec))
  bad['sid'] = 'corrupt'
  bad['arts'][0]['attrs']['steps'] = 1000      # same observation, criterion now says mustnot
  _, fails, _ = tlc.validate_trace('ChecksTrace', 'ChecksTrace.cfg', [rec, bad], 'C04self')
  got = sorted((f['sid'], f['clause']) for f in fails)
  assert ('corrupt', 'MustNotFlag') in got and not any(s == sid for s, _ in got), got
  print('selftest ok', got)
