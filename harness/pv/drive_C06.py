"""C06 — checks with a closed-form criterion flag exactly the artifacts that meet it."""
import hashlib
import os
import json
import multiprocessing as mp
import random
import traceback

import gmpy2

from pv import art
from pv import checks
from pv import gen
from pv import shim
from pv import smallec
from pv import tlc

ROCA_P = [3, 5, 7, 11, 13, 17, 19, 23, 29, 31, 37, 41, 43, 47, 53, 59, 61, 67, 71, 73, 79, 83, 89, 97, 101, 103, 107, 109, 113, 127, 131,
          137, 139, 149, 151, 157, 163, 167, 173]
VAR_P = ROCA_P[1:] + [179, 181, 191, 193, 197, 199, 211, 223, 227, 229]


def prod(xs):
  r = 1
  for x in xs:
    r *= x
  return r


def exact_attrs(n, e_bytes, openssl='unknown', keypair='unknown'):
  e = int.from_bytes(e_bytes, 'big')
  return {'family': 'exact_rsa', 'bits': n.bit_length(), 'e': 65537 if e == 65537 else 0,
          'res39': [n % p for p in ROCA_P], 'res48': [n % p for p in VAR_P], 'openssl': openssl, 'keypair': keypair}


def near_roca_keys(rng, primes_idx=None):
  """Healthy semiprimes on the boundary of the ROCA fingerprint: p is a random 1024-bit prime, q a prime in the residue class that makes
  n = p q a power of 65537 modulo every one of the 39 primes except one, where it is not (one key per prime that has a non-power)."""
  M = prod(ROCA_P)
  out = []
  for j in (range(len(ROCA_P)) if primes_idx is None else primes_idx):
    res, usable = [], True
    for i, pp in enumerate(ROCA_P):
      powers, x = set(), 1
      while x not in powers:
        powers.add(x)
        x = x * 65537 % pp
      if i == j:
        non = [r for r in range(1, pp) if r not in powers]
        if not non:
          usable = False
          break
        res.append(rng.choice(non))
      else:
        res.append(rng.choice(sorted(powers)))
    if not usable:
      continue
    x, m = 0, 1
    for r, pp in zip(res, ROCA_P):
      x += m * (((r - x) * pow(m, -1, pp)) % pp)
      m *= pp
    p = art.rand_prime_top2(rng, 1024)
    q0 = x * pow(p, -1, M) % M
    while True:
      q = q0 + M * (rng.getrandbits(1024 - M.bit_length()) | (3 << (1022 - M.bit_length())))
      if q.bit_length() == 1024 and gmpy2.is_prime(q):
        break
    out.append(('nearroca-p%d' % ROCA_P[j], p * int(q), b'\x01\x00\x01', None))
  return out


def fingerprint(n):
  return 'RSA-%d:%s' % (n.bit_length(), hashlib.sha1(('Modulus=%X\n' % n).encode()).hexdigest()[20:])


def rsa_cases(rng, quick):
  """(tag, n, e_bytes, n_bytes override or None)."""
  out = []
  def sp(bits):
    a = gen.rsa_healthy(rng, 'x', bits)
    return a.meta['n'], a.meta['p'], a.meta['q']
  for bits in ([512, 1023, 1024, 2046, 2047, 2048, 2049, 3072, 4096, 8192] if not quick else [512, 1023, 1024, 2047, 2048, 2049, 3072, 4096]):
    if bits % 2:
      p = art.rand_prime_top2(rng, bits // 2 + 1)
      while True:
        q = art.rand_prime(rng, bits // 2)
        if (p * q).bit_length() == bits:
          break
      n = p * q
    else:
      n = sp(bits)[0]
    out.append(('size%d' % bits, n, b'\x01\x00\x01', None))
  out.append(('size-2^2047-1', 2 ** 2047 - 1, b'\x01\x00\x01', None))
  out.append(('size-2^2047', 2 ** 2047, b'\x01\x00\x01', None))
  out.append(('size-2^2048-1', 2 ** 2048 - 1, b'\x01\x00\x01', None))
  n2048 = sp(2048)[0]
  out.append(('size2048-leadingzeros', n2048, b'\x01\x00\x01', b'\0\0' + art.i2b(n2048)))
  n2047 = 2 ** 2047 - 1
  out.append(('size2047-leadingzero', n2047, b'\x01\x00\x01', b'\0' + art.i2b(n2047)))
  for e in (1, 3, 65536, 65537, 65539, 2 ** 32 + 1, 2 ** 64 + 65537):
    out.append(('exp%d' % e, sp(2048)[0], art.i2b(e), None))
  out.append(('exp-empty', sp(2048)[0], b'', None))
  out.append(('exp-f4-leadingzero', sp(2048)[0], b'\0\x01\x00\x01', None))
  out.append(('exp-f4-4bytes', sp(2048)[0], b'\0\0\0\x01\x00\x01', None))
  # ROCA-structured: both primes are powers of 65537 modulo the product of the 39 primes
  M = prod(ROCA_P)
  def roca_prime(bits):
    while True:
      a = rng.randrange(1, 10 ** 6)
      k = rng.getrandbits(bits - M.bit_length()) | (1 << (bits - M.bit_length() - 1))
      p = k * M + pow(65537, a, M)
      if p.bit_length() == bits and gmpy2.is_prime(p):
        return p
  for i in range(3 if quick else 20):
    out.append(('roca%d' % i, roca_prime(512) * roca_prime(512), b'\x01\x00\x01', None))
  # a power of 65537 modulo every ROCA prime but one (boundary of the ROCA criterion, one case per omitted prime)
  def crt(res, primes):
    x, m = 0, 1
    for r, pp in zip(res, primes):
      x += m * (((r - x) * pow(m, -1, pp)) % pp)
      m *= pp
    return x, m
  for j in ([0, 1, 2, 19, 37, 38] if quick else range(len(ROCA_P))):
    res = []
    for i, pp in enumerate(ROCA_P):
      powers = set()
      x = 1
      while x not in powers:
        powers.add(x)
        x = x * 65537 % pp
      if i == j:
        non = [r for r in range(1, pp) if r not in powers]
        if not non:
          res.append(0)       # 65537 generates every non-zero residue modulo this prime: the only non-power is 0
        else:
          res.append(rng.choice(non))
      else:
        res.append(rng.choice(sorted(powers)))
    x, m = crt(res, ROCA_P)
    n = x + m * (rng.getrandbits(2048 - m.bit_length()) | (1 << (2047 - m.bit_length())))
    out.append(('almostroca-p%d' % ROCA_P[j], n, b'\x01\x00\x01', None))
  out += near_roca_keys(rng, [0, 1, 2, 19, 23, 37, 38] if quick else None)
  # quadratic residue modulo all 48 primes without the ROCA structure: q = p mod (product of the 48 primes)
  M48 = prod(VAR_P)
  for i in range(3 if quick else 20):
    p = art.rand_prime_top2(rng, 1024)
    while True:
      q = p + M48 * (rng.getrandbits(1024 - M48.bit_length() - 2) | 1) * 2
      if gmpy2.is_prime(q):
        break
    out.append(('variant%d' % i, p * q, b'\x01\x00\x01', None))
  # quadratic non-residue at exactly one of the 48 primes (boundary of the variant criterion)
  # ... one key per prime of the table (each of the 48 conditions on its own), plus random repeats in the thorough tier
  for i in (list(range(len(VAR_P))) + ([] if quick else [rng.randrange(len(VAR_P)) for _ in range(10)])):
    p = art.rand_prime_top2(rng, 1024)
    j = i if i < len(VAR_P) else rng.randrange(len(VAR_P))
    pj = VAR_P[j]
    nonres = [x for x in range(1, pj) if pow(x, (pj - 1) // 2, pj) == pj - 1]
    Mrest = M48 // pj
    while True:
      # q = p modulo the other primes, q = p * nonresidue / p^2 ... choose q with q*p a non-residue mod pj
      t = rng.choice(nonres)
      want = t * pow(p, -1, pj) % pj
      # CRT: q = p (mod Mrest), q = want (mod pj)
      q0 = (p % Mrest) + Mrest * (((want - p % Mrest) * pow(Mrest, -1, pj)) % pj)
      # M48 is odd: the multiplier's parity is chosen so that q is odd (for pj = 3 there is one q0 only, and an even q0 plus an even
      # multiple of M48 never is prime: the thorough tier's random stream hit that and searched forever)
      r = rng.getrandbits(1024 - M48.bit_length() - 1)
      q = q0 + M48 * (r + (q0 + r + 1) % 2)
      if gmpy2.is_prime(q):
        break
    out.append(('almostvariant-p%d-%d' % (pj, len(out)), p * q, b'\x01\x00\x01', None))
  # quadratic non-residue at exactly TWO of the 48 primes (a product-of-primes / Jacobi-symbol shortcut would accept these)
  for (j1, j2) in ([(0, 1), (8, 15), (40, 47), (3, 30)] if quick else [(0, 1), (2, 7), (8, 15), (9, 10), (16, 23), (24, 31), (32, 39), (40, 47), (3, 30), (5, 44)]):
    res = []
    for i, pp in enumerate(VAR_P):
      sq = sorted(set(x * x % pp for x in range(1, pp)))
      non = [x for x in range(1, pp) if x not in sq]
      res.append(rng.choice(non) if i in (j1, j2) else rng.choice(sq))
    x, m = crt(res, VAR_P)
    n = x + m * (rng.getrandbits(2048 - m.bit_length()) | (1 << (2047 - m.bit_length())))
    out.append(('twononres-%d-%d' % (VAR_P[j1], VAR_P[j2]), n, b'\x01\x00\x01', None))
  for sm in (5, 229):
    out.append(('multiple-of-%d' % sm, sm * art.rand_prime_top2(rng, 2040), b'\x01\x00\x01', None))
  for i in range(3 if quick else 30):
    out.append(('random%d' % i, sp(2048)[0], b'\x01\x00\x01', None))
  return out


def rsa_worker(args):
  tag, n, e_bytes, n_bytes, listed, other_type = args
  try:
    shim.install()
    from paranoid_crypto.lib import paranoid  # noqa
    from paranoid_crypto.lib import rsa_single_checks as rs
    from paranoid_crypto.lib.data import default_storage
    base = default_storage.DefaultStorage()
    fp = fingerprint(n)
    entries = set()
    if listed:
      entries.add(fp)
    if other_type:
      entries.add('RSA-%d:%s' % (n.bit_length() + 1024, fp.split(':')[1]))   # same hash under another key type
    entries.add('RSA-2048:' + '0' * 20)
    class Store(type(base)):
      def GetOpensslDenylist(self):
        return set(entries)
    st = Store()
    key = art.rsa_key(n)
    key.rsa_info.e = e_bytes
    if n_bytes is not None:
      key.rsa_info.n = n_bytes
    a = checks.Art('k', 'rsa', key, 'exact-' + tag, n=int(n), crit={c: 'may' for c in gen.RSA_CHECKS},
                   attrs=exact_attrs(int(n), e_bytes, openssl='listed' if listed else 'notlisted', keypair='unknown'))
    objs = [rs.CheckSizes(), rs.CheckExponents(), rs.CheckROCA(), rs.CheckROCAVariant(), rs.CheckOpensslDenylist(paranoid_storage=st)]
    names = [type(o).__name__ for o in objs]
    def fn():
      ret = False
      for o in objs:
        ret = o.Check([a.proto]) or ret
      return ret
    rec = checks.record_call('C06-rsa-%s-%s%s' % (tag, 'L' if listed else 'N', 'o' if other_type else ''), 'rsa', [a], fn, names, {a.aid: a.meta['crit']})
    rec['scenario'] = {'tag': tag, 'listed': listed, 'n_hex': format(n, 'x')[:64] + '...'}
    return rec, None
  except Exception:  # pylint: disable=broad-except
    return None, traceback.format_exc()


_KP_FIXTURE = None


def keypair_fixture():
  """(bits, seed byte) -> modulus the vulnerable generator produces for that covered seed: spec/fixtures/keypair_moduli.ndjson, written
  from the pinned tree's keypair_generator (which reproduces upstream's three real keypair.js moduli and whose 768 moduli all carry the
  64 leading bits of the shipped table).  Ground truth that does not move when the code does."""
  global _KP_FIXTURE
  if _KP_FIXTURE is None:
    import base64
    _KP_FIXTURE = {}
    for line in open(os.path.join(tlc.SPEC, 'fixtures', 'keypair_moduli.ndjson')):
      r = json.loads(line)
      _KP_FIXTURE[(r['bits'], r['seed_byte'])] = int.from_bytes(base64.b64decode(r['n']), 'big')
  return _KP_FIXTURE


def keypair_worker(args):
  bits, seed_hex, covered = args
  try:
    shim.install()
    from paranoid_crypto.lib import paranoid  # noqa
    from paranoid_crypto.lib import rsa_single_checks as rs, keypair_generator
    seed = bytes.fromhex(seed_hex)
    meta = {}
    if covered:
      n = keypair_fixture()[(bits, seed[0])]          # the real key: independent of the code under test
      meta = {'primes_unknown': True}
    else:
      p, q = keypair_generator.Generator(seed).generate_key(bits)
      n = int(p) * int(q)
      meta = {'p': int(p), 'q': int(q)}
    a = checks.Art('k', 'rsa', art.rsa_key(n), 'keypair', n=n, crit={c: 'may' for c in gen.RSA_CHECKS},
                   attrs=exact_attrs(n, b'\x01\x00\x01', keypair='covered' if covered else 'uncovered'), **meta)
    chk = rs.CheckKeypairDenylist()
    rec = checks.record_call('C06-keypair-%d-%s' % (bits, seed_hex[:6]), 'rsa', [a], lambda: chk.Check([a.proto]), ['CheckKeypairDenylist'],
                             {a.aid: a.meta['crit']})
    rec['scenario'] = {'bits': bits, 'seed': seed_hex, 'covered': covered}
    return rec, None
  except Exception:  # pylint: disable=broad-except
    return None, traceback.format_exc()


def keypair_history_worker(args):
  """One CheckKeypairDenylist object over a history: the same covered seed at several sizes, each followed by a
  neighbour modulus with the same 64 leading bits that the generator did not produce, then everything in one batch."""
  b0, sizes, prefix = args
  try:
    shim.install()
    from paranoid_crypto.lib import paranoid  # noqa
    from paranoid_crypto.lib import rsa_single_checks as rs, keypair_generator
    seed = bytes([b0] + [0] * 31)
    chk = rs.CheckKeypairDenylist()
    recs, made = [], []
    def mk(aid, n, pq, covered):
      at = exact_attrs(n, b'\x01\x00\x01', keypair='covered' if covered else 'neighbour')
      return checks.Art(aid, 'rsa', art.rsa_key(n), 'keypair' if covered else 'keypairnb', n=n, crit={c: 'may' for c in gen.RSA_CHECKS}, attrs=at,
                        **({'p': pq[0], 'q': pq[1]} if pq else {'primes_unknown': covered}))
    for step, bits in enumerate(sizes):
      n = keypair_fixture()[(bits, b0)]
      for covered, m, pq in ((True, n, None), (False, n + 2, None)):
        a = mk('k%d%s' % (step, 'c' if covered else 'n'), m, pq, covered)
        rec = checks.record_call('%s-kphist-%d-%d-%d%s' % (prefix, b0, step, bits, 'c' if covered else 'n'), 'rsa', [a],
                                 lambda: chk.Check([a.proto]), ['CheckKeypairDenylist'], {a.aid: a.meta['crit']})
        rec['scenario'] = {'seed_byte': b0, 'history': list(sizes[:step + 1]), 'bits': bits, 'covered': covered}
        recs.append(rec)
        made.append((covered, m, pq))
    arts = [mk('b%d' % i, m, pq, covered) for i, (covered, m, pq) in enumerate(reversed(made))]
    rec = checks.record_call('%s-kphist-%d-batch' % (prefix, b0), 'rsa', arts, lambda: chk.Check([a.proto for a in arts]), ['CheckKeypairDenylist'],
                             {a.aid: a.meta['crit'] for a in arts})
    rec['scenario'] = {'seed_byte': b0, 'history': list(sizes), 'batch': True}
    recs.append(rec)
    return recs, None
  except Exception:  # pylint: disable=broad-except
    return None, traceback.format_exc()


def keypair_histories(quick, rng, prefix):
  import itertools
  if quick:
    return [(11, (2048, 3072), prefix), (200, (4096, 2048), prefix), (rng.randrange(256), (3072, 2048, 4096), prefix)]
  perms = list(itertools.permutations((2048, 3072, 4096)))
  return [(b0, perms[i % 6], prefix) for i, b0 in enumerate(rng.sample(range(256), 36))]


def ec_records(rng, quick):
  shim.install()
  from paranoid_crypto.lib import paranoid  # noqa
  from paranoid_crypto.lib import ec_single_checks as es
  recs = []
  nc = gen.named_curves()
  c1, c2 = es.CheckValidECKey(), es.CheckWeakCurve()
  def one(tag, ct, x, y, rc):
    known = rc is not None
    attrs = {'family': 'exact_ec', 'known': known,
             'on_curve': bool(known and rc.on_curve((x, y))),
             'in_range': bool(known and 0 <= x < rc.p and 0 <= y < rc.p),
             'order_bits': rc.n.bit_length() if known else 0}
    a = checks.Art('k', 'ec', art.ec_key(ct, x, y), 'exact-' + tag, crit={c: 'may' for c in gen.EC_CHECKS}, attrs=attrs)
    def fn():
      r1 = c1.Check([a.proto])
      r2 = c2.Check([a.proto])
      return r1 or r2
    rec = checks.record_call('C06-ec-%s' % tag, 'ec', [a], fn, ['CheckValidECKey', 'CheckWeakCurve'], {a.aid: a.meta['crit']})
    rec['scenario'] = {'tag': tag, 'attrs': attrs}
    recs.append(rec)
  for name, (ct, _, rc) in sorted(nc.items()):
    d = rng.randrange(2, rc.n)
    P = rc.mul(d, rc.g)
    one('%s-valid' % name, ct, P[0], P[1], rc)
    one('%s-offcurve' % name, ct, P[0], (P[1] + 1) % rc.p, rc)
    one('%s-zero' % name, ct, 0, 0, rc)
    one('%s-xplusp' % name, ct, P[0] + rc.p, P[1], rc)
    one('%s-yplusp' % name, ct, P[0], P[1] + rc.p, rc)
    one('%s-pp' % name, ct, rc.p, rc.p, rc)
    one('%s-huge' % name, ct, 2 ** 521 + P[0], P[1], rc)
    one('%s-generator' % name, ct, rc.g[0], rc.g[1], rc)
    one('%s-neg' % name, ct, P[0], (-P[1]) % rc.p, rc)
  for ct in list(range(0, 1)) + list(range(7, 17)) + [20, 25]:
    one('curve%d' % ct, ct, rng.getrandbits(200), rng.getrandbits(200), None)
  return recs


def small_valid_records(tag, quick, rng):
  c = smallec.make(tag)
  p = c.mod
  recs = []
  rngx = range(0, 2 * int(p)) if not quick else sorted(set(list(range(0, 6)) + list(range(int(p) - 3, int(p) + 4)) +
                                                        [rng.randrange(2 * int(p)) for _ in range(25)]))
  import gmpy2 as g
  for x in rngx:
    for y in rngx:
      rec = {'sid': '%s-valid-%d-%d' % (tag, x, y), 'ev': 'valid', 'args': {'x': x, 'y': y}, 'obs': {}, 'raised': 'none'}
      try:
        rec['obs'] = {'valid': bool(c.IsValidPublicKey((g.mpz(x), g.mpz(y))))}
      except Exception as e:  # pylint: disable=broad-except
        rec['raised'] = type(e).__name__
      recs.append(rec)
  if quick:
    # every point of the curve (reduced coordinates), so that the subgroup clause of cofactor curves is exercised
    for x in range(int(p)):
      for y in range(int(p)):
        if (y * y - (x * x * x + int(c.a) * x + int(c.b))) % int(p) == 0:
          rec = {'sid': '%s-valid-on-%d-%d' % (tag, x, y), 'ev': 'valid', 'args': {'x': x, 'y': y}, 'obs': {}, 'raised': 'none'}
          try:
            rec['obs'] = {'valid': bool(c.IsValidPublicKey((g.mpz(x), g.mpz(y))))}
          except Exception as e:  # pylint: disable=broad-except
            rec['raised'] = type(e).__name__
          recs.append(rec)
  return recs


def run(ctx):
  ctx.trust('TLC 1.8', 'residues n mod p, bit lengths, hashlib fingerprint membership, reference on-curve / range tests (abstraction map)',
            'the repository\'s keypair_generator defines which keys a covered seed produces')
  ctx.assume('a modulus divisible by one of the 48 small primes is "may" for the variant check (whether 0 counts as a quadratic residue '
             'is a convention)')
  rng = ctx.rng
  smallec.check_cfgs()
  # T1: IsValidPublicKey on whole coordinate squares of small curves, incl. cofactor 2 and 4
  tags = list(smallec.CURVES) if not ctx.quick else ['c59a', 'h2', 'h4']
  for t in tags:
    r = tlc.expect_holds('MC_Ec', 'MC_Ec_%s.cfg' % t)
    ctx.note_mc(r, 'EcGroup/MC_Ec_%s' % t)
    recs = small_valid_records(t, ctx.quick, rng)
    if ctx.only_sid:
      recs = [x for x in recs if x['sid'] == ctx.only_sid]
    if not recs:
      continue
    c, fails, trs = tlc.validate_trace_parallel('EcTrace', 'EcTrace_%s.cfg' % t, recs, 'C06-' + t, jobs=6)
    ctx.validated += c
    ctx.replayed += len(recs)
    by = {x['sid']: x for x in recs}
    ctx.trace_failures(fails, by, lambda rec, f: {'curve': t, 'ev': 'valid', 'args': rec['args'], 'obs': rec['obs'], 'raised': rec['raised']})
    ctx.distinct.update(by)
  # T1/T2: RSA criteria (TLC re-derives both ROCA tables from the prime lists) and EC criteria on named curves
  r = tlc.expect_holds('MC_Checks', 'MC_Checks.cfg', timeout=3600)
  ctx.note_mc(r, 'Checks/MC_Checks')
  cases = rsa_cases(rng, ctx.quick)
  jobs = []
  for i, (tag, n, e_bytes, n_bytes) in enumerate(cases):
    jobs.append((tag, n, e_bytes, n_bytes, i % 2 == 0, i % 3 == 0))
    if i % 5 == 0 or tag.startswith('size'):
      # every size in the user-supplied list AND out of it (the list is keyed by "RSA-<bits>:<fingerprint>" for any bit length)
      jobs.append((tag, n, e_bytes, n_bytes, i % 2 == 1, False))
  seeds = []
  for bits in [2048, 3072, 4096]:
    firsts = range(256)
    for b0 in firsts:
      seeds.append((bits, bytes([b0] + [0] * 31).hex(), True))
    for b0 in ([5] if ctx.quick else [0, 37, 74, 111, 148, 185, 222]):
      seeds.append((bits, bytes([b0, 3] + [0] * 30).hex(), False))
  mpctx = mp.get_context('fork')
  from pv import proc
  res = list(proc.imap_unordered(rsa_worker, jobs, procs=15, chunk=2)) + list(proc.imap_unordered(keypair_worker, seeds, procs=15))
  hres = list(proc.imap_unordered(keypair_history_worker, keypair_histories(ctx.quick, rng, 'C06'), procs=15))
  recs = []
  for rec, err in res:
    if err:
      raise tlc.MachineryError('C06 worker crashed:\n%s' % err)
    recs.append(rec)
  for hrecs, err in hres:
    if err:
      raise tlc.MachineryError('C06 worker crashed:\n%s' % err)
    recs += hrecs
  recs += ec_records(rng, ctx.quick)
  if ctx.only_sid:
    recs = [x for x in recs if x['sid'] == ctx.only_sid]
  ctx.replayed += len(recs)
  if recs:
    for x in recs[:2] + recs[-1:]:
      ctx.sample({'sid': x['sid'], 'scenario': x.get('scenario'), 'entries': x['arts'][0]['after']['entries']})
    c, fails, trs = tlc.validate_trace_parallel('ChecksTrace', 'ChecksTrace.cfg', recs, 'C06', jobs=8, timeout=3600)
    ctx.note_mc(trs[0], 'ChecksTrace with exact criteria incl. Roca.tla (first of %d chunks)' % len(trs))
    ctx.validated += c
    by = {x['sid']: x for x in recs}
    ctx.trace_failures(fails, by, lambda rec, f: {'scenario': rec.get('scenario'), 'raised': rec['raised'],
                                                  'entries': [(e['name'], e['result']) for e in rec['arts'][0]['after']['entries']]})
    ctx.distinct.update(by)


def selftest(ctx):
  rec, err = rsa_worker(('self', 2 ** 2047 - 1, b'\x01\x00\x01', None, False, False))
  assert err is None, err
  bad = json.loads(json.dumps(rec))
  bad['sid'] = 'corrupt'
  bad['arts'][0]['attrs']['bits'] = 2048
  _, fails, _ = tlc.validate_trace('ChecksTrace', 'ChecksTrace.cfg', [rec, bad], 'C06self')
  got = sorted((f['sid'], f['clause']) for f in fails)
  assert ('corrupt', 'MustNotFlag') in got and not any(s == rec['sid'] for s, _ in got), got
  print('selftest ok', got)
