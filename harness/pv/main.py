"""./check Cxx [--tier quick|thorough] [--replay PATH] [--selftest]

Exit 0: property held on everything explored (known findings printed as KNOWN-FINDING).
Exit 1: a violation not listed in known_findings.jsonl (one VIOLATION line each).
Exit 2: machinery failure (TLC crash, vacuity, unparsable output) — says nothing about the property.
"""
import argparse
import hashlib
import importlib
import json
import os
import random
import sys
import time
import traceback

from pv import tlc

HOME = os.environ.get('VERIF_HOME', '/verif')
# evidence / replays go under VERIF_OUT when set (used by tools/seed_eval.py --scratch so that seeded runs never touch the committed evidence)
OUT = os.environ.get('VERIF_OUT', HOME)


class Ctx:
  """Accumulates what a run covered and what it found."""

  def __init__(self, prop, tier, seed):
    self.prop = prop
    self.tier = tier
    self.seed = seed
    self.rng = random.Random('%s-%s' % (prop, seed))
    self.states = 0
    self.transitions = 0
    self.validated = 0
    self.replayed = 0
    self.evaluations = 0
    self.samples = []
    self.checker_cmds = []
    self.trusted_base = set()
    self.assumptions = []
    self.violations = []  # dicts
    self.known = []
    self.notes = {}
    self.models = []
    self.t0 = time.time()
    self.skipped = []
    self.known_findings = _load_findings(prop)
    self.only_sid = None
    self.distinct = set()

  @property
  def quick(self):
    return self.tier == 'quick'

  def note_mc(self, r, label, constants=''):
    self.states += r.distinct
    self.transitions += r.generated
    self.checker_cmds.append(r.cmd)
    self.models.append({'model': label, 'distinct_states': r.distinct, 'states_generated': r.generated,
                        'depth': r.depth, 'wall_s': round(r.wall, 1), 'constants': constants,
                        'actions': {k: v[1] for k, v in r.coverage.items() if k not in ('Init',)}})

  def sample(self, obj, limit=6):
    if len(self.samples) < limit:
      self.samples.append(obj)

  def trust(self, *items):
    self.trusted_base.update(items)

  def assume(self, text):
    if text not in self.assumptions:
      self.assumptions.append(text)

  def skip(self, what):
    self.skipped.append(what)

  def violation(self, clause, sid, detail, scenario=None):
    """Registers a failed clause. detail: small dict of facts identifying the failing input."""
    detail = dict(detail or {})
    v = {'property': self.prop, 'clause': clause, 'sid': sid, 'detail': detail}
    for kf in self.known_findings:
      if kf.get('status', 'known') != 'known':
        continue
      if kf.get('clause') not in (None, clause):
        continue
      if all(_match(detail.get(k), want) for k, want in kf.get('match', {}).items()):
        key = (kf['what'],)
        if key not in [k for k, _ in self.known]:
          self.known.append((key, kf))
          print('KNOWN-FINDING: property=%s %s' % (self.prop, kf['what']), flush=True)
        return False
    h = hashlib.sha1(json.dumps([clause, sid, detail], sort_keys=True, default=str).encode()).hexdigest()[:12]
    os.makedirs(os.path.join(OUT, 'replays'), exist_ok=True)
    path = os.path.join(OUT, 'replays', '%s-%s.json' % (self.prop, h))
    v['scenario'] = scenario
    v['seed'] = self.seed
    v['tier'] = self.tier
    with open(path, 'w') as f:
      json.dump(v, f, indent=1, default=str)
    if len(self.violations) < 25:
      print('VIOLATION property=%s replay=%s' % (self.prop, path), flush=True)
      print('  clause=%s sid=%s detail=%s' % (clause, sid, json.dumps(detail, default=str)[:600]), flush=True)
    self.violations.append(v)
    return True

  def trace_failures(self, fails, records_by_sid=None, detail_of=None):
    """Turns FAIL entries of a trace specification into violations."""
    n = 0
    for f in fails:
      sid = f.get('sid')
      rec = records_by_sid.get(sid) if records_by_sid else None
      if rec is None and records_by_sid is not None and 'tid' in f:
        rec = records_by_sid.get(f['tid'])
      det = detail_of(rec, f) if (detail_of and rec is not None) else {}
      if self.violation(f.get('clause'), sid, det, scenario=rec):
        n += 1
    return n


def _match(have, want):
  if isinstance(want, dict):
    if 'in' in want:
      return have in want['in']
    if 'ne' in want:
      return have != want['ne']
    if 'ge' in want:
      return have is not None and have >= want['ge']
  return have == want


def _load_findings(prop):
  out = []
  path = os.path.join(HOME, 'known_findings.jsonl')
  if os.path.exists(path):
    for line in open(path):
      line = line.strip()
      if not line or line.startswith('#'):
        continue
      d = json.loads(line)
      if d.get('property') == prop:
        out.append(d)
  return out


def write_evidence(ctx, extra_cov=None):
  cov = {
      'states': ctx.states,
      'transitions': ctx.transitions,
      'traces_validated_against_impl': ctx.validated,
      'samples': ctx.samples or [{'note': 'no sample recorded'}],
      'evaluations': max(ctx.evaluations, ctx.replayed, ctx.validated),
      'distinct_nontrivial': len(ctx.distinct) if ctx.distinct else ctx.validated,
      'rule': ctx.notes.get('rule', 'scenarios are generated by TLC from the specification (states of a generator '
                            'config or -simulate behaviours), replayed into the code from /repo, and each recorded '
                            'observation is validated by the TLC trace specification; distinct = distinct scenario ids'),
      'checker_cmd': ' ; '.join(dict.fromkeys(ctx.checker_cmds))[:4000],
      'trusted_base': sorted(ctx.trusted_base),
      'models': ctx.models,
      'replayed_into_impl': ctx.replayed,
      'known_findings_hit': [k['what'] for _, k in ctx.known],
      'skipped': ctx.skipped,
  }
  for k, v in ctx.notes.items():
    if k != 'rule':
      cov[k] = v
  if extra_cov:
    cov.update(extra_cov)
  ev = {
      'property_id': ctx.prop,
      'tier': ctx.tier,
      'seed': ctx.seed,
      'level': 'model_checking',
      'coverage': cov,
      'assumptions': ctx.assumptions,
      'wall_s': round(time.time() - ctx.t0, 2),
      'violations': len(ctx.violations),
  }
  os.makedirs(os.path.join(OUT, 'evidence'), exist_ok=True)
  path = os.path.join(OUT, 'evidence', '%s.json' % ctx.prop)
  tmp = path + '.tmp'
  with open(tmp, 'w') as f:
    json.dump(ev, f, indent=1, default=str)
  os.replace(tmp, path)
  return path


def main(argv=None):
  ap = argparse.ArgumentParser()
  ap.add_argument('prop')
  ap.add_argument('--tier', default=os.environ.get('VERIF_TIER', 'quick'), choices=['quick', 'thorough'])
  ap.add_argument('--replay')
  ap.add_argument('--selftest', action='store_true')
  ap.add_argument('--seed', type=int, default=None)
  args = ap.parse_args(argv)
  seed = args.seed if args.seed is not None else int(os.environ.get('VERIF_SEED', '1') or 1)
  prop = args.prop.upper()
  ctx = Ctx(prop, args.tier, seed)
  if not args.replay:
    import glob
    for old in glob.glob(os.path.join(OUT, 'replays', '%s-*.json' % prop)):
      os.unlink(old)
  try:
    drv = importlib.import_module('pv.drive_%s' % prop)
    if args.replay:
      rep = json.load(open(args.replay))
      ctx.tier = rep.get('tier', ctx.tier)
      ctx.seed = rep.get('seed', ctx.seed)
      ctx.rng = random.Random('%s-%s' % (prop, ctx.seed))
      ctx.only_sid = rep.get('sid')
      if hasattr(drv, 'replay'):
        drv.replay(ctx, rep)
      else:
        drv.run(ctx)
    elif args.selftest:
      drv.selftest(ctx)
    else:
      drv.run(ctx)
  except tlc.MachineryError as e:
    print('MACHINERY-FAILURE property=%s: %s' % (prop, e), file=sys.stderr, flush=True)
    return 2
  except Exception:  # pylint: disable=broad-except
    traceback.print_exc()
    print('MACHINERY-FAILURE property=%s: driver crashed' % prop, file=sys.stderr, flush=True)
    return 2
  if not args.replay and not args.selftest:
    write_evidence(ctx)
  wall = time.time() - ctx.t0
  print('%s tier=%s seed=%s states=%d transitions=%d replayed=%d validated=%d violations=%d known=%d wall=%.1fs' %
        (prop, ctx.tier, ctx.seed, ctx.states, ctx.transitions, ctx.replayed, ctx.validated,
         len(ctx.violations), len(ctx.known), wall), flush=True)
  return 1 if ctx.violations else 0


if __name__ == '__main__':
  sys.exit(main())
