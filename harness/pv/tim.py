"""Stateful trace validation of util.py (SetTestResult / AttachInfo / AttachFactors) against TestInfoMachine.tla."""
import os
import shutil

from pv import art
from pv import shim
from pv import tlc

FACTORS = {1: 0x10001, 2: 0xC5, 3: 0x3B9ACA07}     # concrete values behind the abstract factor ids
FIELD = {'nf': 'N_FACTORS', 'nm1': 'N-1_FACTORS'}


def replay(sid, ops):
  shim.install()
  from paranoid_crypto.lib import paranoid  # noqa
  from paranoid_crypto.lib import util
  pb = art.pb2()
  libv = art.lib_version()
  key = pb.RSAKey()
  ti = key.test_info
  recs = [{'sid': sid, 'ev': 'start', 'raised': 'none'}]
  inv = {v: k for k, v in FACTORS.items()}
  for i, op in enumerate(ops):
    rec = dict(op)
    rec.update({'sid': sid, 'ev': 'op', 'step': i + 1, 'raised': 'none', 'fs': sorted(op.get('fs') or [])})
    try:
      if op['op'] == 'set':
        e = pb.TestResultsEntry(test_name=op['name'], result=bool(op['result']), severity=int(op['sev']))
        util.SetTestResult(ti, e)
      elif op['op'] == 'info':
        util.AttachInfo(ti, op['name'], op['value'])
      else:
        util.AttachFactors(ti, FIELD[op['field']], [FACTORS[f] for f in op['fs']])
    except Exception as ex:  # pylint: disable=broad-except
      rec['raised'] = type(ex).__name__
    # full projection of the protobuf after the call (own parser), plus the library's read operations
    def facs(name):
      for a in ti.attached_info:
        if a.info_name == name:
          fl = art.parse_factor_info(a.value) or []
          return sorted(inv.get(f, 0) for f in fl)
      return []
    hs = None
    get = {}
    try:
      hs = util.GetHighestSeverity(ti)
      for nm in ('CheckA', 'CheckB'):
        r = util.GetTestResult(ti, nm)
        get[nm] = {'present': r is not None, 'result': bool(r.result) if r is not None else False, 'sev': int(r.severity) if r is not None else 0}
    except Exception as ex:  # pylint: disable=broad-except
      rec['raised'] = type(ex).__name__
      get = {nm: {'present': False, 'result': False, 'sev': 0} for nm in ('CheckA', 'CheckB')}
    rec['obs'] = {'weak': bool(ti.weak), 'version': 'LIB' if ti.paranoid_lib_version else '', 'version_is_lib': ti.paranoid_lib_version == libv,
                  'entries': [{'name': r.test_name, 'result': bool(r.result), 'sev': int(r.severity)} for r in ti.test_results],
                  'nf': facs('N_FACTORS'), 'nm1': facs('N-1_FACTORS'),
                  'infos': [{'name': a.info_name, 'value': a.value} for a in ti.attached_info if a.info_name not in FIELD.values()],
                  'highest': -1 if hs is None else int(hs), 'get': get}
    recs.append(rec)
  return recs


def run(ctx, num):
  r = tlc.expect_holds('MC_TIM', 'MC_TIM.cfg', timeout=1800)
  ctx.note_mc(r, 'TestInfoMachine/MC_TIM: every sequence of 4 util.py operations (SetTestResult / AttachInfo / AttachFactors): no duplicates, '
              'weak iff positive, version stamped, GetHighestSeverity, monotone')
  simdir = os.path.join(tlc.BUILD, 'sim-tim-%d' % os.getpid())
  shutil.rmtree(simdir, ignore_errors=True)
  os.makedirs(simdir)
  g = tlc.run('SIM_TIM', 'SIM_TIM.cfg', workers=1, coverage=False, simulate='file=%s/tr,num=%d' % (simdir, num), depth=12, seed=ctx.seed)
  if g.violated:
    raise tlc.MachineryError('SIM_TIM: %s' % g.error_text)
  beh = tlc.parse_sim_files(simdir)
  shutil.rmtree(simdir, ignore_errors=True)
  if len(beh) < num // 2:
    raise tlc.MachineryError('SIM_TIM produced %d behaviours' % len(beh))
  ctx.checker_cmds.append(g.cmd)
  recs = []
  for name, states in beh:
    ops = tlc.tla_value(states[-1][1]['ops'])
    sid = 'tim-' + name
    if ctx.only_sid and ctx.only_sid != sid:
      continue
    recs += replay(sid, ops)
  if not recs:
    return
  ctx.replayed += len(recs)
  ctx.sample({'sid': recs[0]['sid'], 'ops': [x for x in recs[1:4]]})
  c, fails, tr = tlc.validate_trace('TestInfoOpsTrace', 'TestInfoOpsTrace.cfg', recs, 'tim')
  ctx.validated += c
  ctx.note_mc(tr, 'TestInfoOpsTrace: stateful validation of %d util.py operations' % len(recs))
  by = {}
  for x in recs:
    by.setdefault(x['sid'], []).append(x)
  ctx.trace_failures(fails, by, lambda rec, f: {'kind': 'util-ops', 'ops': [{k: v for k, v in o.items() if k in ('op', 'name', 'result', 'sev', 'field', 'fs', 'value')}
                                                                            for o in rec if o['ev'] == 'op'][:12], 'tid': f.get('tid')})
  ctx.distinct.update(by)


def registry_records():
  """paranoid.Get*Checks: the process-wide registry against the documented check table of TestInfo.tla."""
  shim.install()
  from paranoid_crypto.lib import paranoid
  recs = []
  for kind, get_all, get_single, get_agg in (('rsa', 'GetRSAAllChecks', 'GetRSASingleChecks', 'GetRSAAggregateChecks'),
                                             ('ec', 'GetECAllChecks', 'GetECSingleChecks', 'GetECAggregateChecks'),
                                             ('ecdsa', 'GetECDSAAllChecks', None, None)):
    rec = {'sid': 'registry-' + kind, 'ev': 'registry', 'kind': kind, 'obs': {}, 'raised': 'none'}
    try:
      d1 = getattr(paranoid, get_all)()
      d2 = getattr(paranoid, get_all)()
      names = list(d1)
      union = True
      if get_single:
        s1 = getattr(paranoid, get_single)()
        a1 = getattr(paranoid, get_agg)()
        union = names == list(s1) + list(a1) and all(d1[k] is s1.get(k, a1.get(k)) for k in names)
      rec['obs'] = {'names': names, 'class_names': [type(d1[k]).__name__ for k in names], 'check_names': [d1[k].check_name for k in names],
                    'sevs': [int(d1[k].severity) for k in names], 'same_objects_on_second_call': all(d1[k] is d2[k] for k in names) and list(d2) == names,
                    'all_is_union': bool(union)}
    except Exception as ex:  # pylint: disable=broad-except
      rec['raised'] = type(ex).__name__
    recs.append(rec)
  return recs
