SPECIFICATION Spec
POSTCONDITION Post
CHECK_DEADLOCK FALSE
