----------------------------- MODULE FamilyGrid -----------------------------
(***************************************************************************)
(* C04 / C05: the boundary grid of every documented weak family, generated *)
(* from the criteria of FactorCriteria.tla: cells on and next to each      *)
(* boundary, for the constructor parameters the property quantifies over.  *)
(* One JSON line per cell (TLC -workers 1); the harness builds a modulus   *)
(* for each cell, computes its actual attributes from p and q, and the     *)
(* trace specification applies the criterion to those.                     *)
(***************************************************************************)
EXTENDS FactorCriteria, Json
CONSTANTS Thorough
VARIABLE cell
Sizes == IF Thorough THEN {1024, 2048, 3072, 4096} ELSE {1024, 2048}
FermatCells == {[family |-> "fermat", pbits |-> pb, max_steps |-> ms, steps |-> ms + d] :
                  pb \in (IF Thorough THEN {64, 100, 512, 1024, 2048} ELSE {64, 100, 512, 1024}),
                  ms \in {1, 2, 1000, 100000}, d \in {-2, -1, 0, 1}}
HighLowFor(b) == {[family |-> "highlow", bits |-> b, r |-> rs[1], s |-> rs[2]] :
                   rs \in UNION {{<<r, (b \div 4) + 2 - r + e>> : r \in {3, 4, 8, b \div 8, (b \div 4) - 2}} : e \in {0, 2}}}
\* splits where the low bits alone exceed a quarter of the modulus (r around and beyond half the prime size, s = the two forced top bits or a few more)
HighLowWide(b) == {[family |-> "highlow", bits |-> b, r |-> r, s |-> s] :
                    r \in {(b \div 4) - 1, b \div 4, (b \div 4) + 1, (b \div 4) + 2, (b \div 4) + 3, (b \div 4) + 16, (3 * b) \div 8}, s \in {2, 7}}
HighLowCells == UNION {HighLowFor(b) \cup HighLowWide(b) : b \in (IF Thorough THEN {512, 1024, 2048} ELSE {512, 1024})}
\* odd = 1: primes of l bits whose product has 2l - 1 bits (the check derives the prime size from the modulus: l - 1)
\* qlong = 1 (the two large differences): p so high that q = p + D has one more bit while n keeps 2l bits
UpperDiffCells == {[family |-> "upperdiff", L |-> l, dindex |-> d, odd |-> o, qlong |-> 0] :
                     l \in (IF Thorough THEN {385, 384, 512, 768, 1024, 1536, 2048} ELSE {385, 512, 1024}), d \in 0..5, o \in {0, 1}}
                  \cup {[family |-> "upperdiff", L |-> l, dindex |-> d, odd |-> 0, qlong |-> 1] :
                     l \in (IF Thorough THEN {384, 512, 1024, 2048} ELSE {384, 1024}), d \in {4, 5}}
PatternFor(b) == {[family |-> "pattern", bits |-> b, w |-> w, dev |-> dv] :
                   w \in {x \in DefaultPatternSizes : x >= 7 /\ 16 * x <= b},
                   dv \in (IF Thorough THEN {8, 16, 31, 32} ELSE {16, 32})}
PatternCells == UNION {PatternFor(b) : b \in Sizes}
\* approximate bit length of the implied denominator (the harness computes the exact one)
DBitsApprox(limb, ps) == ps + ps * limb - limb
PermutedFor(b, l) == {[family |-> "permuted", bits |-> b, limb |-> l, psize |-> ps] :
                    ps \in {x \in 3..63 : x % 2 = 1 /\ x < l /\ 10 * DBitsApprox(l, x) <= b + 20}}
\* large limbs on long moduli are reached by no smaller denominator: always part of the grid
PermutedCells == UNION {PermutedFor(bl[1], bl[2]) : bl \in (Sizes \X {8, 16, 32, 64}) \cup ({3072, 4096} \X {64})}
CfCells == {[family |-> "cf", bits |-> b, w1 |-> w[1], w2 |-> w[2]] :
              b \in Sizes, w \in {<<8, 8>>, <<16, 24>>, <<32, 32>>, <<64, 64>>, <<40, 64>>, <<63, 7>>}}
LhwCells == {[family |-> "lhw", bits |-> b, h1 |-> h[1], h2 |-> h[2]] :
               b \in {1024, 2048}, h \in (IF Thorough THEN {<<8, 8>>, <<16, 16>>, <<16, 32>>, <<24, 24>>, <<32, 32>>} ELSE {<<8, 8>>, <<12, 16>>})}
Pm1Cells == {[family |-> "pm1", bits |-> b, shared |-> sh, mode |-> m] :
               b \in {1024, 2048}, sh \in {62, 66, 72}, m \in {"p", "both"}}
\* Coverage of the default Pollard product: the primes below 2^20 from index 150 on in blocks of 44 (each once), the first 150 primes in
\* blocks of 13 with their largest power below 2^64; the harness builds p - 1 from one block.  82025 primes below 2^20.
TailBlocks == (82025 - 150 + 43) \div 44
PowerBlocks == (150 + 12) \div 13
Pm1CoverCells == {[family |-> "pm1cover", kind |-> "tail", block |-> j] :
                    j \in (IF Thorough THEN 0..(TailBlocks - 1) ELSE {0, 1, 2, 700, 1300, TailBlocks - 2, TailBlocks - 1})}
                 \cup {[family |-> "pm1cover", kind |-> "power", block |-> j] :
                    j \in (IF Thorough THEN 0..(PowerBlocks - 1) ELSE {0, 5, PowerBlocks - 1})}
\* keys of the low-Hamming-weight family on which the search starts slowly (found by probing with maxsteps = cutoff; one search per cell)
LhwSlowCells == {[family |-> "lhwslow", index |-> i] : i \in (IF Thorough THEN 1..40 ELSE 1..4)}
\* the shared smooth factor carries a prime power beyond the default product (r^3, r^2 for r > 863, 2^130): covered through the base 2^(n-1)
Pm1PowCells == {[family |-> "pm1pow", bits |-> b, kind |-> k] : b \in {1024, 2048}, k \in {"r3", "r2", "two130"}}
Cells == Pm1PowCells \cup LhwSlowCells \cup Pm1CoverCells \cup FermatCells \cup HighLowCells \cup UpperDiffCells \cup PatternCells \cup PermutedCells \cup CfCells \cup LhwCells \cup Pm1Cells
Init == cell \in {c \in Cells : c.family # "fermat" \/ c.steps >= 0}
Next == UNCHANGED cell
Spec == Init /\ [][Next]_cell
Emit == PrintT(<<"CELL", ToJson(cell)>>)
=============================================================================
