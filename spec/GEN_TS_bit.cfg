SPECIFICATION HSpec
CONSTANTS Tests <- TestsDef
          NamesOf <- NamesOfDef
          Exps <- ExpsBit
          FailAt <- FailAtBit
          RepAt <- RepAtBit
          MinReps = 1
          MaxRuns = 1
          Mode = "bitstring"
CHECK_DEADLOCK FALSE
CONSTRAINT Emit
