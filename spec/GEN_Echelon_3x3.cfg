SPECIFICATION Spec
CONSTANTS NR = 3
          NC = 3
          RowVoc <- Small3
          X <- X3
          PivotFix = TRUE
CONSTRAINT Emit
CHECK_DEADLOCK FALSE
