SPECIFICATION TSpec
CONSTANTS Tests <- TestsScalar
          NamesOf <- NamesOfDef
          Exps <- ExpsClose
          FailAt <- FailAtClose
          RepAt <- RepAtDef
          MinReps = 1
          MaxRuns = 8
          Mode = "source"
CHECK_DEADLOCK FALSE
POSTCONDITION Post
