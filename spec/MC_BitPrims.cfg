SPECIFICATION Spec
CONSTANT MaxLen = 10
INVARIANT CountTotals
INVARIANT CountOnes
INVARIANT SplitConcat
INVARIANT ScatterInterleave
INVARIANT RunsComplement
INVARIANT RunsReverse
INVARIANT ReverseInvolution
INVARIANT LongestRunBound
INVARIANT OverlapM1
INVARIANT RankLemmas
CHECK_DEADLOCK FALSE
