SPECIFICATION Spec
CONSTANTS Kind = "ec"
          Slots <- Slots6
          Classes <- EcHealthyClasses
          MaxCalls = 2
          AllowSingle = FALSE
CHECK_DEADLOCK FALSE
