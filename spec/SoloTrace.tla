----------------------------- MODULE SoloTrace -----------------------------
(***************************************************************************)
(* Trace specification for C17.  One record = one call of a behaviour,     *)
(* executed (on fresh copies of the artifacts) in five settings:           *)
(*   got   - in the scenario's process, after the earlier calls of the     *)
(*           behaviour (caches, tables and singleton checks warmed up)     *)
(*   solo  - every artifact alone, in a fresh process                      *)
(*   fresh - the same batch, in a fresh process                            *)
(*   perm  - the batch permuted, in a fresh process                        *)
(*   plus  - the batch with healthy artifacts added, in a fresh process    *)
(* The oracle is the code's own verdict in the other setting, so no        *)
(* arithmetic is trusted.                                                  *)
(***************************************************************************)
EXTENDS TestInfo, TraceBase
VARIABLE tid
Ran(r) == IF r.all THEN SeqSet(ChecksOf(r.kind)) ELSE SeqSet(r.checks)
Get(f, k, d) == IF k \in DOMAIN f THEN f[k] ELSE d
ToSet(s) == {s[i] : i \in 1..Len(s)}
SameEntry(t1, t2, c) == (HasEntry(t1, c) <=> HasEntry(t2, c)) /\
                        (HasEntry(t1, c) => (Entry(t1, c).result = Entry(t2, c).result /\ Entry(t1, c).sev = Entry(t2, c).sev))
SameEvidence(t1, t2) == ToSet(t1.nf) = ToSet(t2.nf) /\ ToSet(t1.nm1) = ToSet(t2.nm1) /\ t1.dlog = t2.dlog /\ t1.diff = t2.diff
Pos(t, c) == HasEntry(t, c) /\ Entry(t, c).result
Decided(a, c) == Get(a.crit, c, "may") \in {"must", "mustnot"}
ArtVerdict(r, a) ==
  LET ran == Ran(r) IN
  IF \E c \in ran : ~Joint(c) /\ ~SameEntry(a.got, a.solo, c) THEN "SoloEqual"
  ELSE IF ~r.all /\ (\A c \in ran : ~Joint(c)) /\ ~SameEvidence(a.got, a.solo) THEN "SoloEqualEvidence"
  ELSE IF \E c \in ran : ~Joint(c) /\ ~SameEntry(a.fresh, a.solo, c) THEN "NeighbourIndependent"
  ELSE IF \E c \in ran : Joint(c) /\ Pos(a.fresh, c) /\ ~Pos(a.got, c) THEN "FlaggedFreshImpliesFlaggedLater"
  ELSE IF \E c \in ran : Joint(c) /\ Decided(a, c) /\ ~SameEntry(a.perm, a.fresh, c) THEN "PermutationEquivariant"
  ELSE IF \E c \in ran : Joint(c) /\ Decided(a, c) /\ ~SameEntry(a.plus, a.fresh, c) THEN "HealthyNeighboursNeutral"
  ELSE IF \E c \in ran : ~Joint(c) /\ ~SameEntry(a.perm, a.solo, c) THEN "PositionIndependent"
  ELSE "ok"
Consume(r) ==
  IF r.raised # "none" THEN Fail(tid, r, "Total")
  ELSE \A i \in 1..Len(r.arts) : LET v == ArtVerdict(r, r.arts[i]) IN Check(tid, r, v, v = "ok")
TInit == tid = 1 /\ RegInit
TNext == /\ tid <= NRecs /\ Consume(Recs[tid]) /\ tid' = tid + 1
TSpec == TInit /\ [][TNext]_tid
=============================================================================
