SPECIFICATION HSpec
CONSTANTS Tests <- TestsDef
          NamesOf <- NamesOfDef
          Exps <- ExpsQuick
          FailAt <- FailAtDef
          RepAt <- RepAtDef
          MinReps = 2
          MaxRuns = 4
          Mode = "source"
CHECK_DEADLOCK FALSE
