SPECIFICATION Spec
CONSTANTS N = 2500
          MaxSteps = 40
INVARIANT B2IsDifference
INVARIANT Sound
INVARIANT MatchesDefinition
INVARIANT CriterionForSemiprimes
CHECK_DEADLOCK FALSE
