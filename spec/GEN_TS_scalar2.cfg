SPECIFICATION HSpec
CONSTANTS Tests <- TestsScalar
          NamesOf <- NamesOfDef
          Exps <- ExpsGen
          FailAt <- FailAtDef
          RepAt <- RepAtDef
          MinReps = 2
          MaxRuns = 4
          Mode = "source"
CONSTRAINT Emit
CHECK_DEADLOCK FALSE
