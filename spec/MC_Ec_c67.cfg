SPECIFICATION Spec
CONSTANTS P = 67
          A = 0
          B = 2
          GX = 2
          GY = 12
          Q = 73
          H = 1
INVARIANT Closed
INVARIANT Identity
INVARIANT Inverse
INVARIANT Commutative
INVARIANT Associative
INVARIANT Isomorphism
INVARIANT OrderQ
INVARIANT PrimeOrderWholeGroup
INVARIANT TimesAgrees
INVARIANT HnpRelation
CHECK_DEADLOCK FALSE
