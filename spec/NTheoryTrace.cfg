SPECIFICATION TSpec
CONSTANT K = 1
POSTCONDITION Post
CHECK_DEADLOCK FALSE
