SPECIFICATION Spec
CONSTANTS GPrimes = {"p1", "p2", "p3"}
          MaxMult = 2
          MaxLen = 2
          ExtraChoices = TRUE
CONSTRAINT Emit
CHECK_DEADLOCK FALSE
