------------------------------ MODULE BitPrims ------------------------------
(***************************************************************************)
(* C15.  One-line mathematical definitions of the bit-sequence primitives  *)
(* of randomness_tests/util.py.  A bit string of length n is a sequence s  *)
(* of 0/1 with s[i+1] = bit i (bit 0 = least significant).                 *)
(* The state machine enumerates every string up to MaxLen and checks the   *)
(* definitions against a second, independent formulation of each.          *)
(***************************************************************************)
EXTENDS Naturals, Integers, Sequences, FiniteSets, TLC
CONSTANT MaxLen

Bit == {0, 1}
Pow2(k) == LET RECURSIVE P(_)
               P(j) == IF j = 0 THEN 1 ELSE 2 * P(j - 1)
           IN P(k)
\* value of bits s[from+1 .. from+m] read cyclically, LSB first
RECURSIVE WinVal(_, _, _)
WinVal(s, from, m) == IF m = 0 THEN 0
                      ELSE s[(from % Len(s)) + 1] + 2 * WinVal(s, from + 1, m - 1)
Val(s) == IF Len(s) = 0 THEN 0 ELSE WinVal(s, 0, Len(s))

PopCount(s) == Cardinality({i \in 1..Len(s) : s[i] = 1})
\* window start positions
Starts(s, m, wrap) == IF wrap THEN 0..(Len(s) - 1) ELSE 0..(Len(s) - m)
\* bag of m-bit windows as a function value -> multiplicity
FrequencyCount(s, m, wrap) ==
  [v \in 0..(Pow2(m) - 1) |-> Cardinality({i \in Starts(s, m, wrap) : WinVal(s, i, m) = v})]
\* the sub-sequences as a sequence indexed by start position (order is not part of the definition)
SubSequences(s, m, wrap) == [k \in 1..Cardinality(Starts(s, m, wrap)) |-> WinVal(s, k - 1, m)]
SplitSequence(s, m) == [b \in 1..(Len(s) \div m) |-> WinVal(s, (b - 1) * m, m)]
\* Scatter(seq, m)[i] = bits i, i+m, i+2m, ... of seq
ScatterOne(s, m, i) == LET cnt == IF Len(s) > i THEN ((Len(s) - 1 - i) \div m) + 1 ELSE 0 IN
                       LET RECURSIVE V(_)
                           V(j) == IF j = cnt THEN 0 ELSE s[i + j * m + 1] + 2 * V(j + 1)
                       IN V(0)
Scatter(s, m) == [i \in 1..m |-> ScatterOne(s, m, i - 1)]
Runs(s) == IF Len(s) = 0 THEN 0 ELSE 1 + Cardinality({i \in 1..(Len(s) - 1) : s[i] # s[i + 1]})
AllOnes(s, from, k) == \A j \in 1..k : s[from + j] = 1        \* positions from+1..from+k (1-based)
LongestRunOfOnes(s) == CHOOSE k \in 0..Len(s) :
                          /\ \E f \in 0..(Len(s) - k) : AllOnes(s, f, k)
                          /\ ~\E f \in 0..(Len(s) - k - 1) : AllOnes(s, f, k + 1)
OverlappingRuns(s, m) == Cardinality({f \in 0..(Len(s) - m) : AllOnes(s, f, m)})
Reverse(s) == [i \in 1..Len(s) |-> s[Len(s) + 1 - i]]
PlusMinus(s) == [i \in 1..Len(s) |-> 2 * s[i] - 1]

(* ---------- rank over GF(2): rows are sets of column indices --------------- *)
SymD(A, B) == (A \ B) \cup (B \ A)
MaxOf(S) == CHOOSE x \in S : \A y \in S : y <= x
RECURSIVE Rank(_)
Rank(M) == LET NZ == M \ {{}} IN
           IF NZ = {} THEN 0
           ELSE LET r == CHOOSE x \in NZ : TRUE
                    c == MaxOf(r)
                IN 1 + Rank({IF c \in x THEN SymD(x, r) ELSE x : x \in NZ \ {r}})

(* ---------- second formulations (lemmas) ----------------------------------- *)
VARIABLE s
Init == s \in UNION {[1..k -> Bit] : k \in 0..MaxLen}
Next == UNCHANGED s
Spec == Init /\ [][Next]_s
N == Len(s)
Ms == 1..(IF N < 4 THEN N ELSE 4)
\* census of the wrapped windows has total n; no-wrap differs exactly by the m-1 straddling windows
CountTotals == \A m \in Ms :
   LET fw == FrequencyCount(s, m, TRUE)
       fn == FrequencyCount(s, m, FALSE)
       Tot(f) == LET RECURSIVE T(_)
                     T(v) == IF v < 0 THEN 0 ELSE f[v] + T(v - 1)
                 IN T(Pow2(m) - 1)
   IN /\ Tot(fw) = N /\ Tot(fn) = N - m + 1
      /\ \A v \in DOMAIN fw :
           fw[v] - fn[v] = Cardinality({i \in (N - m + 1)..(N - 1) : WinVal(s, i, m) = v})
\* m = 1: the counts are the numbers of zeros and ones
CountOnes == N >= 1 => FrequencyCount(s, 1, TRUE)[1] = PopCount(s)
\* splitting then concatenating gives back the covered prefix
SplitConcat == \A m \in 1..(IF N = 0 THEN 1 ELSE N) :
   LET sp == SplitSequence(s, m) IN
   \A b \in DOMAIN sp : \A j \in 0..(m - 1) : (sp[b] \div Pow2(j)) % 2 = s[(b - 1) * m + j + 1]
\* scattering is the inverse of interleaving
ScatterInterleave == \A m \in 1..3 :
   LET sc == Scatter(s, m) IN
   \A i \in 0..(N - 1) : (sc[(i % m) + 1] \div Pow2(i \div m)) % 2 = s[i + 1]
RunsComplement == Runs(s) = Runs([i \in 1..N |-> 1 - s[i]])
RunsReverse == Runs(s) = Runs(Reverse(s))
ReverseInvolution == Reverse(Reverse(s)) = s /\ PopCount(Reverse(s)) = PopCount(s)
LongestRunBound == /\ LongestRunOfOnes(s) <= PopCount(s)
                   /\ (LongestRunOfOnes(s) = 0 <=> PopCount(s) = 0)
                   /\ \A m \in 1..N : (OverlappingRuns(s, m) > 0 <=> m <= LongestRunOfOnes(s))
OverlapM1 == N >= 1 => OverlappingRuns(s, 1) = PopCount(s)
\* rank: rows = the 3-bit blocks of s; invariant under adding one row to another, bounded by rows and columns
Rows == {{j \in 0..2 : (SplitSequence(s, 3)[b] \div Pow2(j)) % 2 = 1} : b \in 1..(N \div 3)}
RankLemmas == /\ Rank(Rows) <= 3 /\ Rank(Rows) <= Cardinality(Rows)
              /\ \A a, b \in Rows : a # b => Rank((Rows \ {a}) \cup {SymD(a, b)}) = Rank(Rows)
              /\ (Rank(Rows) = 0 <=> Rows \subseteq {{}})
=============================================================================
