SPECIFICATION Spec
CONSTANT MaxLen = 12
INVARIANT PrefixCorrect
INVARIANT CGenerates
INVARIANT FunctionalAgrees
INVARIANT CensusOk
CHECK_DEADLOCK FALSE
