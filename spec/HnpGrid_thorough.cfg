SPECIFICATION GSpec
CONSTANTS Thorough = TRUE
          MaxN = 0
CONSTRAINT Emit
CHECK_DEADLOCK FALSE
