------------------------------ MODULE EcTrace ------------------------------
(* Trace specification for the small-curve (T1) parts of C11, C10, C09 and  *)
(* C06: every record is one call of a public EcCurve method on a curve      *)
(* constructed with the constants of this configuration; TLC recomputes     *)
(* the result from the definitional group law of EcGroup.tla.               *)
(* Points are <<x, y>>, infinity (None, None) is <<-1, -1>>, a missing      *)
(* x-coordinate or None is -1.                                              *)
EXTENDS EcGroup, TraceBase
VARIABLE tid

Pt(p) == <<p[1], p[2]>>
Pts(l) == [i \in 1..Len(l) |-> Pt(l[i])]
X(pt) == pt[1]                      \* -1 for infinity
V1(r, want, clause) == IF r.raised # "none" THEN "Total" ELSE IF Pt(r.obs.r) # want THEN clause ELSE "ok"
VL(r, want, clause) == IF r.raised # "none" THEN "Total"
                       ELSE IF Len(r.obs.rs) # Len(want) THEN clause
                       ELSE IF \E i \in 1..Len(want) : Pt(r.obs.rs[i]) # want[i] THEN clause ELSE "ok"
VX(obs, want) == Len(obs) = Len(want) /\ \A i \in 1..Len(want) : obs[i] = want[i]

VBatchInverse(r) ==
  IF r.raised # "none" THEN "Total"
  ELSE IF Len(r.obs.inv) # Len(r.args.values) THEN "BatchInverse"
  ELSE IF \E i \in 1..Len(r.args.values) :
            LET v == r.args.values[i]
                w == r.obs.inv[i]
            IN IF v = -1 \/ v % P = 0 THEN w # -1 ELSE (w = -1 \/ (v * w) % P # 1)
       THEN "BatchInverse" ELSE "ok"

(* ---- C10 ---- *)
VBatchDL(r) ==
  LET pts == Pts(r.args.pts) IN
  IF r.raised # "none" THEN "Total"
  ELSE IF Len(r.obs.found) # Len(pts) THEN "ResultLength"
  ELSE IF \E i \in 1..Len(pts) : r.obs.found[i] /\ PointOf[r.obs.dl[i] % Q] # pts[i] THEN "DLogSound"
  ELSE IF \E i \in 1..Len(pts) : DLog(pts[i]) < r.args.bound /\ ~r.obs.found[i] THEN "DLogComplete"
  ELSE "ok"
\* minimal distance of two subgroup points in the exponent
Dist(p1, p2) == LET d == (DLog(p1) + Q - DLog(p2)) % Q IN IF d <= Q - d THEN d ELSE Q - d
VDiffDL(r) ==
  LET pts == Pts(r.args.pts)
      oth == Pts(r.args.others)
      all == oth \o pts
  IN
  IF r.raised # "none" THEN "Total"
  ELSE IF Len(r.obs.found) # Len(pts) THEN "ResultLength"
  \* every recorded relation key - (x, y) = k * G is true, names a point of the input, and is not a self-accusation
  ELSE IF \E i \in 1..Len(pts) : r.obs.found[i] /\
            LET q == Pt(r.obs.q[i]) IN
            ~(Sub(pts[i], q) = PointOf[r.obs.k[i] % Q] /\ (\E j \in 1..Len(all) : all[j] = q))
       THEN "DiffRelationSound"
  ELSE IF \E i \in 1..Len(pts) : r.obs.found[i] /\ Pt(r.obs.q[i]) = pts[i] THEN "DiffNoSelfAccusation"
  \* two distinct keys closer than max_diff: both flagged (keys of `others` are not reported)
  ELSE IF \E i \in 1..Len(pts) : \E j \in 1..Len(all) :
            all[j] # pts[i] /\ Dist(pts[i], all[j]) < r.args.maxdiff /\ ~r.obs.found[i]
       THEN "DiffComplete"
  \* identical keys are not flagged: a key all of whose partners are copies of itself stays silent
  ELSE IF \E i \in 1..Len(pts) : r.obs.found[i] /\ (\A j \in 1..Len(all) : all[j] = pts[i])
       THEN "IdenticalKeysNotFlagged"
  ELSE "ok"

(* ---- C09 ---- *)
VHnp(r) ==
  LET d == r.args.d
      k == r.args.k
      z == r.args.z
  IN
  IF r.args.r # SigR(k) \/ r.args.s # SigS(d, k, z) THEN "ReferenceSignerDisagreesWithSpec"
  ELSE IF r.args.r = 0 \/ r.args.s = 0 THEN "ok"           \* not a valid signature: outside the claim
  ELSE IF r.raised # "none" THEN "Total"
  ELSE IF (r.obs.a + r.obs.b * d) % Q # k % Q THEN "NonceRelation"
  ELSE "ok"
BitsVal(bs) == LET RECURSIVE V(_, _)
                   V(i, ac) == IF i > Len(bs) THEN ac ELSE V(i + 1, 2 * ac + bs[i])
               IN V(1, 0)
VTransform(r) ==
  IF r.raised # "none" THEN "Total"
  ELSE IF r.obs.z # Bits2Int(BitsVal(r.args.hbits), Len(r.args.hbits)) THEN "HashTruncation" ELSE "ok"
BytesVal(bs) == LET RECURSIVE V(_, _)
                    V(i, ac) == IF i > Len(bs) THEN ac ELSE V(i + 1, 256 * ac + bs[i])
                IN V(1, 0)
VEcdsaValues(r) ==
  IF r.raised # "none" THEN "Total"
  ELSE IF r.obs.r # r.args.r \/ r.obs.s # r.args.s THEN "FieldRoundTrip"
  ELSE IF r.obs.z # Bits2Int(BytesVal(r.args.hbytes), 8 * Len(r.args.hbytes)) THEN "HashTruncation" ELSE "ok"

(* ---- C06 ---- *)
VValid(r) == IF r.raised # "none" THEN "Total"
             ELSE IF r.obs.valid # Valid(r.args.x, r.args.y) THEN "ValidPublicKey" ELSE "ok"

Verdict(r) ==
  CASE r.ev = "add" -> V1(r, Add(Pt(r.args.p), Pt(r.args.q)), "AddIsGroupLaw")
    [] r.ev = "addjac" -> V1(r, Add(Pt(r.args.p), Pt(r.args.q)), "AddJacobianIsGroupLaw")
    [] r.ev = "subtract" -> V1(r, Sub(Pt(r.args.p), Pt(r.args.q)), "SubtractIsGroupLaw")
    [] r.ev = "double" -> V1(r, Double(Pt(r.args.p)), "DoubleIsGroupLaw")
    [] r.ev = "doublejac" -> V1(r, Double(Pt(r.args.p)), "DoubleJacobianIsGroupLaw")
    [] r.ev = "negate" -> V1(r, Neg(Pt(r.args.p)), "NegateIsGroupLaw")
    [] r.ev = "mul" -> V1(r, Mul(r.args.k, Pt(r.args.p)), "MultiplyIsGroupLaw")
    [] r.ev = "mulaffine" -> V1(r, Mul(r.args.k, Pt(r.args.p)), "MultiplyAffineIsGroupLaw")
    [] r.ev = "batchadd" -> VL(r, [i \in 1..Len(r.args.qs) |-> Add(Pt(r.args.p), Pt(r.args.qs[i]))], "BatchAdd")
    [] r.ev = "batchaddx" ->
         (IF r.raised # "none" THEN "Total"
          ELSE IF ~VX(r.obs.xs, [i \in 1..Len(r.args.qs) |-> X(Add(Pt(r.args.p), Pt(r.args.qs[i])))]) THEN "BatchAddX" ELSE "ok")
    [] r.ev = "batchaddsubx" ->
         (IF r.raised # "none" THEN "Total"
          ELSE IF ~VX(r.obs.sums, [i \in 1..Len(r.args.qs) |-> X(Add(Pt(r.args.p), Pt(r.args.qs[i])))]) THEN "BatchAddSubtractX"
          ELSE IF ~VX(r.obs.diffs, [i \in 1..Len(r.args.qs) |-> X(Sub(Pt(r.args.p), Pt(r.args.qs[i])))]) THEN "BatchAddSubtractX"
          ELSE "ok")
    [] r.ev = "batchaddlist" -> VL(r, [i \in 1..Len(r.args.ps) |-> Add(Pt(r.args.ps[i]), Pt(r.args.qs[i]))], "BatchAddList")
    [] r.ev = "batchdouble" -> VL(r, [i \in 1..Len(r.args.ps) |-> Double(Pt(r.args.ps[i]))], "BatchDouble")
    [] r.ev = "batchjac" -> VL(r, Pts(r.args.ps), "BatchJacobianToAffine")
    [] r.ev = "batchmulg" -> VL(r, [i \in 1..Len(r.args.ks) |-> PointOf[r.args.ks[i] % Q]], "BatchMultiplyG")
    [] r.ev = "pointseq" -> VL(r, [i \in 1..r.args.n |-> Mul(i - 1, Pt(r.args.p))], "PointSequence")
    [] r.ev = "batchinverse" -> VBatchInverse(r)
    [] r.ev = "batchdl" -> VBatchDL(r)
    [] r.ev = "diffdl" -> VDiffDL(r)
    [] r.ev = "hnp" -> VHnp(r)
    [] r.ev = "transform" -> VTransform(r)
    [] r.ev = "ecdsavalues" -> VEcdsaValues(r)
    [] r.ev = "valid" -> VValid(r)
    [] OTHER -> "UnknownEvent"
TInit == tid = 1 /\ RegInit /\ acc = Inf
TNext == /\ tid <= NRecs
         /\ LET v == Verdict(Recs[tid]) IN Check(tid, Recs[tid], v, v = "ok")
         /\ tid' = tid + 1 /\ UNCHANGED acc
TSpec == TInit /\ [][TNext]_<<acc, tid>>
=============================================================================
