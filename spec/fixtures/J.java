import java.math.BigInteger; import java.util.Random;
public class J { public static void main(String[] a){ for (long seed : new long[]{1L, 42L, 0x123456789ABDL, 281474976710655L, 99999999999L}) for (int n = 1; n <= 200; n++) System.out.println(seed + " " + n + " " + new BigInteger(n, new Random(seed)).toString(16)); } }
