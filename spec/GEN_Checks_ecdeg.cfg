SPECIFICATION Spec
CONSTANTS Kind = "ec"
          Slots <- Slots3
          Classes <- EcDegClasses
          MaxCalls = 2
          AllowSingle = TRUE
CHECK_DEADLOCK FALSE
