------------------------------ MODULE TSTrace ------------------------------
(***************************************************************************)
(* Trace specification for the decision structure of the randomness suite  *)
(* (C13).  Records come from the real TestSource / TestBitString driven by *)
(* scripted tests (p = 2^-e), one record per TestStructure.Run call        *)
(* (logged after it returns) plus one per entry-point return.  A Run event *)
(* must be the composition  StepSkip* [EndRound StepSkip*] StepRun  of the *)
(* specification's actions; the state after it must be the model's.        *)
(***************************************************************************)
EXTENDS MC_TS, TraceBase
VARIABLE tid
tvars == <<vars, tid>>

Pos(t) == CHOOSE i \in 1..Len(Tests) : Tests[i] = t
Unfinished(from) == {i \in from..Len(Tests) : ~fin[Tests[i]]}
MinOf(S) == CHOOSE x \in S : \A y \in S : x <= y
\* which test the specification runs next, and in which round
NextPos == IF Mode = "bitstring" THEN (IF cursor <= Len(Tests) THEN cursor ELSE 0)
           ELSE IF Unfinished(cursor) # {} THEN MinOf(Unfinished(cursor))
           ELSE IF undecided > 0 /\ Unfinished(1) # {} THEN MinOf(Unfinished(1))
           ELSE 0
NewRound == Mode = "source" /\ Unfinished(cursor) = {} /\ undecided > 0

ResOf(r) == [n \in {r.names[i] : i \in 1..Len(r.names)} |->
               r.exps[CHOOSE i \in 1..Len(r.names) : r.names[i] = n]]
ObsState(r, n) == IF \E i \in 1..Len(r.obs.names) : r.obs.names[i] = n
                  THEN r.obs.states[CHOOSE i \in 1..Len(r.obs.names) : r.obs.names[i] = n] ELSE "none"
\* float ties: Sum = RepAt[k] reached by k >= 2 unequal exponents is compared through two different
\* floating-point summations in the code; both outcomes are admitted there (DESIGN.md 7.6)
Ambiguous(s) == /\ Len(s) >= 2 /\ ~HasInf(s) /\ Sum(s) = RepAt[Len(s)] /\ Sum(s) < FailAt[Len(s)]
                /\ \E i \in 1..Len(s) : s[i] # s[1]

Reset == /\ pe' = [t \in TestIds |-> [n \in NamesOf[t] |-> <<>>]]
         /\ st' = [t \in TestIds |-> [n \in NamesOf[t] |-> "none"]]
         /\ runs' = [t \in TestIds |-> 0] /\ fin' = [t \in TestIds |-> FALSE]
         /\ cursor' = 1 /\ undecided' = 0 /\ phase' = "round" /\ ret' = "none"

ConsumeRun(r) ==
  LET t == r.t
      known == t \in TestIds /\ (\A i \in 1..Len(r.names) : r.names[i] \in NamesOf[t])
  IN IF ~known THEN Fail(tid, r, "UnknownTestOrName") /\ UNCHANGED vars
     ELSE
     LET res == ResOf(r)
         a == AfterRun(t, res)
         D == DOMAIN res
         st2 == [n \in NamesOf[t] |->
                   IF n \in D /\ Ambiguous(a.pe[n]) /\ ObsState(r, n) \in {"PASSED", "UNDECIDED"}
                   THEN ObsState(r, n) ELSE a.st[n]]
         und == Cardinality({n \in D : st2[n] = "UNDECIDED"})
         fin2 == IF r.insufficient THEN TRUE ELSE (und = 0 /\ runs[t] + 1 >= MinReps)
         pe2 == IF r.insufficient THEN pe[t] ELSE a.pe
         st3 == IF r.insufficient THEN st[t] ELSE st2
         und0 == IF NewRound THEN 0 ELSE undecided
     IN /\ Check(tid, r, "Raised", r.raised = "none")
        /\ Check(tid, r, "FinishedNeverRerun", Mode = "bitstring" \/ ~fin[t])
        /\ Check(tid, r, "RunOrder", phase = "round" /\ NextPos = Pos(t))
        /\ Check(tid, r, "StateRule", \A n \in NamesOf[t] : st3[n] = ObsState(r, n))
        /\ Check(tid, r, "FinishedRule", fin2 = r.obs.finished /\ r.obs.ret = r.obs.finished)
        /\ Check(tid, r, "RunsCount", runs[t] + 1 = r.obs.runs)
        /\ Check(tid, r, "FailedIffSomeFailed", (\E n \in NamesOf[t] : st3[n] = "FAILED") = r.obs.failed)
        /\ pe' = [pe EXCEPT ![t] = pe2] /\ st' = [st EXCEPT ![t] = st3]
        /\ runs' = [runs EXCEPT ![t] = @ + 1] /\ fin' = [fin EXCEPT ![t] = fin2]
        /\ cursor' = Pos(t) + 1
        /\ undecided' = IF fin2 THEN und0 ELSE und0 + 1
        /\ UNCHANGED <<phase, ret>>

ConsumeReturn(r) ==
  /\ Check(tid, r, "Raised", r.raised = "none")
  /\ Check(tid, r, "ReturnedEarly",
           IF Mode = "source" THEN NextPos = 0 /\ (\A t \in TestIds : fin[t])
           ELSE cursor > Len(Tests) /\ (\A t \in TestIds : runs[t] = 1))
  /\ Check(tid, r, "RetIffFailed", r.raised # "none" \/ (r.obs.ret = (\E t \in TestIds : Failed(t))))
  /\ Check(tid, r, "RetIsBool", r.raised # "none" \/ r.obs.ret_is_bool)
  /\ phase' = "done" /\ UNCHANGED <<pe, st, runs, fin, cursor, undecided, ret>>

TInit == Init /\ tid = 1 /\ RegInit
TNext == /\ tid <= NRecs
         /\ LET r == Recs[tid] IN
            CASE r.ev = "Start" -> Reset
              [] r.ev = "Run" -> ConsumeRun(r)
              [] r.ev = "Return" -> ConsumeReturn(r)
              [] OTHER -> Fail(tid, r, "UnknownEvent") /\ UNCHANGED vars
         /\ tid' = tid + 1
TSpec == TInit /\ [][TNext]_tvars
=============================================================================
