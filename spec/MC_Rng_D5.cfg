SPECIFICATION Spec
CONSTANTS MaxBytes = 3
          ByteVoc <- Voc
INVARIANT RangeMaskFirstLE
CHECK_DEADLOCK FALSE
