SPECIFICATION TSpec
POSTCONDITION Post
CHECK_DEADLOCK FALSE
