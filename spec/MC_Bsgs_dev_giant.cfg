SPECIFICATION Spec
CONSTANTS Q = 41
          MaxLen = 3
          MaxCalls = 2
          GiantExtra = 1
          StepAdjust = 0
INVARIANT Complete
PROPERTY CacheMonotone
CHECK_DEADLOCK FALSE
