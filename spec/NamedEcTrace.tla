---------------------------- MODULE NamedEcTrace ----------------------------
(* T2 trace specification for the named curves (C11): operands have 192..521 *)
(* bits, so the harness projects every comparison with the reference law to   *)
(* a boolean (abstraction map: refec.py) and the parameter sanity of each     *)
(* CURVE_FACTORY entry to seven booleans; TLC applies the criterion.          *)
EXTENDS TraceBase
VARIABLE tid
VParams(r) ==
  IF ~r.obs.p_prime THEN "FieldIsPrime"
  ELSE IF ~r.obs.nonsingular THEN "CurveNonSingular"
  ELSE IF ~r.obs.g_on_curve THEN "GeneratorOnCurve"
  ELSE IF ~r.obs.n_prime THEN "OrderIsPrime"
  ELSE IF ~r.obs.nG_is_inf THEN "GeneratorHasStatedOrder"
  ELSE IF ~r.obs.hasse THEN "HasseInterval"
  ELSE "ok"
Verdict(r) ==
  CASE r.ev = "params" -> VParams(r)
    [] r.ev = "ref" -> (IF r.raised # "none" THEN "Total" ELSE IF ~r.obs.ok THEN r.args.op \o "MatchesGroupLaw" ELSE "ok")
    [] OTHER -> "UnknownEvent"
TInit == tid = 1 /\ RegInit
TNext == /\ tid <= NRecs
         /\ LET v == Verdict(Recs[tid]) IN Check(tid, Recs[tid], v, v = "ok")
         /\ tid' = tid + 1
TSpec == TInit /\ [][TNext]_tid
=============================================================================
