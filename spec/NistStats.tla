----------------------------- MODULE NistStats -----------------------------
(***************************************************************************)
(* C12.  Everything about the SP 800-22 tests that is integer: the         *)
(* parameter ladders, the exact insufficient-data thresholds, the number   *)
(* and names of returned p-values, and the integer statistics (ones,       *)
(* runs, block counts, longest-run bins, cumulative-sums extrema forward / *)
(* backward, excursion cycle count, state visits, pattern census), each    *)
(* written definitionally and - for the walk - also as an AppendBit state  *)
(* machine that TLC checks against the definitions for every short string, *)
(* together with the invariance lemmas (reversal swaps forward/backward,   *)
(* complement keeps both).  The final map statistic -> p-value is real     *)
(* valued and is NOT decided here (auxiliary mpmath monitor).              *)
(* A bit string is a sequence of 0/1; element i is bit i-1 of the          *)
(* library's integer; the walk steps +1 for 1 and -1 for 0.                *)
(***************************************************************************)
EXTENDS Integers, Sequences, FiniteSets, TLC
CONSTANT MaxLen

Abs(x) == IF x < 0 THEN 0 - x ELSE x
Max2(a, b) == IF a > b THEN a ELSE b
Min2(a, b) == IF a < b THEN a ELSE b
Pow2(k) == LET RECURSIVE P(_)
               P(j) == IF j = 0 THEN 1 ELSE 2 * P(j - 1)
           IN P(k)
BitLen(x) == LET RECURSIVE L(_)
                 L(v) == IF v = 0 THEN 0 ELSE 1 + L(v \div 2)
             IN L(x)
Ones(t) == Cardinality({i \in 1..Len(t) : t[i] = 1})
Rev(t) == [k \in 1..Len(t) |-> t[Len(t) + 1 - k]]
Compl(t) == [k \in 1..Len(t) |-> 1 - t[k]]
Rot(t, r) == [k \in 1..Len(t) |-> t[((k - 1 + r) % Len(t)) + 1]]

(* ---------- walk statistics (2.13 - 2.15): linear-time definitions ---------- *)
Step(b) == IF b = 1 THEN 1 ELSE -1
\* partial sums S_0..S_n as a sequence of length n + 1 (S[k + 1] = S_k)
RECURSIVE PartialSums(_, _, _)
PartialSums(t, k, acc) == IF k > Len(t) THEN acc ELSE PartialSums(t, k + 1, Append(acc, acc[Len(acc)] + Step(t[k])))
Sums(t) == PartialSums(t, 1, <<0>>)
SeqMax(q) == LET RECURSIVE M(_, _)
                 M(i, m) == IF i > Len(q) THEN m ELSE M(i + 1, Max2(m, q[i]))
             IN M(1, q[1])
SeqMin(q) == LET RECURSIVE M(_, _)
                 M(i, m) == IF i > Len(q) THEN m ELSE M(i + 1, Min2(m, q[i]))
             IN M(1, q[1])
\* z forward = max_k |S_k|; z backward = max_j |S_n - S_j|  (S_0 = 0 takes part in both)
CusumForward(t) == LET S == Sums(t) IN Max2(SeqMax(S), 0 - SeqMin(S))
CusumBackward(t) == LET S == Sums(t)
                        e == S[Len(S)]
                    IN Max2(SeqMax(S) - e, e - SeqMin(S))
\* number of cycles J = number of returns to zero + 1 (the last, possibly unfinished, cycle counts)
ZeroReturns(t) == LET S == Sums(t) IN Cardinality({k \in 2..Len(S) : S[k] = 0})
Cycles(t) == ZeroReturns(t) + 1
Visits(t, x) == LET S == Sums(t) IN Cardinality({k \in 2..Len(S) : S[k] = x})
\* the pinned code took the extrema over the non-zero states of S_1..S_n only when the walk stays within +-9:
\* kept as a named deviation (defect D3), refuted by TLC on the one-bit string <<0>>
PinnedBackward(t) == LET S == Sums(t)
                         nz == {S[k] : k \in 2..Len(S)} \ {0}
                         hi == IF nz = {} THEN 0 ELSE CHOOSE m \in nz : \A y \in nz : y <= m
                         lo == IF nz = {} THEN 0 ELSE CHOOSE m \in nz : \A y \in nz : y >= m
                         e == S[Len(S)]
                     IN Max2(hi - e, e - lo)

(* ---------- frequency / runs / blocks / longest run ---------------------------- *)
FrequencyS(t) == 2 * Ones(t) - Len(t)
RunsV(t) == IF Len(t) = 0 THEN 0 ELSE 1 + Cardinality({i \in 1..(Len(t) - 1) : t[i] # t[i + 1]})
\* BlockFrequency: block size ladder
RECURSIVE BlockSizeFrom(_, _)
BlockSizeFrom(n, m) == IF n \div m >= 100 THEN BlockSizeFrom(n, 2 * m) ELSE m
BlockFrequencyM(n) == Max2(20, BlockSizeFrom(n, 16))
BlockOnes(t, m) == [b \in 1..(Len(t) \div m) |-> Cardinality({i \in ((b - 1) * m + 1)..(b * m) : t[i] = 1})]
\* LongestRuns: parameter set [block size, lowest bin, highest bin] by n
LongestRunParams(n) == IF n >= 750000 THEN <<10000, 10, 16>> ELSE IF n >= 6272 THEN <<128, 4, 9>> ELSE <<8, 1, 4>>
LongestRunIn(t, from, m) ==   \* longest run of ones inside t[from+1 .. from+m]
  LET RECURSIVE R(_, _, _)
      R(i, cur, best) == IF i > from + m THEN best
                         ELSE IF t[i] = 1 THEN R(i + 1, cur + 1, Max2(best, cur + 1)) ELSE R(i + 1, 0, best)
  IN R(from + 1, 0, 0)
LongestRunBins(t) ==
  LET p == LongestRunParams(Len(t))
      m == p[1]
      lo == p[2]
      hi == p[3]
      nb == Len(t) \div m
      lr == [b \in 1..nb |-> LongestRunIn(t, (b - 1) * m, m)]
  IN [v \in lo..hi |-> Cardinality({b \in 1..nb : Max2(lo, Min2(hi, lr[b])) = v})]

(* ---------- parameter ladders and the number of p-values ----------------------- *)
SerialMMax(n) == Max2(2, Min2(22, BitLen(n) - 4))
ApEnMMax(n) == IF n < 65536 THEN Max2(2, BitLen(n) - 7) ELSE IF n < 1048576 THEN BitLen(n) - 8
               ELSE IF n < 16777216 THEN BitLen(n) - 9 ELSE Min2(22, BitLen(n) - 10)
TemplateM(bs) == IF bs < 64 THEN 2 ELSE IF bs < 256 THEN 3 ELSE IF bs < 1024 THEN 4 ELSE IF bs < 2048 THEN 5 ELSE IF bs < 4096 THEN 6
                 ELSE IF bs < 8192 THEN 7 ELSE IF bs < 16384 THEN 8 ELSE IF bs < 32768 THEN 9 ELSE 10
\* a template is non-overlapping (aperiodic) iff no proper prefix equals the suffix of the same length
\* (m-bit integer b, bit i has weight 2^i)
IsAperiodic(b, m) == \A i \in 1..(m - 1) : (b \div Pow2(m - i)) # (b % Pow2(i))
TemplateCount(m) == Cardinality({b \in 0..(Pow2(m) - 1) : IsAperiodic(b, m)})
UniversalL(n) == IF n >= 1059061760 THEN 16 ELSE IF n >= 496435200 THEN 15 ELSE IF n >= 231669760 THEN 14 ELSE IF n >= 107560960 THEN 13
                 ELSE IF n >= 49643520 THEN 12 ELSE IF n >= 22753280 THEN 11 ELSE IF n >= 10342400 THEN 10 ELSE IF n >= 4654080 THEN 9
                 ELSE IF n >= 2068480 THEN 8 ELSE IF n >= 904960 THEN 7 ELSE 6
\* LargeBinaryMatrixRank tests one matrix per size 64, 128, 256, ... while size^2 <= n
LargeRankSizes(n) == LET RECURSIVE C(_)
                         C(sz) == IF sz * sz <= n /\ sz <= 16384 THEN 1 + C(2 * sz) ELSE 0
                     IN C(64)
\* LinearComplexityScatter(n, step): sequence i (0-based) has ceil((n - i) / step) bits; they partition the n bits
ScatterSize(n, step, i) == (n + step - 1 - i) \div step
\* exact insufficient-data conditions of the tests that have one (test name, n, optional parameter)
Insufficient(test, n, par) ==
  CASE test = "BlockFrequency" -> n < 100
    [] test = "LongestRuns" -> n < 128
    [] test = "BinaryMatrixRank" -> n < 38 * 32 * 32
    [] test = "NonOverlappingTemplateMatching" -> n \div 8 < 4
    [] test = "Universal" -> n < 387840
    [] test = "LinearComplexity" -> par < 10 \/ par * 200 > n
    [] test = "LargeBinaryMatrixRank" -> n < 64 * 64
    [] OTHER -> FALSE
\* number of p-values a test returns when it has enough data (J = number of excursion cycles)
NumPValues(test, n, par) ==
  CASE test \in {"Frequency", "BlockFrequency", "Runs", "LongestRuns", "BinaryMatrixRank", "Spectral", "OverlappingTemplateMatching",
                 "Universal"} -> 1
    [] test = "NonOverlappingTemplateMatching" -> TemplateCount(TemplateM(n \div 8))
    [] test = "LinearComplexity" -> 2
    [] test = "Serial" -> 2 * (SerialMMax(n) - 1)
    [] test = "ApproximateEntropy" -> ApEnMMax(n) - 1
    [] test = "RandomWalk" -> IF par >= 500 THEN 2 + 8 + 18 ELSE 2
    [] test = "LargeBinaryMatrixRank" -> LargeRankSizes(n)
    [] test = "LinearComplexityScatter" -> 1
    [] OTHER -> 0

(* ---------- AppendBit machine for the walk, checked against the definitions ---- *)
VARIABLES s, pos, mx, mn, zeros
vars == <<s, pos, mx, mn, zeros>>
Init == s = <<>> /\ pos = 0 /\ mx = 0 /\ mn = 0 /\ zeros = 0
AppendBit(b) == /\ Len(s) < MaxLen
                /\ s' = Append(s, b)
                /\ pos' = pos + Step(b)
                /\ mx' = Max2(mx, pos + Step(b))
                /\ mn' = Min2(mn, pos + Step(b))
                /\ zeros' = IF pos + Step(b) = 0 THEN zeros + 1 ELSE zeros
Next == \E b \in {0, 1} : AppendBit(b)
Spec == Init /\ [][Next]_vars
MachineForward == Max2(mx, 0 - mn) = CusumForward(s)
MachineBackward == Max2(mx - pos, pos - mn) = CusumBackward(s)
MachineCycles == zeros + 1 = Cycles(s)
ReversalLemma == CusumBackward(s) = CusumForward(Rev(s)) /\ CusumForward(s) = CusumBackward(Rev(s))
ComplementLemma == CusumForward(Compl(s)) = CusumForward(s) /\ CusumBackward(Compl(s)) = CusumBackward(s)
              /\ FrequencyS(Compl(s)) = 0 - FrequencyS(s) /\ RunsV(Compl(s)) = RunsV(s) /\ Cycles(Compl(s)) = Cycles(s)
RunsReversal == RunsV(Rev(s)) = RunsV(s) /\ FrequencyS(Rev(s)) = FrequencyS(s)
VisitsReflect == \A x \in 1..3 : Visits(Compl(s), x) = Visits(s, 0 - x)
\* expected-violation config: the pinned backward statistic differs from the definition
PinnedBackwardAgrees == Len(s) > 0 => PinnedBackward(s) = CusumBackward(s)
\* the M = 8 longest-run table by exact enumeration of all 256 blocks: P(<=1), P(2), P(3), P(>=4) = 55, 94, 59, 48 of 256,
\* i.e. 0.2148, 0.3672, 0.2305, 0.1875 to the printed precision
Block8(v) == [i \in 1..8 |-> (v \div Pow2(i - 1)) % 2]
LongestRunTable8 == [k \in 1..4 |-> Cardinality({v \in 0..255 : Max2(1, Min2(4, LongestRunIn(Block8(v), 0, 8))) = k})]
Table8Facts == LongestRunTable8 = <<55, 94, 59, 48>>
\* ladder sanity (constant-level, evaluated once)
ScatterFacts == \A nn \in {1000, 1001, 1023, 1024} : \A st \in {1, 7, 32, 64} :
                  LET RECURSIVE T(_)
                      T(i) == IF i = st THEN 0 ELSE ScatterSize(nn, st, i) + T(i + 1)
                  IN T(0) = nn
LadderFacts == /\ LargeRankSizes(4095) = 0 /\ LargeRankSizes(4096) = 1 /\ LargeRankSizes(16383) = 1 /\ LargeRankSizes(16384) = 2
               /\ LargeRankSizes(262144) = 4 /\ ScatterFacts
               /\ BlockFrequencyM(100) = 20 /\ BlockFrequencyM(1599) = 20 /\ BlockFrequencyM(3200) = 64 /\ BlockFrequencyM(1000000) = 16384
               /\ TemplateCount(2) = 2 /\ TemplateCount(3) = 4 /\ TemplateCount(4) = 6 /\ TemplateCount(9) = 148
               /\ SerialMMax(100) = 3 /\ SerialMMax(1048576) = 17 /\ ApEnMMax(1048576) = 12
=============================================================================
