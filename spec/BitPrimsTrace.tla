--------------------------- MODULE BitPrimsTrace ---------------------------
(* Trace specification for C15: TLC evaluates the definitions of            *)
(* BitPrims.tla on every recorded input and compares with what the real     *)
(* function returned.  Big integers never enter the trace: bit strings are  *)
(* 0/1 sequences, blocks are given by their bits.                           *)
EXTENDS BitPrims, TraceBase
VARIABLE tid

Range(q) == {q[i] : i \in 1..Len(q)}
BagOfSeq(q) == [v \in Range(q) |-> Cardinality({i \in 1..Len(q) : q[i] = v})]
\* windows computed once
Wins(b, m, wrap) == [k \in 1..Cardinality(Starts(b, m, wrap)) |-> WinVal(b, k - 1, m)]
CountsOf(W, m) == [v \in 0..(Pow2(m) - 1) |-> Cardinality({i \in 1..Len(W) : W[i] = v})]

VFreq(r) == LET b == r.args.bits
                m == r.args.m IN
  IF m > Len(b) THEN (IF r.raised = "ValueError" THEN "ok" ELSE "FrequencyCountDomain")
  ELSE IF r.raised # "none" THEN "Total"
  ELSE LET f == CountsOf(Wins(b, m, r.args.wrap), m) IN
       IF Len(r.obs.counts) # Pow2(m) THEN "FrequencyCountLength"
       ELSE IF \E v \in 0..(Pow2(m) - 1) : r.obs.counts[v + 1] # f[v] THEN "FrequencyCountDef"
       ELSE "ok"
VSubSeq(r) == LET b == r.args.bits
                  m == r.args.m IN
  IF m > Len(b) \/ m <= 0 THEN (IF r.raised = "ValueError" THEN "ok" ELSE "SubSequencesDomain")
  ELSE IF r.raised # "none" THEN "Total"
  ELSE IF BagOfSeq(r.obs.values) # BagOfSeq(Wins(b, m, r.args.wrap)) THEN "SubSequencesDef"
  ELSE "ok"
VSplit(r) == LET b == r.args.bits
                 m == r.args.m IN
  IF r.raised # "none" THEN "Total"
  ELSE IF Len(r.obs.blocks) # Len(b) \div m THEN "SplitCount"
  ELSE IF \E k \in 1..Len(r.obs.blocks) : r.obs.blocks[k] # SubSeq(b, (k - 1) * m + 1, k * m) THEN "SplitDef"
  ELSE "ok"
\* result i of Scatter, given by its bits (LSB first, no padding), against bits i, i+m, ... of the input
VScatter(r) == LET b == r.args.bits
                   m == r.args.m IN
  IF r.raised # "none" THEN "Total"
  ELSE IF Len(r.obs.parts) # m THEN "ScatterCount"
  ELSE IF \E i \in 0..(m - 1) :
            LET p == r.obs.parts[i + 1]
                cnt == IF Len(b) > i THEN ((Len(b) - 1 - i) \div m) + 1 ELSE 0
            IN \/ \E j \in 1..Len(p) : p[j] # (IF j <= cnt THEN b[i + (j - 1) * m + 1] ELSE 0)
               \/ \E j \in (Len(p) + 1)..cnt : b[i + (j - 1) * m + 1] # 0
       THEN "ScatterDef"
  ELSE "ok"
VInt(r, want, clause) == IF r.raised # "none" THEN "Total" ELSE IF r.obs.value # want THEN clause ELSE "ok"
\* the observed value k is checked against the definition (a run of k exists, none of k + 1)
VLongest(r) == LET b == r.args.bits
                   k == r.obs.value IN
  IF r.raised # "none" THEN "Total"
  ELSE IF k < 0 \/ k > Len(b) THEN "LongestRunDef"
  ELSE IF ~(\E f \in 0..(Len(b) - k) : AllOnes(b, f, k)) THEN "LongestRunDef"
  ELSE IF \E f \in 0..(Len(b) - k - 1) : AllOnes(b, f, k + 1) THEN "LongestRunDef"
  ELSE "ok"
VReverse(r) == IF r.raised # "none" THEN "Total"
               ELSE IF r.obs.overflow \/ r.obs.bits # Reverse(r.args.bits) THEN "ReverseDef" ELSE "ok"
VBits(r) == IF r.raised # "none" THEN "Total"
            ELSE IF r.obs.pm # PlusMinus(r.args.bits) THEN "PlusMinusDef" ELSE "ok"
RowSet(r) == {Range(r.args.rows[i]) : i \in 1..Len(r.args.rows)}
Verdict(r) ==
  CASE r.ev = "freq" -> VFreq(r)
    [] r.ev = "subseq" -> VSubSeq(r)
    [] r.ev = "split" -> VSplit(r)
    [] r.ev = "scatter" -> VScatter(r)
    [] r.ev = "runs" -> VInt(r, Runs(r.args.bits), "RunsDef")
    [] r.ev = "longest" -> VLongest(r)
    [] r.ev = "overlap" -> VInt(r, OverlappingRuns(r.args.bits, r.args.m), "OverlappingRunsDef")
    [] r.ev = "popcount" -> VInt(r, PopCount(r.args.bits), "PopCountDef")
    [] r.ev = "reverse" -> VReverse(r)
    [] r.ev = "bits" -> VBits(r)
    [] r.ev = "rank" -> VInt(r, Rank(RowSet(r)), "RankDef")
    [] OTHER -> "UnknownEvent"
TInit == tid = 1 /\ RegInit /\ s = <<>>
TNext == /\ tid <= NRecs
         /\ LET v == Verdict(Recs[tid]) IN Check(tid, Recs[tid], v, v = "ok")
         /\ tid' = tid + 1 /\ UNCHANGED s
TSpec == TInit /\ [][TNext]_<<s, tid>>
=============================================================================
