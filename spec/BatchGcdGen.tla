---------------------------- MODULE BatchGcdGen ----------------------------
(***************************************************************************)
(* Scenario generator for C03: every batch of at most MaxLen values, each  *)
(* a bag over GPrimes with multiplicities 0..MaxMult (not all zero), with  *)
(* an optional extra product.  One JSON line per state (TLC -workers 1).   *)
(* Covers duplicates, nested moduli, 0/1/several shared primes with        *)
(* several partners, and the empty batch.                                  *)
(***************************************************************************)
EXTENDS BatchGcdOps, Json
CONSTANTS GPrimes, MaxMult, MaxLen, ExtraChoices
Bags == {b \in [GPrimes -> 0..MaxMult] : \E p \in GPrimes : b[p] > 0}
ExtraBags == {[p \in GPrimes |-> 0]} \cup
             (IF ExtraChoices THEN {b \in [GPrimes -> 0..1] : \E p \in GPrimes : b[p] > 0} ELSE {})
VARIABLES batch, extra
Init == /\ batch \in UNION {[1..k -> Bags] : k \in 0..MaxLen}
        /\ extra \in ExtraBags
Next == UNCHANGED <<batch, extra>>
Spec == Init /\ [][Next]_<<batch, extra>>
Emit == PrintT(<<"SCN", ToJson([batch |-> batch, extra |-> extra])>>)
=============================================================================
