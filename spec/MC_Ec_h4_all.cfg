SPECIFICATION SpecAll
CONSTANTS P = 103
          A = 0
          B = 3
          GX = 5
          GY = 5
          Q = 31
          H = 4
INVARIANT ClosedAll
INVARIANT Identity
INVARIANT Inverse
INVARIANT CommutativeAll
INVARIANT AssociativeAll
INVARIANT GroupOrderAll
INVARIANT SubgroupTest
INVARIANT TimesIsHom
CHECK_DEADLOCK FALSE
