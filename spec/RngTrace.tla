------------------------------ MODULE RngTrace ------------------------------
(* Trace specification for C20.  range / pure: every registry generator;    *)
(* java / jdk: byte streams recomputed by TLC on limbs (jdk records come    *)
(* from the real JDK: specification-vs-original binding); lcgsmall: the     *)
(* truncated LCG on small state sizes recomputed by TLC; lcgreg: registry   *)
(* sizes compared with the stated recurrence by the harness (T2).           *)
EXTENDS MC_Rng, TraceBase
VARIABLE tid
VRange(r) == IF r.raised # "none" THEN "Total"
             ELSE IF ~r.obs.is_int THEN "ReturnsInteger"
             ELSE IF ~r.obs.nonneg \/ r.obs.bitlen > r.args.n THEN "Range" ELSE "ok"
VPure(r) == IF r.raised # "none" THEN "Total" ELSE IF ~r.obs.same THEN "PureFunctionOfSeed" ELSE "ok"
VJava(r) == IF r.raised # "none" THEN "Total"
            ELSE IF r.obs.bytes # BigIntegerBytes(r.args.seed, r.args.n) THEN
                 (IF r.ev = "jdk" THEN "SpecReproducesJdk" ELSE "JavaStream") ELSE "ok"
VLcgSmall(r) == IF r.raised # "none" THEN "Total"
                ELSE IF r.obs.value # TruncLcgValue(r.args.seed, r.args.a, r.args.w, r.args.n) THEN "TruncLcgStream" ELSE "ok"
VLcgReg(r) == IF r.raised # "none" THEN "Total" ELSE IF ~r.obs.matches THEN "TruncLcgStream" ELSE "ok"
Verdict(r) ==
  CASE r.ev = "range" -> VRange(r)
    [] r.ev = "pure" -> VPure(r)
    \* the multiplier of the truncated LCG of output size w is the published constant for the smallest tabulated state size >= 2w
    [] r.ev = "lcgmult" -> (IF r.raised # "none" THEN "Total" ELSE IF ~r.obs.same THEN "MultiplierIsThePublishedConstant" ELSE "ok")
    \* a sequence of calls with ONE seed on one generator object: every result equals that of a fresh process making the call alone
    [] r.ev = "hist" -> (IF r.raised # "none" THEN "Total"
                         ELSE IF \E i \in 1..Len(r.obs.equal_fresh) : ~r.obs.equal_fresh[i] THEN "IndependentOfEarlierCalls" ELSE "ok")
    [] r.ev \in {"java", "jdk"} -> VJava(r)
    [] r.ev = "lcgsmall" -> VLcgSmall(r)
    [] r.ev = "lcgreg" -> VLcgReg(r)
    [] OTHER -> "UnknownEvent"
TInit == tid = 1 /\ RegInit /\ buf = <<0>> /\ n = 1
TNext == /\ tid <= NRecs
         /\ LET v == Verdict(Recs[tid]) IN Check(tid, Recs[tid], v, v = "ok")
         /\ tid' = tid + 1 /\ UNCHANGED <<buf, n>>
TSpec == TInit /\ [][TNext]_<<buf, n, tid>>
=============================================================================
