---------------------------- MODULE NamedDlTrace ----------------------------
(* T2 trace specification for C10 (and the dlog part of C02) on the named    *)
(* curves.  Private keys are known to the harness; a key enters the trace as *)
(* a small integer (its value when below 2^31, its offset from a hidden      *)
(* random base for the difference search, or a class tag), every recorded    *)
(* logarithm is verified by the reference multiplication (`correct`), and    *)
(* TLC applies the completeness / soundness criterion.                       *)
EXTENDS Integers, Sequences, FiniteSets, TraceBase
VARIABLE tid
Abs(x) == IF x < 0 THEN 0 - x ELSE x
Idx(r) == 1..Len(r.obs.found)
\* BatchDL(points, bound): x[i] = the true logarithm when it is < 2^31, else -1
VDl(r) ==
  IF r.raised # "none" THEN "Total"
  ELSE IF Len(r.obs.found) # Len(r.args.x) THEN "ResultLength"
  ELSE IF \E i \in Idx(r) : r.obs.found[i] /\ ~r.obs.correct[i] THEN "DLogSound"
  ELSE IF \E i \in Idx(r) : r.args.x[i] >= 0 /\ r.args.x[i] < r.args.bound /\ ~r.obs.found[i] THEN "DLogComplete"
  ELSE "ok"
\* ExtendedBatchDL / CheckWeakECPrivateKey: class tags
MustFind(c) == c \in {"shift8", "repeat"}
VExt(r) ==
  IF r.raised # "none" THEN "Total"
  ELSE IF Len(r.obs.found) # Len(r.args.cls) THEN "ResultLength"
  ELSE IF \E i \in Idx(r) : r.obs.found[i] /\ ~r.obs.correct[i] THEN "DLogSound"
  ELSE IF \E i \in Idx(r) : MustFind(r.args.cls[i]) /\ ~r.obs.found[i] THEN "StructuredKeyFound"
  ELSE IF \E i \in Idx(r) : r.args.cls[i] = "random" /\ r.obs.found[i] THEN "RandomKeyNotFound"
  ELSE "ok"
\* BatchDLOfDifferences / CheckECKeySmallDifference: off[i] = private key minus a hidden base; others first
VDiff(r) ==
  LET no == r.args.nothers
      off == r.args.off                      \* offsets of others \o points
      np == Len(off) - no
      P(i) == off[no + i]
  IN
  IF r.raised # "none" THEN "Total"
  ELSE IF Len(r.obs.found) # np THEN "ResultLength"
  ELSE IF \E i \in 1..np : r.obs.found[i] /\
            ~(r.obs.relok[i] /\ r.obs.qidx[i] >= 1 /\ r.obs.qidx[i] <= Len(off)
              /\ off[r.obs.qidx[i]] # P(i) /\ r.obs.k[i] = P(i) - off[r.obs.qidx[i]])
       THEN "DiffRelationSound"
  ELSE IF \E i \in 1..np : \E j \in 1..Len(off) :
            off[j] # P(i) /\ Abs(off[j] - P(i)) < r.args.maxdiff /\ ~r.obs.found[i] THEN "DiffComplete"
  ELSE IF \E i \in 1..np : r.obs.found[i] /\ (\A j \in 1..Len(off) : off[j] = P(i)) THEN "IdenticalKeysNotFlagged"
  ELSE "ok"
Verdict(r) ==
  CASE r.ev = "ndl" -> VDl(r)
    [] r.ev = "next" -> VExt(r)
    [] r.ev = "ndiff" -> VDiff(r)
    [] OTHER -> "UnknownEvent"
TInit == tid = 1 /\ RegInit
TNext == /\ tid <= NRecs
         /\ LET v == Verdict(Recs[tid]) IN Check(tid, Recs[tid], v, v = "ok")
         /\ tid' = tid + 1
TSpec == TInit /\ [][TNext]_tid
=============================================================================
