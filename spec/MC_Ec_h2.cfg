SPECIFICATION Spec
CONSTANTS P = 67
          A = 64
          B = 4
          GX = 2
          GY = 26
          Q = 41
          H = 2
INVARIANT Closed
INVARIANT Identity
INVARIANT Inverse
INVARIANT Commutative
INVARIANT Associative
INVARIANT Isomorphism
INVARIANT OrderQ
INVARIANT PrimeOrderWholeGroup
INVARIANT TimesAgrees
INVARIANT HnpRelation
CHECK_DEADLOCK FALSE
