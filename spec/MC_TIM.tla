------------------------------- MODULE MC_TIM -------------------------------
EXTENDS TestInfoMachine
OpNamesDef == {"CheckA", "CheckB"}
InfoNamesDef == {"X", "Y"}
FactorIdsDef == {1, 2, 3}
=============================================================================
