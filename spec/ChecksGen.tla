----------------------------- MODULE ChecksGen -----------------------------
(***************************************************************************)
(* Scenario generator for the check-level properties: behaviours are call  *)
(* histories over real check names (TestInfo.tla table) on a few artifact  *)
(* slots, each slot carrying a class tag that the harness instantiates     *)
(* with a real artifact (healthy, weak for one check, degenerate, copy of  *)
(* another slot, partner sharing a prime / close private key ...).  A call *)
(* is the entry point or a single check, on any ordered sub-batch          *)
(* (possibly empty).  Sampled with TLC -simulate.                          *)
(***************************************************************************)
EXTENDS TestInfo
CONSTANTS Kind, Slots, Classes, MaxCalls, AllowSingle
VARIABLES cls, hist
Orders(S) == {f \in [1..Cardinality(S) -> S] : \A i, j \in 1..Cardinality(S) : i # j => f[i] # f[j]}
Init == cls \in [Slots -> Classes] /\ hist = <<>>
Next == /\ Len(hist) < MaxCalls
        /\ \E all \in (IF AllowSingle THEN BOOLEAN ELSE {TRUE}), c \in SeqSet(ChecksOf(Kind)), S \in SUBSET Slots :
             \E ord \in Orders(S) :
                hist' = Append(hist, [all |-> all, check |-> IF all THEN "ALL" ELSE c, batch |-> ord])
        /\ UNCHANGED cls
Spec == Init /\ [][Next]_<<cls, hist>>
=============================================================================
