SPECIFICATION Spec
CONSTANTS Kind = "ec"
          Slots <- Slots4
          Classes <- EcSoundClasses
          MaxCalls = 2
          AllowSingle = TRUE
CHECK_DEADLOCK FALSE
