----------------------------- MODULE BatchGcd -----------------------------
(***************************************************************************)
(* Specification of ntheory_util.ExtendedProductTree / FastProduct and     *)
(* rsa_util.BatchGCD (C03).                                                *)
(*                                                                         *)
(* Part (a): the product tree and the remainder tree in the FREE           *)
(* commutative semiring over the leaves 1..n.  A node value is the set of  *)
(* leaves whose product it is; a polynomial is a set of monomials (each a  *)
(* set of leaves; all coefficients are 1 in this algorithm, which the      *)
(* trace specification checks on the real code).  Because the identities   *)
(* are polynomial identities they hold for ALL integer inputs of that      *)
(* batch size.                                                             *)
(*                                                                         *)
(* Part (b): the meaning of the result on bags of abstract primes.         *)
(***************************************************************************)
EXTENDS BatchGcdOps

CONSTANT MaxN

(* ---------- the state machine ------------------------------------------ *)
VARIABLES n, values, t, tree, phase, rem, lvl, withExtra
vars == <<n, values, t, tree, phase, rem, lvl, withExtra>>

Init == /\ n \in 0..MaxN
        /\ withExtra \in BOOLEAN
        /\ values = Leaves(n) /\ t = Ones(n)
        /\ tree = <<Leaves(n)>>
        /\ phase = IF n = 0 THEN "done" ELSE "build"   \* the empty batch yields the empty result
        /\ rem = <<>> /\ lvl = 0

BuildLevel == /\ phase = "build" /\ Len(values) > 1
              /\ t' = NextT(values, t)
              /\ values' = NextValues(values)
              /\ tree' = Append(tree, values')
              /\ UNCHANGED <<n, phase, rem, lvl, withExtra>>

StartDescend == /\ phase = "build" /\ Len(values) = 1
                /\ phase' = "descend"
                /\ rem' = <<IF withExtra THEN PolyTimesMono(t[1], {Extra}) ELSE t[1]>>
                /\ lvl' = Len(tree) + 1
                /\ UNCHANGED <<n, values, t, tree, withExtra>>

Descend == /\ phase = "descend" /\ lvl > 1
           /\ lvl' = lvl - 1
           /\ rem' = DescendLevel(tree[lvl - 1], rem)
           /\ UNCHANGED <<n, values, t, tree, phase, withExtra>>

Finish == /\ phase = "descend" /\ lvl = 1 /\ phase' = "done"
          /\ UNCHANGED <<n, values, t, tree, rem, lvl, withExtra>>

Next == BuildLevel \/ StartDescend \/ Descend \/ Finish
Spec == Init /\ [][Next]_vars

(* ---------- invariants -------------------------------------------------- *)
\* each node's t is e_{k-1} of its leaves
TInv == phase = "build" => \A i \in 1..Len(values) : t[i] = DefT(values[i])
\* every level partitions 1..n into consecutive blocks
Partition == \A L \in 1..Len(tree) :
               /\ UNION {tree[L][i] : i \in 1..Len(tree[L])} = 1..n
               /\ \A i, j \in 1..Len(tree[L]) : i # j => tree[L][i] \cap tree[L][j] = {}
ChildInParent == \A L \in 1..(Len(tree) - 1) : \A j \in 1..Len(tree[L]) :
                    tree[L][j] \subseteq tree[L + 1][((j - 1) \div 2) + 1]
RootOk == phase \in {"descend", "done"} /\ n > 0 =>
             /\ Len(values) = 1 /\ values[1] = 1..n /\ t[1] = DefT(1..n)
X == IF withExtra THEN {Extra} ELSE {}
\* remainder handed to a node is congruent to T * extra modulo that node, in reduced form
RemInv == phase = "descend" /\ lvl <= Len(tree) =>
            \A j \in 1..Len(tree[lvl]) :
               rem[j] = {((1..n) \ {v}) \cup X : v \in tree[lvl][j]}
\* pass-through is only taken where the child equals its parent
PassThroughOk == \A L \in 1..(Len(tree) - 1) :
                    LET k == Len(tree[L]) IN
                    (k >= 1 /\ (k - 1) % 2 = 0) => tree[L][k] = tree[L + 1][((k - 1) \div 2) + 1]
\* what each leaf finally sees: gcd(v_i, extra * product of the others)
LeafOk == phase = "done" /\ n > 0 =>
            \A i \in 1..n : rem[i] = {((1..n) \ {i}) \cup X}
FunctionalAgrees == phase = "done" /\ n > 0 =>
                      /\ tree = ModelTree(n) /\ t[1] = ModelT(n)

=============================================================================
