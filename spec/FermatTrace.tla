---------------------------- MODULE FermatTrace ----------------------------
(* One record = one call rsa_util.FermatFactor(n, max_steps) on a small n;   *)
(* TLC computes the definitional answer (Fermat.Expected).                   *)
EXTENDS Fermat, TraceBase
VARIABLE tid
Verdict(r) == IF r.raised # "none" THEN "Total"
              ELSE IF <<r.obs.p, r.obs.q>> # Expected(r.args.n, r.args.max_steps) THEN "FermatFactorIsTheDefinition"
              ELSE "ok"
TInit == tid = 1 /\ RegInit /\ n = 3 /\ a = 0 /\ b2 = 0 /\ i = 0 /\ pc = "trace" /\ result = None
TNext == /\ tid <= NRecs
         /\ LET v == Verdict(Recs[tid]) IN Check(tid, Recs[tid], v, v = "ok")
         /\ tid' = tid + 1 /\ UNCHANGED vars
TSpec == TInit /\ [][TNext]_<<vars, tid>>
=============================================================================
