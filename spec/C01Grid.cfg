SPECIFICATION Spec
CONSTANT Thorough = FALSE
CONSTRAINT Emit
CHECK_DEADLOCK FALSE
