--------------------------- MODULE BatchGcdTrace ---------------------------
(***************************************************************************)
(* Trace specification for C03.  Every record is one call of the real code *)
(* (ExtendedProductTree / FastProduct executed on symbolic leaves,         *)
(* BatchGCD on products of concrete primes projected back to bags,         *)
(* CheckGCD / CheckGCDN1 on protobufs).  TLC recomputes the expected       *)
(* result with the operators of BatchGcdOps and names the failing clause.  *)
(***************************************************************************)
EXTENDS BatchGcdOps, TraceBase, SequencesExt

VARIABLE tid

SeqToSet(s) == {s[i] : i \in 1..Len(s)}
SetSeq(ss) == [i \in 1..Len(ss) |-> SeqToSet(ss[i])]       \* seq of seqs -> seq of sets
LevelOf(lv) == SetSeq(lv)

TreeOk(r) ==
  LET nn == r.args.n
      mt == ModelTree(nn)
  IN /\ Len(r.obs.levels) = Len(mt)
     /\ \A L \in 1..Len(mt) : LevelOf(r.obs.levels[L]) = mt[L]
TOk(r) == LET nn == r.args.n IN
          /\ r.obs.coef_one
          /\ {SeqToSet(r.obs.tmono[i]) : i \in 1..Len(r.obs.tmono)} = DefT(1..nn)
          /\ Len(r.obs.tmono) = nn

AllIdx(r) == 1..Len(r.args.batch)
Exp(r, i) == ExpectedGcd(r.args.batch, r.args.extra, i)

VerdictTree(r) ==
  IF r.args.n = 0 THEN "ok"      \* the tree of no values is not defined by the property (only BatchGCD([]) is)
  ELSE IF r.raised # "none" THEN "Total"
  ELSE IF ~TreeOk(r) THEN "TreeShape"
  ELSE IF ~TOk(r) THEN "TValue"
  ELSE "ok"

VerdictFastProd(r) ==
  IF r.raised # "none" THEN "Total"
  ELSE IF r.obs.coef # 1 \/ SeqToSet(r.obs.mono) # 1..r.args.n \/ Len(r.obs.mono) # r.args.n THEN "FastProduct"
  ELSE "ok"

VerdictGcd(r) ==
  IF r.raised # "none" THEN (IF Len(r.args.batch) = 0 THEN "EmptyBatch" ELSE "Total")
  ELSE IF Len(r.obs.gcds) # Len(r.args.batch) THEN "ResultLength"
  ELSE IF \E i \in AllIdx(r) : ~r.obs.clean[i] THEN "GcdNotOverKnownPrimes"
  ELSE IF \E i \in AllIdx(r) : Norm(r.obs.gcds[i]) # Exp(r, i) THEN "GcdValue"
  ELSE "ok"

\* CheckGCD: flagged exactly when the gcd is non-trivial; factors {gcd, n/gcd}
VerdictCheckGcd(r) ==
  IF r.raised # "none" THEN (IF Len(r.args.batch) = 0 THEN "EmptyBatch" ELSE "Total")
  ELSE IF Len(r.obs.flag) # Len(r.args.batch) THEN "ResultLength"
  ELSE IF \E i \in AllIdx(r) : r.obs.flag[i] # (DOMAIN Exp(r, i) # {}) THEN "FlagIffShared"
  ELSE IF \E i \in AllIdx(r) : r.obs.weak[i] # r.obs.flag[i] THEN "WeakIffFlag"
  ELSE IF r.obs.ret # (\E i \in AllIdx(r) : r.obs.flag[i]) THEN "RetIffSomeFlag"
  ELSE IF \E i \in AllIdx(r) : r.obs.flag[i] /\
            {Norm(r.obs.facs[i][k]) : k \in 1..Len(r.obs.facs[i])}
               # {Exp(r, i), BagMinus(Norm(r.args.batch[i]), Exp(r, i))} THEN "FactorIsGcd"
  ELSE IF \E i \in AllIdx(r) : ~r.obs.flag[i] /\ Len(r.obs.facs[i]) # 0 THEN "NoFactorWhenSilent"
  ELSE "ok"

\* CheckGCDN1 on moduli n = 1 + 2^a * (product of 64-bit primes); bound = 2^(63k):
\* gcd >= bound  <=>  at least k big primes (with multiplicity) in the gcd bag
BigCount(b) == BagSize([p \in (DOMAIN b) \ {"two"} |-> b[p]])
VerdictGcdN1(r) ==
  IF r.raised # "none" THEN (IF Len(r.args.batch) = 0 THEN "EmptyBatch" ELSE "Total")
  ELSE IF Len(r.obs.flag) # Len(r.args.batch) THEN "ResultLength"
  ELSE IF \E i \in AllIdx(r) : r.obs.flag[i] # (BigCount(Exp(r, i)) >= r.args.k) THEN "N1FlagIffAtLeastBound"
  ELSE IF r.obs.ret # (\E i \in AllIdx(r) : r.obs.flag[i]) THEN "RetIffSomeFlag"
  ELSE IF \E i \in AllIdx(r) : r.obs.flag[i] /\
            (Len(r.obs.facs[i]) # 1 \/ Norm(r.obs.facs[i][1]) # Exp(r, i)) THEN "N1FactorIsGcd"
  ELSE IF \E i \in AllIdx(r) : ~r.obs.flag[i] /\ Len(r.obs.facs[i]) # 0 THEN "NoFactorWhenSilent"
  ELSE "ok"

\* the same check with the bound gcd_ref + off (off in -1, 0, 1), where gcd_ref is the expected gcd of key `ref`: not a power of two.
\* gcd_i >= bound is decided where the bags decide it: equal bags (>= iff off <= 0), more or fewer 64-bit primes (a factor >= 2^63 apart)
GeRef(r, i) == LET ei == Exp(r, i)
                   ej == Exp(r, r.args.ref)
               IN IF ei = ej THEN (IF r.args.off <= 0 THEN "ge" ELSE "lt")
                  ELSE IF BigCount(ei) > BigCount(ej) THEN "ge"
                  ELSE IF BigCount(ei) < BigCount(ej) THEN "lt" ELSE "open"
VerdictGcdN1X(r) ==
  IF r.raised # "none" THEN "Total"
  ELSE IF Len(r.obs.flag) # Len(r.args.batch) THEN "ResultLength"
  ELSE IF \E i \in AllIdx(r) : (GeRef(r, i) = "ge" /\ ~r.obs.flag[i]) \/ (GeRef(r, i) = "lt" /\ r.obs.flag[i]) THEN "N1FlagIffAtLeastBound"
  ELSE IF r.obs.ret # (\E i \in AllIdx(r) : r.obs.flag[i]) THEN "RetIffSomeFlag"
  ELSE IF \E i \in AllIdx(r) : r.obs.flag[i] /\
            (Len(r.obs.facs[i]) # 1 \/ Norm(r.obs.facs[i][1]) # Exp(r, i)) THEN "N1FactorIsGcd"
  ELSE IF \E i \in AllIdx(r) : ~r.obs.flag[i] /\ Len(r.obs.facs[i]) # 0 THEN "NoFactorWhenSilent"
  ELSE "ok"

Verdict(r) ==
  CASE r.ev = "tree" -> VerdictTree(r)
    [] r.ev = "fastprod" -> VerdictFastProd(r)
    [] r.ev = "gcd" -> VerdictGcd(r)
    [] r.ev = "checkgcd" -> VerdictCheckGcd(r)
    [] r.ev = "gcdn1" -> VerdictGcdN1(r)
    [] r.ev = "gcdn1x" -> VerdictGcdN1X(r)
    [] OTHER -> "UnknownEvent"

Init == tid = 1 /\ RegInit
Next == /\ tid <= NRecs
        /\ LET v == Verdict(Recs[tid]) IN Check(tid, Recs[tid], v, v = "ok")
        /\ tid' = tid + 1
Spec == Init /\ [][Next]_tid
=============================================================================
