SPECIFICATION Spec
CONSTANTS P = 73
          A = 0
          B = 13
          GX = 4
          GY = 2
          Q = 67
          H = 1
INVARIANT Closed
INVARIANT Identity
INVARIANT Inverse
INVARIANT Commutative
INVARIANT Associative
INVARIANT Isomorphism
INVARIANT OrderQ
INVARIANT PrimeOrderWholeGroup
INVARIANT TimesAgrees
INVARIANT HnpRelation
CHECK_DEADLOCK FALSE
