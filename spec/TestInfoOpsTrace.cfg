SPECIFICATION TSpec
CONSTANTS OpNames <- OpNamesDef
          InfoNames <- InfoNamesDef
          FactorIds <- FactorIdsDef
          MaxOps = 99
POSTCONDITION Post
CHECK_DEADLOCK FALSE
