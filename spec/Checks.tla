------------------------------- MODULE Checks -------------------------------
(***************************************************************************)
(* Verdict-level model of paranoid.py and the check modules (C16, C17,     *)
(* C18, and the invariants behind C01/C02/C07).                            *)
(*                                                                         *)
(* State: the TestInfo annotation of every artifact (caller-owned, it      *)
(* survives calls), the value returned by the last call, and whether the   *)
(* last call raised.  What a check concludes about an artifact is          *)
(* abstracted by truth[c][a] \in {"must", "mustnot", "may"} (fixed for a   *)
(* behaviour: it is a fact about the artifact), resolved per call inside   *)
(* the allowed set; evidence (factor ids) is sound[a] / the junk id 0.     *)
(* Actions: RunCheck(c, batch) - one check on any sub-batch, possibly      *)
(* empty; RunAll(batch) - the entry point: every check of the registry in  *)
(* order, return value = OR.  Artifacts may start pre-annotated by an      *)
(* earlier library run.                                                    *)
(***************************************************************************)
EXTENDS TestInfo
CONSTANTS Arts, MChecks, LibVersion, MaxCalls
\* MChecks: sequence of check names (registry order) used in this model instance

Truth == {"must", "mustnot", "may"}
Allowed(t) == IF t = "must" THEN {TRUE} ELSE IF t = "mustnot" THEN {FALSE} ELSE BOOLEAN
EmptyTI == [weak |-> FALSE, version |-> "", entries |-> <<>>, nf |-> {}, nm1 |-> {}]
\* annotations an earlier (older) library run may have left
Prior(c) == {EmptyTI,
             [weak |-> FALSE, version |-> "old", entries |-> <<[name |-> c, result |-> FALSE, sev |-> Severity(c)]>>, nf |-> {}, nm1 |-> {}],
             [weak |-> TRUE, version |-> "old", entries |-> <<[name |-> c, result |-> TRUE, sev |-> Severity(c)]>>, nf |-> {1}, nm1 |-> {}]}

VARIABLES ti, truth, ret, raised, calls, lastBatch, lastVerdicts
vars == <<ti, truth, ret, raised, calls, lastBatch, lastVerdicts>>
MC == SeqSet(MChecks)

Init == /\ truth \in [MC -> [Arts -> Truth]]
        /\ ti \in [Arts -> Prior(MChecks[1])]
        /\ ret = FALSE /\ raised = FALSE /\ calls = 0 /\ lastBatch = {} /\ lastVerdicts = <<>>

\* new entry of check c for artifact a with verdict v; CheckLowHammingWeight reports a suspicion without
\* factors at severity UNKNOWN
NewEntry(c, v, withEvidence) ==
  [name |-> c, result |-> v,
   sev |-> IF c = "CheckLowHammingWeight" /\ v /\ ~withEvidence THEN 0 ELSE Severity(c)]
HasEvidence(c) == c \in {"CheckGCD", "CheckLowHammingWeight"}
ApplyOne(t, c, v, ev) ==
  LET t1 == IF v /\ ev THEN AttachFactors(t, "nf", {1, 2}) ELSE t
  IN SetTestResult(t1, NewEntry(c, v, ev), LibVersion)

\* one check on a batch with the verdict assignment vs (a function batch -> BOOLEAN) and evidence choice
ApplyCheck(state, c, batch, vs, evs) ==
  [a \in Arts |-> IF a \in batch THEN ApplyOne(state[a], c, vs[a], evs[a]) ELSE state[a]]

RunCheck(c, batch) ==
  \E vs \in [batch -> BOOLEAN], evs \in [batch -> BOOLEAN] :
     /\ \A a \in batch : vs[a] \in Allowed(truth[c][a])
     /\ \A a \in batch : evs[a] => HasEvidence(c)
     /\ ti' = ApplyCheck(ti, c, batch, vs, evs)
     /\ ret' = (\E a \in batch : vs[a])
     /\ lastVerdicts' = <<vs>>

\* the entry point: all checks of the registry in order; verdicts chosen per check
RECURSIVE ApplyAll(_, _, _, _)
ApplyAll(state, i, batch, vss) ==
  IF i > Len(MChecks) THEN state
  ELSE ApplyAll(ApplyCheck(state, MChecks[i], batch, vss[i], [a \in batch |-> FALSE]), i + 1, batch, vss)
RunAll(batch) ==
  \E vss \in [1..Len(MChecks) -> [batch -> BOOLEAN]] :
     /\ \A i \in 1..Len(MChecks) : \A a \in batch : vss[i][a] \in Allowed(truth[MChecks[i]][a])
     /\ ti' = ApplyAll(ti, 1, batch, vss)
     /\ ret' = (\E i \in 1..Len(MChecks) : \E a \in batch : vss[i][a])
     /\ lastVerdicts' = vss

Next == /\ calls < MaxCalls /\ calls' = calls + 1
        /\ raised' = FALSE
        /\ \E batch \in SUBSET Arts :
             /\ lastBatch' = batch
             /\ \/ \E c \in MC : RunCheck(c, batch)
                \/ RunAll(batch)
        /\ UNCHANGED truth
Spec == Init /\ [][Next]_vars

(* ---------- invariants ------------------------------------------------------ *)
TypeOK == \A a \in Arts : ti[a].weak \in BOOLEAN /\ \A i \in 1..Len(ti[a].entries) : ti[a].entries[i].sev \in 0..4
NoDuplicates == \A a \in Arts : NoDuplicateEntries(ti[a])
WeakIff == \A a \in Arts : WeakIffPositive(ti[a])
VersionStamped == \A a \in Arts : ti[a].entries # <<>> => ti[a].version # ""
EntryNamedAndSevere == \A a \in Arts : \A i \in 1..Len(ti[a].entries) :
                          LET e == ti[a].entries[i] IN
                          e.name \in MC /\ (e.sev = Severity(e.name) \/ (e.name = "CheckLowHammingWeight" /\ e.result /\ e.sev = 0))
Total == raised = FALSE
\* the entry point returns True exactly when one of this call's verdicts is positive, and then some artifact of the batch is weak
RetIffSomeWeak == (ret => \E a \in lastBatch : ti[a].weak)
\* after the entry point every artifact of the batch has exactly one entry per check
OneEntryPerCheck == (Len(lastVerdicts) = Len(MChecks) /\ calls > 0) =>
                      \A a \in lastBatch : Names(ti[a]) = MC /\ Len(ti[a].entries) = Len(MChecks)
\* an artifact that no check may accuse is never accused (unless an earlier run already had)
HealthyNeverAccused == \A a \in Arts : (\A c \in MC : truth[c][a] = "mustnot") =>
                         \A i \in 1..Len(ti[a].entries) : ti[a].entries[i].result => ti[a].version = "old"
EvidenceOnlyWhenWeak == \A a \in Arts : ti[a].nf # {} => ti[a].weak

(* ---------- action properties ----------------------------------------------- *)
Monotone == [][\A a \in Arts :
                 /\ ti[a].weak => ti'[a].weak
                 /\ ti[a].nf \subseteq ti'[a].nf /\ ti[a].nm1 \subseteq ti'[a].nm1
                 /\ Len(ti'[a].entries) >= Len(ti[a].entries)
                 /\ \A i \in 1..Len(ti[a].entries) :
                      /\ ti'[a].entries[i].name = ti[a].entries[i].name
                      /\ ti[a].entries[i].result => ti'[a].entries[i].result
                      /\ ti'[a].entries[i].sev >= ti[a].entries[i].sev
                 /\ (ti[a].version # "" => ti'[a].version = ti[a].version)]_vars
UntouchedOutsideBatch == [][\A a \in Arts : a \notin lastBatch' => ti'[a] = ti[a]]_vars
=============================================================================
