SPECIFICATION Spec
CONSTANT MaxN = 260
INVARIANT PassPartitions
INVARIANT WholeGroupSeen
INVARIANT SingleCallSmall
INVARIANT NoCallsWhenEmpty
INVARIANT PassesPrefix
INVARIANT LcgSplitOk
CHECK_DEADLOCK FALSE
