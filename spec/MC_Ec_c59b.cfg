SPECIFICATION Spec
CONSTANTS P = 59
          A = 1
          B = 13
          GX = 1
          GY = 29
          Q = 67
          H = 1
INVARIANT Closed
INVARIANT Identity
INVARIANT Inverse
INVARIANT Commutative
INVARIANT Associative
INVARIANT Isomorphism
INVARIANT OrderQ
INVARIANT PrimeOrderWholeGroup
INVARIANT TimesAgrees
INVARIANT HnpRelation
CHECK_DEADLOCK FALSE
