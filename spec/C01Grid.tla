------------------------------ MODULE C01Grid ------------------------------
(* Scenario grid for C01: modulus class x (check, constructor parameter) x   *)
(* batch context, and modulus class x public helper function.  One JSON line *)
(* per state.  The invariant judged on every replay is FactorsSound of       *)
(* Checks.tla / ChecksTrace.tla: recorded factors divide, one is proper      *)
(* unless the modulus divides another modulus of the batch, evidence implies *)
(* weak.                                                                     *)
EXTENDS Naturals, Sequences, FiniteSets, TLC, Json
CONSTANT Thorough
ModClasses == {"healthy", "healthy3072", "small", "bits64", "bits65", "oddlen", "prime", "square", "even", "pow2", "three",
               "fermat", "highlow", "upperdiff", "pattern", "permuted", "cf", "lhw", "pm1", "pm1both", "unseeded",
               \* a square minus a perfect power that is not a square; close primes whose hex form starts with the digit e
               "sqminuscube", "sqminusfifth", "sqminustwicesq", "fermat_e"}
CheckParams == {<<"CheckFermat", "0">>, <<"CheckFermat", "1">>, <<"CheckFermat", "100000">>,
                <<"CheckHighAndLowBitsEqual", "default">>, <<"CheckContinuedFractions", "1">>, <<"CheckContinuedFractions", "65536">>,
                <<"CheckContinuedFractions", "default">>, <<"CheckBitPatterns", "default">>, <<"CheckBitPatterns", "one">>,
                <<"CheckBitPatterns", "300">>, <<"CheckBitPatterns", "empty">>, <<"CheckPermutedBitPatterns", "default">>,
                <<"CheckPollardpm1", "default">>, <<"CheckPollardpm1", "1024">>, <<"CheckPollardpm1", "65536">>,
                <<"CheckLowHammingWeight", "default">>, <<"CheckUnseededRand", "default">>, <<"CheckSmallUpperDifferences", "default">>,
                <<"CheckKeypairDenylist", "default">>, <<"ALLSINGLE", "default">>}
Helpers == {"FermatFactor", "FactorHighAndLowBitsEqual", "CheckContinuedFraction", "CheckFraction", "CheckSmallUpperDifferences",
            "Pollardpm1", "CheckLowHammingWeight", "FactorWithGuess"}
\* aggregate checks: batch contexts
\* even-np1-shared: even moduli whose SUCCESSORS n + 1 share a 200-bit factor (nothing divides n - 1: nothing may be recorded)
Contexts == {"pair-shared", "nested", "duplicate", "three-partners", "alone", "n1-shared-big", "n1-shared-small", "even-np1-shared"}
GcdBounds == {"1", "2^64", "2^128"}
VARIABLE cell
Init == \/ \E m \in ModClasses, cp \in CheckParams : cell = [kind |-> "single", mod |-> m, check |-> cp[1], param |-> cp[2]]
        \/ \E m \in ModClasses, h \in Helpers : cell = [kind |-> "helper", mod |-> m, check |-> h, param |-> "default"]
        \* every single check on a mixed batch: a key of the family it factors first, then tiny / degenerate / healthy moduli
        \* (state kept across the keys of one call must not leak evidence from one key to the next)
        \/ \E cp \in CheckParams : cell = [kind |-> "batch", mod |-> "family-then-others", check |-> cp[1], param |-> cp[2]]
        \* populations of small moduli through the helpers whose acceptance test is a perfect-square / gcd coincidence
        \/ \E h \in {"FermatFactor", "FactorHighAndLowBitsEqual", "CheckContinuedFraction", "CheckFraction"}, sz \in {"64", "80", "128"},
              chunk \in {"0", "1", "2", "3"} :
              cell = [kind |-> "population", mod |-> sz, check |-> h, param |-> chunk]
        \/ \E c \in Contexts, b \in GcdBounds : cell = [kind |-> "aggregate", mod |-> c, check |-> "CheckGCD+CheckGCDN1", param |-> b]
Next == UNCHANGED cell
Spec == Init /\ [][Next]_cell
Emit == PrintT(<<"CELL", ToJson(cell)>>)
=============================================================================
