------------------------------- MODULE SIM_TIM -------------------------------
(* TestInfoMachine with a history variable, for generating operation sequences with -simulate. *)
EXTENDS MC_TIM
\* history variable for -simulate
VARIABLE ops
HInit == MInit /\ ops = <<>>
HNext == /\ nops < MaxOps /\ nops' = nops + 1
         /\ \/ \E nm \in OpNames, r \in BOOLEAN, sv \in 0..4 :
                 SetOp(nm, r, sv) /\ ops' = Append(ops, [op |-> "set", name |-> nm, result |-> r, sev |-> sv, field |-> "", fs |-> {}, value |-> ""])
            \/ \E nm \in InfoNames, v \in {"a", "b"} :
                 AttachInfoOp(nm, v) /\ ops' = Append(ops, [op |-> "info", name |-> nm, result |-> FALSE, sev |-> 0, field |-> "", fs |-> {}, value |-> v])
            \/ \E f \in {"nf", "nm1"}, fs \in (SUBSET FactorIds) \ {{}} :
                 FactorsOp(f, fs) /\ ops' = Append(ops, [op |-> "factors", name |-> "", result |-> FALSE, sev |-> 0, field |-> f, fs |-> fs, value |-> ""])
HSpec == HInit /\ [][HNext]_<<mvars, ops>>
=============================================================================
