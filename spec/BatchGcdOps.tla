---------------------------- MODULE BatchGcdOps ----------------------------
(***************************************************************************)
(* Variable-free operators of the BatchGcd specification: the functional   *)
(* form of the product / remainder tree in the free commutative semiring   *)
(* and the bag semantics of the result.  Shared by the state machine       *)
(* (BatchGcd.tla), the scenario generator (BatchGcdGen.tla) and the trace  *)
(* specification (BatchGcdTrace.tla).                                      *)
(***************************************************************************)
EXTENDS Naturals, Sequences, FiniteSets, TLC

Extra == 0   \* the symbolic leaf standing for other_values_prod

PolyTimesMono(P, M) == {m \cup M : m \in P}

\* one iteration of the while loop of ExtendedProductTree
NextValues(values) ==
  LET k == Len(values) IN
  [i \in 1..((k + 1) \div 2) |->
     IF 2 * i <= k THEN values[2 * i - 1] \cup values[2 * i] ELSE values[2 * i - 1]]

NextT(values, t) ==
  LET k == Len(values)
      h == k \div 2
      newt == [i \in 1..h |-> PolyTimesMono(t[2 * i - 1], values[2 * i])
                              \cup PolyTimesMono(t[2 * i], values[2 * i - 1])]
  IN IF k % 2 = 1 THEN Append(newt, t[k]) ELSE newt

Leaves(n) == [i \in 1..n |-> {i}]
Ones(n) == [i \in 1..n |-> {{}}]

RECURSIVE TreeFrom(_, _)
TreeFrom(values, acc) ==
  IF Len(values) <= 1 THEN acc
  ELSE LET nv == NextValues(values) IN TreeFrom(nv, Append(acc, nv))
ModelTree(n) == TreeFrom(Leaves(n), <<Leaves(n)>>)

RECURSIVE TFrom(_, _)
TFrom(values, t) ==
  IF Len(values) <= 1 THEN t ELSE TFrom(NextValues(values), NextT(values, t))
ModelT(n) == TFrom(Leaves(n), Ones(n))[1]          \* n >= 1

\* T as the definition says: sum over v of P / v
DefT(S) == {S \ {v} : v \in S}

\* reduction of a polynomial modulo a node: monomials that are multiples of
\* the node vanish
Reduce(P, S) == {m \in P : ~(S \subseteq m)}

\* one level of the remainder tree of BatchGCD (0-based i of the code = j - 1)
DescendLevel(values, prev) ==
  [j \in 1..Len(values) |->
     LET par == prev[((j - 1) \div 2) + 1] IN
     IF j = Len(values) /\ (j - 1) % 2 = 0 THEN par ELSE Reduce(par, values[j])]

(* ---------- semantics on bags of abstract primes (sparse records) -------- *)
Min2(a, b) == IF a < b THEN a ELSE b
Get(b, p) == IF p \in DOMAIN b THEN b[p] ELSE 0
Norm(b) == [p \in {q \in DOMAIN b : b[q] > 0} |-> b[p]]
RECURSIVE SumOver(_, _)
SumOver(S, p) == IF S = {} THEN 0 ELSE LET x == CHOOSE y \in S : TRUE IN Get(x, p) + SumOver(S \ {x}, p)
\* gcd of batch[i] with extra * product of the other DISTINCT values (bags normalised)
ExpectedGcd(batch, extra, i) ==
  LET D == {Norm(batch[k]) : k \in DOMAIN batch} \ {Norm(batch[i])} IN
  Norm([p \in DOMAIN batch[i] |-> Min2(batch[i][p], SumOver(D, p) + Get(extra, p))])
BagSize(b) == LET RECURSIVE S(_)
                  S(D) == IF D = {} THEN 0 ELSE LET p == CHOOSE q \in D : TRUE IN b[p] + S(D \ {p})
              IN S(DOMAIN b)
BagMinus(a, b) == Norm([p \in DOMAIN a |-> IF a[p] >= Get(b, p) THEN a[p] - Get(b, p) ELSE 0])
=============================================================================
