SPECIFICATION MSpec
CONSTANTS OpNames <- OpNamesDef
          InfoNames <- InfoNamesDef
          FactorIds <- FactorIdsDef
          MaxOps = 4
INVARIANT MNoDup
INVARIANT MWeakIff
INVARIANT MStamped
INVARIANT MHighest
PROPERTY MMonotone
CHECK_DEADLOCK FALSE
