SPECIFICATION GSpec
CONSTANTS Thorough = FALSE
          MaxN = 0
CONSTRAINT Emit
CHECK_DEADLOCK FALSE
