SPECIFICATION Spec
CONSTANTS Kind = "ecdsa"
          Slots <- Slots4
          Classes <- EcdsaHealthyClasses
          MaxCalls = 2
          AllowSingle = FALSE
CHECK_DEADLOCK FALSE
