SPECIFICATION Spec
CONSTANT MaxLen = 12
INVARIANT MachineForward
INVARIANT MachineBackward
INVARIANT MachineCycles
INVARIANT ReversalLemma
INVARIANT ComplementLemma
INVARIANT RunsReversal
INVARIANT VisitsReflect
INVARIANT LadderFacts
INVARIANT Table8Facts
CHECK_DEADLOCK FALSE
