SPECIFICATION Spec
CONSTANT MaxLen = 4
INVARIANT PinnedBackwardAgrees
CHECK_DEADLOCK FALSE
