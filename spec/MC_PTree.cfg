SPECIFICATION Spec
CONSTANT MaxN = 130
INVARIANT TInv
INVARIANT Partition
INVARIANT ChildInParent
INVARIANT RootOk
INVARIANT RemInv
INVARIANT PassThroughOk
INVARIANT LeafOk
INVARIANT FunctionalAgrees
CHECK_DEADLOCK FALSE
