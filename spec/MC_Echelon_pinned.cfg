SPECIFICATION Spec
CONSTANTS NR = 5
          NC = 4
          RowVoc <- Units4
          X <- X4
          PivotFix = FALSE
INVARIANT Sound
CHECK_DEADLOCK FALSE
