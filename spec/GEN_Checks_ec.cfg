SPECIFICATION Spec
CONSTANTS Kind = "ec"
          Slots <- Slots4
          Classes <- EcClasses
          MaxCalls = 3
          AllowSingle = TRUE
CHECK_DEADLOCK FALSE
