------------------------------ MODULE BMTrace ------------------------------
(* Trace specification for C14: TLC runs its own Berlekamp-Massey machine  *)
(* (functional form, validated against the brute-force definition by       *)
(* MC_BM.cfg) on every recorded sequence and compares the three            *)
(* implementations with it; the closed-form census is recomputed.          *)
EXTENDS BerlekampMassey, TraceBase
VARIABLE tid

\* log2 of CountFormula(n, m), or -1 when the count is 0
CountLog2(n, m) == IF m < 0 \/ n <= 0 \/ m > n THEN 0 - 1
                   ELSE IF m = 0 THEN 0
                   ELSE IF m <= n \div 2 THEN 2 * m - 1 ELSE 2 * (n - m)

VerdictLc(r) ==
  IF r.raised # "none" THEN "Total"
  ELSE LET want == BM(r.args.bits) IN
       IF r.obs.clmul # want THEN "NativeClmulIsShortestLfsr"
       ELSE IF r.obs.portable # want THEN "NativePortableIsShortestLfsr"
       ELSE IF r.obs.python # want THEN "PythonIsShortestLfsr"
       ELSE IF r.obs.wrapper # want THEN "LinearComplexityWrapper"
       ELSE "ok"
\* sequences too long for TLC's machine: the implementations must agree and respect 0 <= L <= n
VerdictCross(r) ==
  IF r.raised # "none" THEN "Total"
  ELSE IF ~(r.obs.clmul = r.obs.portable /\ r.obs.portable = r.obs.python) THEN "ImplementationsAgree"
  ELSE IF r.obs.clmul > r.args.n THEN "LengthBound"
  ELSE "ok"
VerdictCount(r) ==
  IF r.raised # "none" THEN "Total"
  ELSE IF r.obs.log2 # CountLog2(r.args.n, r.args.m) THEN "CountClosedForm"
  ELSE "ok"
VerdictLogProb(r) ==
  LET valid == r.args.n > 0 /\ r.args.m >= 0 /\ r.args.m <= r.args.n IN
  IF ~valid THEN (IF r.raised = "ValueError" THEN "ok" ELSE "LogProbDomain")
  ELSE IF r.raised # "none" THEN "Total"
  ELSE IF r.obs.value # LogProbFormula(r.args.n, r.args.m) THEN "LogProbClosedForm"
  ELSE IF r.obs.value # CountLog2(r.args.n, r.args.m) - r.args.n THEN "LogProbIsLogOfCount"
  ELSE "ok"
Verdict(r) ==
  CASE r.ev = "lc" -> VerdictLc(r)
    [] r.ev = "cross" -> VerdictCross(r)
    [] r.ev = "count" -> VerdictCount(r)
    [] r.ev = "logprob" -> VerdictLogProb(r)
    [] OTHER -> "UnknownEvent"
TInit == tid = 1 /\ RegInit /\ s = <<>> /\ st = BM0
TNext == /\ tid <= NRecs
         /\ LET v == Verdict(Recs[tid]) IN Check(tid, Recs[tid], v, v = "ok")
         /\ tid' = tid + 1 /\ UNCHANGED vars
TSpec == TInit /\ [][TNext]_<<vars, tid>>
=============================================================================
