SPECIFICATION Spec
CONSTANTS Q = 59
          MaxLen = 4
          MaxCalls = 2
          GiantExtra = 2
          StepAdjust = 0
INVARIANT Complete
PROPERTY CacheMonotone
CHECK_DEADLOCK FALSE
