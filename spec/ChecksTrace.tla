---------------------------- MODULE ChecksTrace ----------------------------
(***************************************************************************)
(* Trace specification for the check-level properties (C16, C17, C18, and  *)
(* the evidence invariants of C01/C02/C07).  One record = one call of an   *)
(* entry point (paranoid CheckAllRSA / EC / ECDSASigs) or of one Check on a *)
(* batch of real protobufs, with the projected TestInfo of every artifact  *)
(* before and after the call.  The record is an observed transition; TLC   *)
(* decides whether it is a transition of the specification (TestInfo.tla   *)
(* semantics of SetTestResult / AttachFactors, the documented check table, *)
(* the verdict criterion crit[check] \in {must, mustnot, may} of each      *)
(* artifact, which the driver derives from how it constructed the          *)
(* artifact) and names the first violated clause.                          *)
(***************************************************************************)
EXTENDS TestInfo, TraceBase, FactorCriteria
VARIABLE tid

\* checks run by this call, as a set
Ran(r) == IF r.all THEN SeqSet(ChecksOf(r.kind)) ELSE SeqSet(r.checks)
App(r, a, c) == Applies(c, a.has_params)
Get(f, k, d) == IF k \in DOMAIN f THEN f[k] ELSE d
Attrs(a) == IF "attrs" \in DOMAIN a THEN a.attrs ELSE [family |-> "none"]
DefaultPar == [max_steps |-> 100000]
\* the closed-form criterion of the specification where the construction parameters decide it, else the class criterion
CritP(r, a, c) == LET k == Criterion(c, Attrs(a), IF "par" \in DOMAIN r THEN r.par ELSE DefaultPar) IN
                  IF k = "none" THEN Get(a.crit, c, "may") ELSE k
Crit(a, c) == Get(a.crit, c, "may")
EntriesOf(t) == t.entries
NameSeq(t) == [i \in 1..Len(t.entries) |-> t.entries[i].name]
Count(t, c) == Cardinality({i \in 1..Len(t.entries) : t.entries[i].name = c})
Res(t, c) == Entry(t, c).result
Sev(t, c) == Entry(t, c).sev
ToSet(s) == {s[i] : i \in 1..Len(s)}

\* expected severities of a NEW entry of check c with result v for artifact a
SevOptions(a, c, v) ==
  IF c = "CheckLowHammingWeight" /\ v THEN {0, 4}
  ELSE IF c = "CheckIssuerKey" /\ v THEN {a.issuer_sev}
  ELSE {Severity(c)}

\* ---- per artifact clauses; each returns "ok" or the clause name ----
ArtVerdict(r, a) ==
  LET b == a.before
      f == a.after
      ran == {c \in Ran(r) : App(r, a, c)}
  IN
  \* bookkeeping shape
  IF \E c \in AllCheckNames : Count(f, c) > 1 /\ Count(b, c) <= 1 THEN "NoDuplicateEntries"
  ELSE IF \E i \in 1..Len(f.entries) : f.entries[i].name \notin (Names(b) \cup ran) THEN "EntryNamedAfterItsCheck"
  ELSE IF \E c \in ran : ~HasEntry(f, c) THEN "OneEntryPerApplicableCheck"
  ELSE IF \E c \in Names(f) \ Names(b) : c \notin ran THEN "NoEntryFromInapplicableCheck"
  ELSE IF Names(b) \ Names(f) # {} THEN "EntriesNeverRemoved"
  \* untouched entries stay as they were
  ELSE IF \E c \in Names(b) \ ran : Res(f, c) # Res(b, c) \/ Sev(f, c) # Sev(b, c) THEN "OtherEntriesUntouched"
  \* monotone update of existing entries
  ELSE IF \E c \in Names(b) \cap ran : Res(b, c) /\ ~Res(f, c) THEN "PositiveEntryNeverCleared"
  ELSE IF \E c \in Names(b) \cap ran : Sev(f, c) < Sev(b, c) THEN "SeverityNeverLowered"
  \* verdict against the criterion of this artifact
  ELSE IF \E c \in ran : CritP(r, a, c) = "mustnot" /\ Res(f, c) /\ ~(HasEntry(b, c) /\ Res(b, c)) THEN "MustNotFlag"
  ELSE IF \E c \in ran : CritP(r, a, c) = "must" /\ ~Res(f, c) THEN "MustFlag"
  \* primes agreeing on enough low and high bits: Fermat or the equal-bits check factors the key
  ELSE IF Fam(Attrs(a)) = "highlow" /\ InHighLowRegion(Attrs(a)) /\ {"CheckFermat", "CheckHighAndLowBitsEqual"} \subseteq ran
          /\ ~Res(f, "CheckFermat") /\ ~Res(f, "CheckHighAndLowBitsEqual") THEN "MustFlagByFermatOrEqualBits"
  \* documented families are factored: both primes recorded
  ELSE IF \E c \in ran : MustFactor(c, Attrs(a)) /\ Res(f, c) /\ ~f.nf_is_pq THEN "BothPrimesRecorded"
  ELSE IF Fam(Attrs(a)) = "highlow" /\ InHighLowRegion(Attrs(a)) /\ (\E c \in ran \cap {"CheckFermat", "CheckHighAndLowBitsEqual"} : Res(f, c))
          /\ ~f.nf_is_pq THEN "BothPrimesRecorded"
  \* severity of entries written by this call
  ELSE IF \E c \in ran \ Names(b) : Sev(f, c) \notin SevOptions(a, c, Res(f, c)) THEN "DocumentedSeverity"
  ELSE IF \E c \in ran \cap Names(b) :
            Sev(f, c) \notin {Max2(Sev(b, c), s) : s \in SevOptions(a, c, TRUE) \cup SevOptions(a, c, FALSE)} THEN "SeverityIsMax"
  ELSE IF HasEntry(f, "CheckLowHammingWeight") /\ ~HasEntry(b, "CheckLowHammingWeight") /\ "CheckLowHammingWeight" \in ran
          /\ Res(f, "CheckLowHammingWeight") /\ Sev(f, "CheckLowHammingWeight") = 4 /\ ToSet(f.nf) = {} THEN "DocumentedSeverity"
  \* ... and a factorisation found by that check carries the check's documented severity, not the "suspicion only" one
  ELSE IF HasEntry(f, "CheckLowHammingWeight") /\ ~HasEntry(b, "CheckLowHammingWeight") /\ ran = {"CheckLowHammingWeight"}
          /\ Res(f, "CheckLowHammingWeight") /\ Sev(f, "CheckLowHammingWeight") = 0 /\ ToSet(f.nf) # {} /\ ToSet(b.nf) = {} THEN "DocumentedSeverity"
  \* weak flag and version
  ELSE IF b.weak /\ ~f.weak THEN "WeakNeverCleared"
  ELSE IF f.weak # (b.weak \/ \E c \in ran : Res(f, c) /\ ~(HasEntry(b, c) /\ Res(b, c))) /\ WeakIffPositive(b) THEN "WeakIffPositiveEntry"
  ELSE IF ran # {} /\ f.version # (IF b.version = "" THEN r.libversion ELSE b.version) THEN "VersionRecorded"
  ELSE IF ran = {} /\ f # b THEN "UntouchedWhenNoCheckApplies"
  \* evidence
  ELSE IF ~(ToSet(b.nf) \subseteq ToSet(f.nf)) \/ ~(ToSet(b.nm1) \subseteq ToSet(f.nm1)) THEN "FactorsNeverRemoved"
  ELSE IF \E i \in 1..Len(f.facts) : f.facts[i].field = "nf" /\ ~f.facts[i].divides THEN "FactorDividesModulus"
  ELSE IF \E i \in 1..Len(f.facts) : f.facts[i].field = "nm1" /\ ~f.facts[i].divides THEN "FactorDividesModulusMinusOne"
  ELSE IF ToSet(f.nf) # {} /\ ~(\E i \in 1..Len(f.facts) : f.facts[i].field = "nf" /\ f.facts[i].proper) /\ ~a.divides_other THEN "SomeProperFactor"
  ELSE IF (ToSet(f.nf) # {} \/ ToSet(f.nm1) # {}) /\ ~f.weak THEN "EvidenceImpliesWeak"
  ELSE IF f.dlog = "bad" THEN "DiscreteLogIsTrue"
  ELSE IF f.diff = "bad" THEN "KeyRelationIsTrue"
  ELSE IF f.dlog \in {"ok", "bad"} /\ ~f.weak THEN "EvidenceImpliesWeak"
  \* a positive nonce-check entry written by this call comes with a verifiable private key
  ELSE IF \E c \in ran : c \in {"CheckLCGNonceGMP", "CheckLCGNonceJavaUtilRandom", "CheckNonceMSB", "CheckNonceCommonPrefix",
                               "CheckNonceCommonPostfix", "CheckNonceGeneralized", "CheckCr50U2f"}
                         /\ Res(f, c) /\ ~(HasEntry(b, c) /\ Res(b, c)) /\ f.dlog # "ok" THEN "NonceVerdictHasPrivateKey"
  ELSE "ok"

RetExpected(r) ==
  LET newpos == \E i \in 1..Len(r.arts) : \E c \in Ran(r) :
                   App(r, r.arts[i], c) /\ HasEntry(r.arts[i].after, c) /\ Res(r.arts[i].after, c)
                   /\ ~(HasEntry(r.arts[i].before, c) /\ Res(r.arts[i].before, c))
      mustpos == \E i \in 1..Len(r.arts) : \E c \in Ran(r) : App(r, r.arts[i], c) /\ CritP(r, r.arts[i], c) = "must"
      canpos == \E i \in 1..Len(r.arts) : \E c \in Ran(r) : App(r, r.arts[i], c) /\ CritP(r, r.arts[i], c) # "mustnot"
  IN IF newpos \/ mustpos THEN {TRUE} ELSE IF ~canpos THEN {FALSE} ELSE BOOLEAN

Consume(r) ==
  IF r.raised # "none" THEN Fail(tid, r, "Total")
  ELSE /\ Check(tid, r, "ReturnsBool", r.ret_is_bool)
       /\ Check(tid, r, "ReturnIffSomeWeak", r.ret \in RetExpected(r))
       /\ Check(tid, r, "ReturnTrueOnlyIfSomeArtifactWeak", r.ret => \E i \in 1..Len(r.arts) : r.arts[i].after.weak)
       /\ \A i \in 1..Len(r.arts) : LET v == ArtVerdict(r, r.arts[i]) IN Check(tid, r, v, v = "ok")

\* public factoring helpers: whatever they return divides the modulus; a returned pair multiplies to it
ConsumeHelper(r) ==
  IF r.raised # "none" THEN Fail(tid, r, "Total")
  ELSE /\ Check(tid, r, "HelperFactorDivides", \A i \in 1..Len(r.obs.facts) : r.obs.facts[i].divides)
       /\ Check(tid, r, "HelperProductIsModulus", r.obs.none \/ r.obs.product_is_n)
\* the process-wide registry of check singletons (paranoid.Get*Checks): exactly the documented checks of the kind, each name once,
\* every check named after its class with its documented severity, the same objects on every call, all = singles then aggregates
ConsumeRegistry(r) ==
  IF r.raised # "none" THEN Fail(tid, r, "Total")
  ELSE /\ Check(tid, r, "RegistryIsTheDocumentedCheckTable", ToSet(r.obs.names) = SeqSet(ChecksOf(r.kind)) /\ Len(r.obs.names) = Len(ChecksOf(r.kind)))
       /\ Check(tid, r, "CheckNamedAfterItsClass", \A i \in 1..Len(r.obs.names) : r.obs.class_names[i] = r.obs.names[i] /\ r.obs.check_names[i] = r.obs.names[i])
       /\ Check(tid, r, "RegistryDocumentedSeverity", \A i \in 1..Len(r.obs.names) : r.obs.names[i] \in AllCheckNames => r.obs.sevs[i] = Severity(r.obs.names[i]))
       /\ Check(tid, r, "RegistrySingletons", r.obs.same_objects_on_second_call)
       /\ Check(tid, r, "AllIsSinglesThenAggregates", r.obs.all_is_union)
TInit == tid = 1 /\ RegInit
TNext == /\ tid <= NRecs
         /\ IF Recs[tid].ev = "helper" THEN ConsumeHelper(Recs[tid])
            ELSE IF Recs[tid].ev = "registry" THEN ConsumeRegistry(Recs[tid]) ELSE Consume(Recs[tid])
         /\ tid' = tid + 1
TSpec == TInit /\ [][TNext]_tid
=============================================================================
