SPECIFICATION Spec
CONSTANTS Issuers <- I4
          CurveOf <- C4
          Weak <- W4
          Num <- NQuick
          StoreBy = "batch"
INVARIANT ExactlyTheWeak
INVARIANT WithinBatch
CONSTRAINT Emit
CHECK_DEADLOCK FALSE
