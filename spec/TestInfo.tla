------------------------------ MODULE TestInfo ------------------------------
(***************************************************************************)
(* Pure operators mirroring paranoid_crypto/lib/util.py: the caller-owned  *)
(* TestInfo annotation of every artifact and the documented check table.   *)
(* A TestInfo is a record                                                  *)
(*   [weak, version (string, "" = unset), entries (sequence of             *)
(*    [name, result, sev]), nf / nm1 (sets of factor ids recorded under    *)
(*    N_FACTORS / N-1_FACTORS), dlog / diff ("none" | "ok" | "bad")]       *)
(* Severities: UNKNOWN 0, LOW 1, MEDIUM 2, HIGH 3, CRITICAL 4.             *)
(***************************************************************************)
EXTENDS Naturals, Sequences, FiniteSets, TLC

Max2(a, b) == IF a > b THEN a ELSE b
Names(ti) == {ti.entries[i].name : i \in 1..Len(ti.entries)}
HasEntry(ti, name) == \E i \in 1..Len(ti.entries) : ti.entries[i].name = name
\* util.GetTestResult: first match
EntryIdx(ti, name) == CHOOSE i \in 1..Len(ti.entries) :
                        ti.entries[i].name = name /\ \A j \in 1..(i - 1) : ti.entries[j].name # name
Entry(ti, name) == ti.entries[EntryIdx(ti, name)]
\* util.SetTestResult
SetTestResult(ti, e, libversion) ==
  LET v == IF ti.version = "" THEN libversion ELSE ti.version
      w == ti.weak \/ e.result
      es == IF HasEntry(ti, e.name)
            THEN LET i == EntryIdx(ti, e.name) IN
                 [ti.entries EXCEPT ![i] = [name |-> e.name, result |-> (@.result \/ e.result), sev |-> Max2(@.sev, e.sev)]]
            ELSE Append(ti.entries, e)
  IN [ti EXCEPT !.version = v, !.weak = w, !.entries = es]
\* util.AttachFactors: union
AttachFactors(ti, field, fs) == IF field = "nf" THEN [ti EXCEPT !.nf = @ \cup fs] ELSE [ti EXCEPT !.nm1 = @ \cup fs]
\* util.GetHighestSeverity over positive entries; -1 = None
HighestSeverity(ti) ==
  LET S == {ti.entries[i].sev : i \in {j \in 1..Len(ti.entries) : ti.entries[j].result}} IN
  IF S = {} THEN 0 - 1 ELSE CHOOSE m \in S : \A x \in S : x <= m
NoDuplicateEntries(ti) == \A i, j \in 1..Len(ti.entries) : i # j => ti.entries[i].name # ti.entries[j].name
WeakIffPositive(ti) == ti.weak <=> \E i \in 1..Len(ti.entries) : ti.entries[i].result

(* ---------- the documented check table (README.md, class docstrings) ------- *)
RsaChecks == <<"CheckSizes", "CheckExponents", "CheckROCA", "CheckROCAVariant", "CheckFermat",
               "CheckHighAndLowBitsEqual", "CheckOpensslDenylist", "CheckContinuedFractions", "CheckBitPatterns",
               "CheckPermutedBitPatterns", "CheckPollardpm1", "CheckLowHammingWeight", "CheckUnseededRand",
               "CheckSmallUpperDifferences", "CheckKeypairDenylist", "CheckGCD", "CheckGCDN1">>
EcChecks == <<"CheckValidECKey", "CheckWeakCurve", "CheckWeakECPrivateKey", "CheckECKeySmallDifference">>
EcdsaChecks == <<"CheckLCGNonceGMP", "CheckLCGNonceJavaUtilRandom", "CheckNonceMSB", "CheckNonceCommonPrefix",
                 "CheckNonceCommonPostfix", "CheckNonceGeneralized", "CheckIssuerKey", "CheckCr50U2f">>
ChecksOf(kind) == IF kind = "rsa" THEN RsaChecks ELSE IF kind = "ec" THEN EcChecks ELSE EcdsaChecks
SeqSet(s) == {s[i] : i \in 1..Len(s)}
AllCheckNames == SeqSet(RsaChecks) \cup SeqSet(EcChecks) \cup SeqSet(EcdsaChecks)
Severity(c) ==
  CASE c \in {"CheckSizes", "CheckExponents", "CheckROCAVariant", "CheckValidECKey", "CheckWeakCurve"} -> 2
    [] c \in {"CheckROCA", "CheckECKeySmallDifference"} -> 3
    [] c \in {"CheckGCDN1", "CheckIssuerKey"} -> 0
    [] OTHER -> 4
\* checks that judge a batch jointly
Joint(c) == c \in {"CheckGCD", "CheckGCDN1", "CheckECKeySmallDifference", "CheckLCGNonceGMP", "CheckLCGNonceJavaUtilRandom",
                   "CheckNonceMSB", "CheckNonceCommonPrefix", "CheckNonceCommonPostfix", "CheckNonceGeneralized",
                   "CheckIssuerKey", "CheckCr50U2f"}
\* applicability: a check skips artifacts whose curve has no parameters (unknown / binary-field identifiers)
NeedsCurveParams(c) == c \in {"CheckWeakCurve", "CheckWeakECPrivateKey", "CheckECKeySmallDifference", "CheckLCGNonceGMP",
                              "CheckLCGNonceJavaUtilRandom", "CheckNonceMSB", "CheckNonceCommonPrefix",
                              "CheckNonceCommonPostfix", "CheckNonceGeneralized", "CheckCr50U2f"}
Applies(c, hasParams) == ~NeedsCurveParams(c) \/ hasParams
=============================================================================
