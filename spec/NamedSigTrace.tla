---------------------------- MODULE NamedSigTrace ----------------------------
(* T2 trace specification for C09 on the named curves and for the byte/int    *)
(* conversions: operands have up to 4096 bits, so the harness projects each    *)
(* clause to a boolean (reference signer certified on small curves by          *)
(* EcTrace, RFC 6979 bits2int, int.from_bytes) and TLC applies the criterion.  *)
EXTENDS TraceBase
VARIABLE tid
VHnp(r) == IF r.raised # "none" THEN "Total"
           ELSE IF ~r.obs.fields_ok THEN "FieldRoundTrip"
           ELSE IF ~r.obs.z_ok THEN "HashTruncation"
           ELSE IF ~r.obs.relation_ok THEN "NonceRelation"
           \* the relation is stated modulo the curve ORDER: the table's n must be the (prime) order of the table's generator
           ELSE IF ~r.obs.order_ok THEN "ModulusIsTheGroupOrder" ELSE "ok"
VConv(r) == IF r.raised # "none" THEN "Total"
            ELSE IF ~r.obs.roundtrip THEN "IntBytesRoundTrip"
            ELSE IF ~r.obs.bytes_match_ref THEN "Int2BytesBigEndianMinimal"
            ELSE IF ~r.obs.padded_ok THEN "LeadingZeroBytesIgnored"
            ELSE IF ~r.obs.hex_ok THEN "Hex2Bytes" ELSE "ok"
Verdict(r) == CASE r.ev = "nhnp" -> VHnp(r) [] r.ev = "conv" -> VConv(r) [] OTHER -> "UnknownEvent"
TInit == tid = 1 /\ RegInit
TNext == /\ tid <= NRecs
         /\ LET v == Verdict(Recs[tid]) IN Check(tid, Recs[tid], v, v = "ok")
         /\ tid' = tid + 1
TSpec == TInit /\ [][TNext]_tid
=============================================================================
