SPECIFICATION Spec
CONSTANTS Kind = "rsa"
          Slots <- Slots6
          Classes <- RsaHealthyClasses
          MaxCalls = 2
          AllowSingle = FALSE
CHECK_DEADLOCK FALSE
