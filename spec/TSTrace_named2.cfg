SPECIFICATION TSpec
CONSTANTS Tests <- TestsNamed
          NamesOf <- NamesOfDef
          Exps <- ExpsDef
          FailAt <- FailAtDef
          RepAt <- RepAtDef
          MinReps = 2
          MaxRuns = 8
          Mode = "source"
CHECK_DEADLOCK FALSE
POSTCONDITION Post
