---------------------------- MODULE NTheoryTrace ----------------------------
(* Trace specification for C19: every record is one call of a helper of     *)
(* ntheory_util / linalg_util / lattice_suite / randomness util; TLC        *)
(* recomputes the definition (NTheory.tla) on the recorded arguments.       *)
EXTENDS NTheory, TraceBase
VARIABLE tid

Range(q) == {q[i] : i \in 1..Len(q)}
\* rationals <<num, den>>, den > 0, lowest terms
QNorm(q) == LET g == Gcd(Abs(q[1]), Abs(q[2]))
                sg == IF q[2] < 0 THEN -1 ELSE 1
            IN IF q[1] = 0 THEN <<0, 1>> ELSE <<sg * (q[1] \div g), sg * (q[2] \div g)>>
QAdd(p, q) == QNorm(<<p[1] * q[2] + q[1] * p[2], p[2] * q[2]>>)
QMulI(q, c) == QNorm(<<q[1] * c, q[2]>>)
RowDot(row, xs) == LET RECURSIVE S(_, _)
                       S(j, acc) == IF j > Len(row) THEN acc ELSE S(j + 1, QAdd(acc, QMulI(xs[j], row[j])))
                   IN S(1, <<0, 1>>)
Satisfies(a, b, xs) == /\ Len(xs) = Len(a[1])
                       /\ \A i \in 1..Len(a) : RowDot(a[i], xs) = <<b[i], 1>>

VInv(r) == LET nn == r.args.n
               kk == r.args.k IN
  IF r.raised # "none" THEN "Total"
  ELSE IF r.obs.none THEN (IF InvExists(nn, kk) THEN "InverseMissed" ELSE "ok")
  ELSE IF ~IsInv(r.obs.a, nn, kk) THEN "InverseCongruence" ELSE "ok"
VInvSqrt(r) == LET nn == r.args.n
                   kk == r.args.k IN
  IF r.raised # "none" THEN "Total"
  ELSE IF r.obs.none THEN (IF InvSqrtExists(nn, kk) THEN "InverseSqrtMissed" ELSE "ok")
  ELSE IF ~IsInvSqrt(r.obs.a, nn, kk) THEN "InverseSqrtCongruence" ELSE "ok"
VSqrt(r) == LET nn == r.args.n
                kk == r.args.k IN
  IF nn % 2 = 0 THEN (IF r.raised = "ValueError" THEN "ok" ELSE "SqrtDomain")
  ELSE IF r.raised # "none" THEN "Total"
  ELSE IF {x % Pow2(kk) : x \in Range(r.obs.roots)} # SqrtSet(nn, kk) THEN "SqrtAllRoots"
  ELSE "ok"
\* big operands: the harness evaluated the congruence on Python ints (abstraction map)
VBig(r) ==
  IF r.raised # "none" THEN "Total"
  ELSE IF r.obs.none # ~r.args.solvable THEN "BigSolvableIff"
  ELSE IF ~r.obs.none /\ ~r.obs.congruent THEN "BigCongruence"
  ELSE IF r.ev = "sqrt_big" /\ ~r.obs.none /\ r.obs.distinct # 4 THEN "BigFourRoots"
  ELSE "ok"
VCf(r) == LET qs == CfCoeffs(r.args.a, r.args.b) IN
  IF r.raised # "none" THEN "Total"
  ELSE IF Len(r.obs.triples) # Len(qs) THEN "CfLength"
  ELSE IF \E i \in 1..Len(qs) : r.obs.triples[i][1] # qs[i] THEN "CfCoefficient"
  ELSE IF \E i \in 1..Len(qs) : <<r.obs.triples[i][2], r.obs.triples[i][3]>> # Convergent(qs, i) THEN "CfConvergent"
  ELSE "ok"
VDivmod(r) ==
  IF r.raised # "none" THEN "Total"
  ELSE IF ~IsRoundedDivision(r.args.a, r.args.b, r.obs.q, r.obs.r) THEN "RoundedDivision" ELSE "ok"
VSieve(r) == LET ps == r.obs.primes IN
  IF r.raised # "none" THEN "Total"
  ELSE IF Range(ps) # PrimesBelow(r.args.n) THEN "SieveSet"
  ELSE IF \E i \in 1..(Len(ps) - 1) : ps[i] >= ps[i + 1] THEN "SieveOrder"
  ELSE "ok"
VPavg(r) ==
  IF r.raised # "none" THEN "Total"
  ELSE IF r.obs.value \notin PseudoAverages(r.args.a, r.args.n) THEN "PseudoAverageDef" ELSE "ok"
VIrwin(r) ==
  IF r.raised # "none" THEN "Total"
  ELSE IF r.obs.scaled # IrwinHallNum(r.args.n, r.args.j) THEN "UniformSumCdfExact"
  ELSE IF ~r.obs.close THEN "UniformSumCdfTolerance" ELSE "ok"
VSolve(r) ==
  IF r.raised # "none" THEN "Total"
  ELSE IF r.obs.none THEN "ok"       \* None is always allowed by the property
  ELSE IF ~Satisfies(r.args.a, r.args.b, r.obs.x) THEN "SolutionSatisfiesSystem" ELSE "ok"
VUt(r) == LET zero == \E i \in 1..Len(r.args.a) : r.args.a[i][i] = 0 IN
  IF r.raised # "none" THEN "Total"
  ELSE IF r.obs.none # zero THEN "TriangularNoneIffZeroDiagonal"
  ELSE IF ~r.obs.none /\ ~Satisfies(r.args.a, r.args.b, r.obs.x) THEN "SolutionSatisfiesSystem" ELSE "ok"
\* solutions too large for 32-bit arithmetic: exact Fraction check by the harness
VSolveBig(r) == IF r.raised # "none" THEN "Total"
                ELSE IF ~r.obs.none /\ ~r.obs.satisfies THEN "SolutionSatisfiesSystem" ELSE "ok"
\* small-root finders: only true roots below the bound are returned; the planted root is found when the unknown part is
\* below the documented reach of the default lattice with margin (fractions of the size of p, in percent)
RootMust(r) == CASE r.args.kind \in {"uni_high", "uni_low", "uni_neg"} -> r.args.pct <= 39
                 [] r.args.kind = "bi_modp" -> r.args.pct <= 11        \* each of two unknown chunks
                 [] r.args.kind = "bi_modn" -> r.args.pct <= 33
                 [] OTHER -> FALSE
VRoot(r) == IF r.raised # "none" THEN "Total"
            ELSE IF ~r.obs.none /\ ~r.obs.is_root THEN "ReturnedRootIsARoot"
            ELSE IF ~r.obs.none /\ ~r.obs.in_bound THEN "ReturnedRootBelowBound"
            ELSE IF r.obs.none /\ RootMust(r) THEN "PlantedRootFound"
            ELSE "ok"
(* ---- lll.reduce on full-rank 2 x 2 and 3 x 3 integer matrices (rows = basis vectors) ---- *)
Det2(m) == m[1][1] * m[2][2] - m[1][2] * m[2][1]
Det3(m) == m[1][1] * (m[2][2] * m[3][3] - m[2][3] * m[3][2]) - m[1][2] * (m[2][1] * m[3][3] - m[2][3] * m[3][1])
           + m[1][3] * (m[2][1] * m[3][2] - m[2][2] * m[3][1])
DetN(m) == IF Len(m) = 2 THEN Det2(m) ELSE Det3(m)
\* m with row i replaced by v: by Cramer's rule v = x m has the integer solution x_i = det(m[i := v]) / det(m)
WithRow(m, i, v) == [j \in 1..Len(m) |-> IF j = i THEN v ELSE m[j]]
InLattice(m, v) == \A i \in 1..Len(m) : Abs(DetN(WithRow(m, i, v))) % Abs(DetN(m)) = 0
Norm2(v) == LET RECURSIVE S(_)
                S(j) == IF j = 0 THEN 0 ELSE v[j] * v[j] + S(j - 1)
            IN S(Len(v))
Comb(m, cs) == [j \in 1..Len(m[1]) |-> LET RECURSIVE S(_)
                                            S(i) == IF i = 0 THEN 0 ELSE cs[i] * m[i][j] + S(i - 1)
                                        IN S(Len(m))]
Box(d) == IF d = 2 THEN {<<a, b>> : a \in (0 - 4)..4, b \in (0 - 4)..4} ELSE {<<a, b, c>> : a \in (0 - 4)..4, b \in (0 - 4)..4, c \in (0 - 4)..4}
\* the shortest non-zero vector among the small combinations of the RETURNED basis (an upper bound of lambda_1 squared)
Lambda2(m) == LET S == {Norm2(Comb(m, cs)) : cs \in Box(Len(m))} \ {0} IN CHOOSE x \in S : \A y \in S : x <= y
Pow2N(d) == IF d = 2 THEN 2 ELSE 4
VLll(r) ==
  LET a == r.args.m
      b == r.obs.m
      d == Len(a)
  IN IF r.raised # "none" THEN "Total"
     ELSE IF Len(b) # d \/ \E i \in 1..d : Len(b[i]) # d THEN "LllShape"
     ELSE IF Abs(DetN(b)) # Abs(DetN(a)) THEN "LllSameLattice"
     ELSE IF \E i \in 1..d : ~InLattice(a, b[i]) THEN "LllSameLattice"
     \* |b_1|^2 <= 2^(d-1) lambda_1^2 (the LLL guarantee for any delta >= 3/4)
     ELSE IF Norm2(b[1]) > Pow2N(d) * Lambda2(b) THEN "LllFirstVectorShort"
     ELSE "ok"
VAux(r) == IF r.raised # "none" THEN "Total" ELSE IF ~r.obs.ok THEN "AuxFormula" ELSE "ok"
Verdict(r) ==
  CASE r.ev = "inv" -> VInv(r)
    [] r.ev = "invsqrt" -> VInvSqrt(r)
    [] r.ev = "sqrt" -> VSqrt(r)
    [] r.ev \in {"inv_big", "invsqrt_big", "sqrt_big"} -> VBig(r)
    [] r.ev = "cf" -> VCf(r)
    [] r.ev = "divmod" -> VDivmod(r)
    [] r.ev = "sieve" -> VSieve(r)
    [] r.ev = "pavg" -> VPavg(r)
    [] r.ev = "irwin" -> VIrwin(r)
    [] r.ev = "solve" -> VSolve(r)
    [] r.ev = "utsolve" -> VUt(r)
    [] r.ev = "solve_big" -> VSolveBig(r)
    [] r.ev = "aux" -> VAux(r)
    [] r.ev = "root" -> VRoot(r)
    [] r.ev = "lll" -> VLll(r)
    [] OTHER -> "UnknownEvent"
TInit == tid = 1 /\ RegInit /\ n = 0 /\ k = 1
TNext == /\ tid <= NRecs
         /\ LET v == Verdict(Recs[tid]) IN Check(tid, Recs[tid], v, v = "ok")
         /\ tid' = tid + 1 /\ UNCHANGED <<n, k>>
TSpec == TInit /\ [][TNext]_<<n, k, tid>>
=============================================================================
