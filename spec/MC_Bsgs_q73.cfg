SPECIFICATION Spec
CONSTANTS Q = 73
          MaxLen = 3
          MaxCalls = 2
          GiantExtra = 2
          StepAdjust = 0
INVARIANT Complete
PROPERTY CacheMonotone
CHECK_DEADLOCK FALSE
