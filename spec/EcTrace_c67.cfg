SPECIFICATION TSpec
CONSTANTS P = 67
          A = 0
          B = 2
          GX = 2
          GY = 12
          Q = 73
          H = 1
CHECK_DEADLOCK FALSE
POSTCONDITION Post
