-------------------------- MODULE MC_SigPipeline --------------------------
EXTENDS SigPipeline
\* X: weak issuer on secp256r1, Y: honest issuer on secp256r1, Z: honest issuer on secp256k1, V: weak issuer on secp256k1
I4 == {"X", "Y", "Z", "V"}
C4 == [i \in I4 |-> IF i \in {"X", "Y"} THEN "secp256r1" ELSE "secp256k1"]
W4 == {"X", "V"}
NQuick == [i \in I4 |-> CASE i = "X" -> 3 [] i = "Y" -> 2 [] i = "Z" -> 1 [] OTHER -> 0]
NFull == [i \in I4 |-> CASE i = "X" -> 3 [] i = "Y" -> 2 [] i = "Z" -> 1 [] OTHER -> 3]
=============================================================================
