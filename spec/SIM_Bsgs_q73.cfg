SPECIFICATION HSpec
CONSTANTS Q = 73
          MaxLen = 4
          MaxCalls = 4
          GiantExtra = 2
          StepAdjust = 0
CHECK_DEADLOCK FALSE
