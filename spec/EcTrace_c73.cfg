SPECIFICATION TSpec
CONSTANTS P = 73
          A = 0
          B = 13
          GX = 4
          GY = 2
          Q = 67
          H = 1
CHECK_DEADLOCK FALSE
POSTCONDITION Post
