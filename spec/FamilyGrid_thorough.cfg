SPECIFICATION Spec
CONSTANT Thorough = TRUE
CONSTRAINT Emit
CHECK_DEADLOCK FALSE
