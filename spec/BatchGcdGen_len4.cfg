SPECIFICATION Spec
CONSTANTS GPrimes = {"p1", "p2", "p3", "p4"}
          MaxMult = 1
          MaxLen = 4
          ExtraChoices = FALSE
CONSTRAINT Emit
CHECK_DEADLOCK FALSE
