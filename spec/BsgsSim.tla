------------------------------ MODULE BsgsSim ------------------------------
(* Call histories of the Bsgs specification for -simulate: the same state    *)
(* update (TAfterDL / TAfterDiff) without the per-call completeness          *)
(* evaluation, plus a history variable.                                      *)
EXTENDS Bsgs
VARIABLE hist
HInit == Init /\ hist = <<>>
HCallDL(len, n) == /\ Isqrt(n * len) >= 1 /\ T' = TAfterDL(T, len, n) /\ lastCall' = <<"dl", len, n>>
HCallDiff(md) == /\ T' = TAfterDiff(T, md) /\ lastCall' = <<"diff", md, 0>>
HNext == /\ calls < MaxCalls /\ calls' = calls + 1 /\ UNCHANGED lastOK
         /\ \/ \E len \in 1..MaxLen, n \in 1..Q : HCallDL(len, n)
            \/ \E md \in 1..(Q \div 2) : HCallDiff(md)
         /\ hist' = Append(hist, <<lastCall', T'>>)
HSpec == HInit /\ [][HNext]_<<vars, hist>>
=============================================================================
