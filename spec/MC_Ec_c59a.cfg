SPECIFICATION Spec
CONSTANTS P = 59
          A = 56
          B = 1
          GX = 0
          GY = 1
          Q = 71
          H = 1
INVARIANT Closed
INVARIANT Identity
INVARIANT Inverse
INVARIANT Commutative
INVARIANT Associative
INVARIANT Isomorphism
INVARIANT OrderQ
INVARIANT PrimeOrderWholeGroup
INVARIANT TimesAgrees
INVARIANT HnpRelation
CHECK_DEADLOCK FALSE
