SPECIFICATION TSpec
CONSTANTS P = 67
          A = 64
          B = 4
          GX = 2
          GY = 26
          Q = 41
          H = 2
CHECK_DEADLOCK FALSE
POSTCONDITION Post
