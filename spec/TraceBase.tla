----------------------------- MODULE TraceBase -----------------------------
(***************************************************************************)
(* Conventions shared by every trace specification (DESIGN.md 2.2):        *)
(* the recorded observations are read from the ndjson file named by the    *)
(* environment variable TRACE_FILE; the specification consumes every       *)
(* record (it never deadlocks on a bad one), evaluates the clauses of the  *)
(* main specification on it and appends the name of each failed clause to  *)
(* a register; the POSTCONDITION prints one CONSUMED line and one FAIL     *)
(* line per failure.  Run with -workers 1.                                 *)
(***************************************************************************)
EXTENDS Naturals, Sequences, TLC, Json, IOUtils

Recs == ndJsonDeserialize(IOEnv.TRACE_FILE)
NRecs == Len(Recs)
MaxFails == 200

RegInit == TLCSet(1, <<>>) /\ TLCSet(2, 0)
\* record the failure of `clause` on record r (position tid); always TRUE
Fail(tid, r, clause) ==
  /\ TLCSet(2, TLCGet(2) + 1)
  /\ IF Len(TLCGet(1)) < MaxFails
     THEN TLCSet(1, Append(TLCGet(1), [tid |-> tid, sid |-> r.sid, clause |-> clause]))
     ELSE TRUE
\* Check(tid, r, clause, ok): ok or recorded failure
Check(tid, r, clause, ok) == IF ok THEN TRUE ELSE Fail(tid, r, clause)

Post == /\ PrintT(<<"CONSUMED", TLCGet("stats").diameter - 1, "OF", NRecs>>)
        /\ PrintT(<<"NFAIL", TLCGet(2)>>)
        /\ \A i \in 1..Len(TLCGet(1)) : PrintT(<<"FAIL", ToJson(TLCGet(1)[i])>>)
=============================================================================
