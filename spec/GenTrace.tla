------------------------------ MODULE GenTrace ------------------------------
(***************************************************************************)
(* C13, generator clauses (T2).  One record = one TestBitString run of the *)
(* real suite on the output of a bundled generator.  Each Run() of each    *)
(* TestStructure is recorded with, per returned p-value, whether it is     *)
(* below the fail level (a float comparison done by the harness) and the   *)
(* state the real structure ended in.  TLC applies the single-run rule of  *)
(* TestStructure.tla (FAILED <=> p < p_fail), the return rule (True <=>    *)
(* some sub-test FAILED) and the labelled expectations:                    *)
(*   good         - no sub-test FAILED, entry point returns False          *)
(*   weak "lcg"   - some lattice bias search (FindBias 256/384/512/1024)   *)
(*                  FAILED                                                 *)
(*   weak "xor"   - some scattered linear complexity FAILED, and the large *)
(*                  matrix rank FAILED when the input reaches the          *)
(*                  documented matrix size                                 *)
(***************************************************************************)
EXTENDS Naturals, Sequences, FiniteSets, TraceBase
VARIABLE tid
Runs(r) == 1..Len(r.obs.runs)
Failed(run) == \E i \in 1..Len(run.states) : run.states[i] = "FAILED"
IsPrefix(p, str) == Len(str) >= Len(p) /\ SubSeq(str, 1, Len(p)) = p
\* population clause: c of K p-values are at or below alpha = 1/den.  "Not systematically small": c stays within five standard
\* deviations of the binomial mean, (den c - K)^2 <= 25 (den - 1) K, or within an absolute slack of 3 for small samples
Within(c, K, den) == \/ den * c <= K + 3 * den
                     \/ (c <= 400 /\ (den * c - K) * (den * c - K) <= 25 * (den - 1) * K)
VPop(r) == IF r.raised # "none" THEN "Total"
           ELSE IF r.obs.nan # 0 THEN "PValueIsANumber"
           ELSE IF ~Within(r.obs.le_1_20, r.args.K, 20) \/ ~Within(r.obs.le_1_100, r.args.K, 100) \/ ~Within(r.obs.le_1_1000, r.args.K, 1000)
                THEN "PValuesNotSystematicallySmall"
           ELSE "ok"
Verdict(r) ==
  IF r.ev = "pop" THEN VPop(r)
  ELSE IF r.raised # "none" THEN "Total"
  \* single-run rule of every structure
  ELSE IF \E k \in Runs(r) : \E i \in 1..Len(r.obs.runs[k].states) :
            (r.obs.runs[k].states[i] = "FAILED") # r.obs.runs[k].below[i] THEN "FailedIffBelowFailLevel"
  ELSE IF \E k \in Runs(r) : \E i \in 1..Len(r.obs.runs[k].states) :
            r.obs.runs[k].states[i] \notin {"PASSED", "FAILED", "UNDECIDED"} THEN "StateRule"
  ELSE IF r.obs.ret # (\E k \in Runs(r) : Failed(r.obs.runs[k])) THEN "ReturnsTrueIffSomeSubTestFailed"
  ELSE IF \E k \in Runs(r) : r.obs.runs[k].count # 1 THEN "TestBitStringRunsEachOnce"
  ELSE IF r.args.cls = "good" /\ r.obs.ret THEN "GoodGeneratorPasses"
  ELSE IF r.args.cls = "weak" /\ r.args.family = "lcg" /\
          ~(\E k \in Runs(r) : IsPrefix("FindBias", r.obs.runs[k].test) /\ Failed(r.obs.runs[k])) THEN "LatticeBiasSearchFailsLcg"
  ELSE IF r.args.cls = "weak" /\ r.args.family = "xor" /\
          ~(\E k \in Runs(r) : IsPrefix("LinearComplexityScatter", r.obs.runs[k].test) /\ Failed(r.obs.runs[k])) THEN "ScatteredLinearComplexityFailsXorshift"
  ELSE IF r.args.cls = "weak" /\ r.args.family = "xor" /\ r.args.n >= r.args.rank_bits /\
          ~(\E k \in Runs(r) : IsPrefix("LargeBinaryMatrixRank", r.obs.runs[k].test) /\ Failed(r.obs.runs[k])) THEN "LargeMatrixRankFailsXorshift"
  ELSE "ok"
TInit == tid = 1 /\ RegInit
TNext == /\ tid <= NRecs
         /\ LET v == Verdict(Recs[tid]) IN Check(tid, Recs[tid], v, v = "ok")
         /\ tid' = tid + 1
TSpec == TInit /\ [][TNext]_tid
=============================================================================
