SPECIFICATION TSpec
CONSTANT MaxN = 0
POSTCONDITION Post
CHECK_DEADLOCK FALSE
