SPECIFICATION Spec
CONSTANTS Tests <- TestsDef
          NamesOf <- NamesOfDef
          Exps <- ExpsCloseMC
          FailAt <- FailAtClose
          RepAt <- RepAtDef
          MinReps = 1
          MaxRuns = 3
          Mode = "source"
INVARIANT TypeOK
INVARIANT FailedIff
INVARIANT UndecidedIff
INVARIANT RetIffFailed
INVARIANT DoneMeansFinished
PROPERTY FinishedNeverRerun
PROPERTY ZeroIsFatal
PROPERTY AppendOnly
CHECK_DEADLOCK FALSE
