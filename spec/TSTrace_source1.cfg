SPECIFICATION TSpec
CONSTANTS Tests <- TestsDef
          NamesOf <- NamesOfDef
          Exps <- ExpsDef
          FailAt <- FailAtDef
          RepAt <- RepAtDef
          MinReps = 1
          MaxRuns = 8
          Mode = "source"
CHECK_DEADLOCK FALSE
POSTCONDITION Post
