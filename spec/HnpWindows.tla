----------------------------- MODULE HnpWindows -----------------------------
(***************************************************************************)
(* C08.  How the nonce checks turn a batch of signatures into lattice      *)
(* problems (BiasedBaseCheck.Check, CheckCr50U2f.Check,                    *)
(* _HiddenNumberProblemSubsets): signatures are grouped per curve and per  *)
(* issuer key, exact duplicates (r, s, z) are removed, and the n unique    *)
(* signatures of a group are cut into windows: for size in (24, 48, 120):  *)
(* consecutive chunks of `size`; stop after the first size >= n.           *)
(* With the assumption SolverFinds (the documented margin) this yields     *)
(* which signatures must be flagged.                                       *)
(***************************************************************************)
EXTENDS Naturals, Integers, Sequences, FiniteSets, TLC
CONSTANT MaxN
WindowSizes == <<24, 48, 120>>
Min2(a, b) == IF a < b THEN a ELSE b
\* chunks of one pass: start positions 0, size, 2 size, ... < n; each chunk i covers i..min(i+size, n)-1
ChunkStarts(n, size) == {i \in 0..(n - 1) : i % size = 0}
ChunkLen(n, size, i) == Min2(size, n - i)
\* the passes that are executed: sizes up to and including the first one that is >= n
Passes(n) == {j \in 1..Len(WindowSizes) : \A k \in 1..(j - 1) : WindowSizes[k] < n}
\* bag of solver-call sizes for a group of n unique signatures, as a function size -> number of calls
CallCount(n, len) == Cardinality({<<j, i>> \in Passes(n) \X (0..(n - 1)) :
                                    i \in ChunkStarts(n, WindowSizes[j]) /\ ChunkLen(n, WindowSizes[j], i) = len})
TotalCalls(n) == Cardinality({<<j, i>> \in Passes(n) \X (0..(n - 1)) : i \in ChunkStarts(n, WindowSizes[j])})
\* the documented margins
MarginOk(cls, uniq, bias, curvebits) ==
  CASE cls \in {"msb", "prefix", "postfix"} -> bias >= 16 /\ uniq * bias >= 2 * curvebits
    [] cls = "general" -> bias >= 16 /\ uniq >= 24 /\ uniq * bias >= 2 * curvebits
    [] cls = "u2f" -> uniq >= 2 /\ curvebits % 32 = 0
    [] OTHER -> FALSE
CheckFor(cls) == CASE cls = "msb" -> "CheckNonceMSB" [] cls = "prefix" -> "CheckNonceCommonPrefix"
                   [] cls = "postfix" -> "CheckNonceCommonPostfix" [] cls = "general" -> "CheckNonceGeneralized"
                   [] cls = "u2f" -> "CheckCr50U2f" [] cls = "lcg" -> "CheckLCGNonceGMP" [] OTHER -> "none"

(* ---------- model checking the window arithmetic for every n ---------------- *)
VARIABLE n
Init == n \in 0..MaxN
Next == UNCHANGED n
Spec == Init /\ [][Next]_n
\* every pass partitions the unique list into consecutive chunks
PassPartitions == \A j \in Passes(n) : LET sz == WindowSizes[j] IN
                    /\ \A p \in 0..(n - 1) : \E i \in ChunkStarts(n, sz) : i <= p /\ p < i + ChunkLen(n, sz, i)
                    /\ \A i \in ChunkStarts(n, sz) : ChunkLen(n, sz, i) >= 1 /\ ChunkLen(n, sz, i) <= sz
\* the last executed pass sees all signatures of the group in one call (up to 120)
WholeGroupSeen == (n >= 1 /\ n <= 120) => CallCount(n, n) >= 1
\* with at most 24 unique signatures there is exactly one solver call
SingleCallSmall == (n >= 1 /\ n <= 24) => TotalCalls(n) = 1
NoCallsWhenEmpty == n = 0 => TotalCalls(n) = 0
PassesPrefix == \A j \in Passes(n) : \A k \in 1..j : k \in Passes(n)
=============================================================================
