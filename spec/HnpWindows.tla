----------------------------- MODULE HnpWindows -----------------------------
(***************************************************************************)
(* C08.  How the nonce checks turn a batch of signatures into lattice      *)
(* problems (BiasedBaseCheck.Check, CheckCr50U2f.Check,                    *)
(* _HiddenNumberProblemSubsets): signatures are grouped per curve and per  *)
(* issuer key, exact duplicates (r, s, z) are removed, and the n unique    *)
(* signatures of a group are cut into windows: for size in (24, 48, 120):  *)
(* consecutive chunks of `size`; stop after the first size >= n.           *)
(* With the assumption SolverFinds (the documented margin) this yields     *)
(* which signatures must be flagged.                                       *)
(***************************************************************************)
EXTENDS Naturals, Integers, Sequences, FiniteSets, TLC
CONSTANT MaxN
WindowSizes == <<24, 48, 120>>
Min2(a, b) == IF a < b THEN a ELSE b
\* chunks of one pass: start positions 0, size, 2 size, ... < n; each chunk i covers i..min(i+size, n)-1
ChunkStarts(n, size) == {i \in 0..(n - 1) : i % size = 0}
ChunkLen(n, size, i) == Min2(size, n - i)
\* the passes that are executed: sizes up to and including the first one that is >= n
Passes(n) == {j \in 1..Len(WindowSizes) : \A k \in 1..(j - 1) : WindowSizes[k] < n}
\* bag of solver-call sizes for a group of n unique signatures, as a function size -> number of calls
CallCount(n, len) == Cardinality({<<j, i>> \in Passes(n) \X (0..(n - 1)) :
                                    i \in ChunkStarts(n, WindowSizes[j]) /\ ChunkLen(n, WindowSizes[j], i) = len})
TotalCalls(n) == Cardinality({<<j, i>> \in Passes(n) \X (0..(n - 1)) : i \in ChunkStarts(n, WindowSizes[j])})
(* ---------- the LCG path: _HiddenNumberProblemSubsets with the DEFAULT strategy (SINGLE | SLIDING | INCLUDE_KEY) -------- *)
\* For one shipped model (sample_size S, min_signatures m, sliding_window_size w) and a group of k unique signatures the solver
\* calls are pairs <<number of signatures handed over, number of constants used>>:
\*   k > w      : sliding windows k - w + 1 times <<w, (S-1) div w + 1>>, plus once <<min(k, 2S), (S-1) div min(k, 2S) + 1>>
\*   m <= k <= w: once <<k, (S-1) div k + 1>>
\*   k = m - 1  : once <<k + 1, (S-1) div (k + 1) + 1>>   (the key itself is included as an extra sample)
\*   k < m - 1  : nothing
NumConst(S, len) == ((S - 1) \div len) + 1
LcgCallCount(k, S, m, w, len, nc) ==
  IF k > w THEN (IF len = w /\ nc = NumConst(S, w) THEN k - w + 1 ELSE 0)
                + (IF len = Min2(k, 2 * S) /\ nc = NumConst(S, Min2(k, 2 * S)) THEN 1 ELSE 0)
  ELSE IF k >= m THEN (IF len = k /\ nc = NumConst(S, k) THEN 1 ELSE 0)
  ELSE IF k = m - 1 THEN (IF len = k + 1 /\ nc = NumConst(S, k + 1) THEN 1 ELSE 0)
  ELSE 0
\* every length is covered by exactly one branch; a group at least as large as the sliding window is always examined
LcgCaseSplit(k, S, m, w) == LET total == IF k > w THEN k - w + 2 ELSE IF k >= m - 1 THEN 1 ELSE 0 IN
                            (k >= m - 1 <=> total >= 1) /\ (k >= w /\ w >= m => total >= 1)
\* the documented margins
MarginOk(cls, uniq, bias, curvebits) ==
  CASE cls \in {"msb", "prefix", "postfix"} -> bias >= 16 /\ uniq * bias >= 2 * curvebits
    [] cls = "general" -> bias >= 16 /\ uniq >= 24 /\ uniq * bias >= 2 * curvebits
    [] cls = "u2f" -> uniq >= 2 /\ curvebits % 32 = 0
    [] OTHER -> FALSE
CheckFor(cls) == CASE cls = "msb" -> "CheckNonceMSB" [] cls = "prefix" -> "CheckNonceCommonPrefix"
                   [] cls = "postfix" -> "CheckNonceCommonPostfix" [] cls = "general" -> "CheckNonceGeneralized"
                   [] cls = "u2f" -> "CheckCr50U2f" [] cls = "lcg" -> "CheckLCGNonceGMP" [] OTHER -> "none"

(* ---------- model checking the window arithmetic for every n ---------------- *)
VARIABLE n
Init == n \in 0..MaxN
Next == UNCHANGED n
Spec == Init /\ [][Next]_n
\* every pass partitions the unique list into consecutive chunks
PassPartitions == \A j \in Passes(n) : LET sz == WindowSizes[j] IN
                    /\ \A p \in 0..(n - 1) : \E i \in ChunkStarts(n, sz) : i <= p /\ p < i + ChunkLen(n, sz, i)
                    /\ \A i \in ChunkStarts(n, sz) : ChunkLen(n, sz, i) >= 1 /\ ChunkLen(n, sz, i) <= sz
\* the last executed pass sees all signatures of the group in one call (up to 120)
WholeGroupSeen == (n >= 1 /\ n <= 120) => CallCount(n, n) >= 1
\* with at most 24 unique signatures there is exactly one solver call
SingleCallSmall == (n >= 1 /\ n <= 24) => TotalCalls(n) = 1
NoCallsWhenEmpty == n = 0 => TotalCalls(n) = 0
PassesPrefix == \A j \in Passes(n) : \A k \in 1..j : k \in Passes(n)
\* the LCG case split for the shipped shapes of (S, m, w): every k falls in exactly one branch and the call sizes add up
LcgSplitOk == \A mw \in {<<24, 2, 2>>, <<12, 3, 3>>, <<20, 5, 5>>, <<24, 5, 6>>, <<12, 2, 3>>, <<15, 4, 4>>, <<120, 2, 2>>} :
                 LET S == mw[1]
                     m == mw[2]
                     w == mw[3]
                     k == n % 40
                     calls == {<<len, nc>> \in (1..(2 * S + 1)) \X (1..S) : LcgCallCount(k, S, m, w, len, nc) > 0}
                 IN /\ LcgCaseSplit(k, S, m, w)
                    /\ (k < m - 1 => calls = {})
                    /\ (k >= m - 1 => calls # {})
                    /\ \A c \in calls : c[1] * c[2] >= Min2(S, c[1] * c[2])
=============================================================================
