------------------------------ MODULE Echelon ------------------------------
(***************************************************************************)
(* C19, linear-algebra part.  Functional transcription of                  *)
(* linalg_util.echelon_form / upper_triangular_solve / solve_right         *)
(* (fraction-free elimination with row moves) with rationals as normalised *)
(* <<num, den>>.  Indices in comments are Python's (0-based); sequences    *)
(* here are 1-based.  PivotFix = TRUE is the algorithm as repaired (a      *)
(* zero-pivot row is re-inserted at the end of the ACTIVE region, index    *)
(* nrows - 1 after the pop); PivotFix = FALSE is the pinned algorithm      *)
(* (index nrows, which lies behind rows already retired as dependent) and  *)
(* is refuted by TLC on 5x4 systems (defect D4).                           *)
(***************************************************************************)
EXTENDS Integers, Sequences, FiniteSets, TLC
CONSTANTS NR, NC, RowVoc, X, PivotFix     \* NR x NC systems, rows drawn from RowVoc, planted solution X
Pop(s, i) == [k \in 1..(Len(s) - 1) |-> IF k <= i THEN s[k] ELSE s[k + 1]]            \* s.pop(i) (remaining list)
Ins(s, idx, x) == IF idx >= Len(s) THEN Append(s, x)
                  ELSE [k \in 1..(Len(s) + 1) |-> IF k <= idx THEN s[k] ELSE IF k = idx + 1 THEN x ELSE s[k - 1]]
MoveToBottom(s, i, nrows) == Ins(Pop(s, i), nrows, s[i + 1])                          \* s.insert(nrows, s.pop(i))
FDiv(x, d) == IF d > 0 THEN x \div d ELSE (-x) \div (-d)   \* Python floor division
AllZero(r) == \A k \in 1..Len(r) : r[k] = 0
N == IF NR < NC THEN NR ELSE NC

RECURSIVE PivotLoop(_, _, _)
PivotLoop(st, i, pivots) ==
  IF pivots < N - 1 /\ st.a[i + 1][i + 1] = 0
  THEN LET at == IF PivotFix THEN st.nrows - 1 ELSE st.nrows IN
       PivotLoop([st EXCEPT !.a = MoveToBottom(st.a, i, at), !.b = MoveToBottom(st.b, i, at)], i, pivots + 1)
  ELSE st

RECURSIVE JLoop(_, _, _)
JLoop(st, i, j) ==
  IF j < st.nrows THEN
    LET piv == st.a[i + 1][i + 1]
        rj == st.a[j + 1]
        ri == st.a[i + 1]
        newb == piv * st.b[j + 1] - rj[i + 1] * st.b[i + 1]
        newr == [k \in 1..NC |-> IF k - 1 > i THEN piv * rj[k] - rj[i + 1] * ri[k]
                                 ELSE IF k - 1 = i THEN 0 ELSE rj[k]]
        allz == \A k \in 1..NC : (k - 1 > i) => newr[k] = 0
        a1 == [st.a EXCEPT ![j + 1] = newr]
        b1 == [st.b EXCEPT ![j + 1] = newb]
    IN IF allz
       THEN JLoop([st EXCEPT !.a = MoveToBottom(a1, j, st.nrows), !.b = MoveToBottom(b1, j, st.nrows),
                              !.nrows = st.nrows - 1], i, j)
       ELSE JLoop([st EXCEPT !.a = a1, !.b = b1, !.rank = IF st.rank < N THEN st.rank + 1 ELSE st.rank], i, j + 1)
  ELSE st

DivStep(st, i) ==
  IF i >= 1 THEN
    LET d == st.a[i][i]   \* a[i-1][i-1]
    IN [st EXCEPT !.a = [r \in 1..NR |-> IF r - 1 >= i + 1 /\ r - 1 < st.nrows
                                         THEN [k \in 1..NC |-> IF k - 1 >= i + 1 THEN FDiv(st.a[r][k], d) ELSE st.a[r][k]]
                                         ELSE st.a[r]],
                  !.b = [r \in 1..NR |-> IF r - 1 >= i + 1 /\ r - 1 < st.nrows THEN FDiv(st.b[r], d) ELSE st.b[r]]]
  ELSE st

RECURSIVE ILoop(_, _)
ILoop(st, i) == IF i < N - 1 THEN ILoop(DivStep(JLoop(PivotLoop(st, i, i), i, i + 1), i), i + 1) ELSE st

EchelonForm(a, b) ==
  LET st == ILoop([a |-> a, b |-> b, nrows |-> NR, rank |-> 1], 0)
  IN [st EXCEPT !.rank = IF AllZero(st.a[st.nrows]) THEN st.rank - 1 ELSE st.rank]

\* rationals as <<num, den>>, den > 0, normalised
RECURSIVE Gcd(_, _)
Abs(x) == IF x < 0 THEN -x ELSE x
Gcd(x, y) == IF Abs(y) = 0 THEN Abs(x) ELSE Gcd(Abs(y), Abs(x) % Abs(y))
Norm(q) == LET g == Gcd(q[1], q[2]) s == IF q[2] < 0 THEN -1 ELSE 1
           IN IF g = 0 THEN <<0, 1>> ELSE <<s * (q[1] \div g), s * (q[2] \div g)>>
QAdd(p, q) == Norm(<<p[1] * q[2] + q[1] * p[2], p[2] * q[2]>>)
QMulI(q, k) == Norm(<<q[1] * k, q[2]>>)
QDivI(q, k) == Norm(<<q[1], q[2] * k>>)

RECURSIVE Back(_, _, _, _)
Back(a, b, i, xs) ==   \* i counts down from rank to 1 (1-based row)
  IF i = 0 THEN xs
  ELSE IF a[i][i] = 0 THEN <<>>          \* None
  ELSE LET RECURSIVE Acc(_, _)
           Acc(j, s) == IF j > NC THEN s ELSE Acc(j + 1, QAdd(s, QMulI(xs[j], -a[i][j])))
           num == Acc(i + 1, <<b[i], 1>>)
       IN Back(a, b, i - 1, [xs EXCEPT ![i] = QDivI(num, a[i][i])])

SolveRight(a, b) ==
  LET e == EchelonForm(a, b)
  IN IF e.rank # NC THEN <<>> ELSE Back(e.a, e.b, NC, [k \in 1..NC |-> <<0, 1>>])

Dot(r, x) == LET RECURSIVE S(_) S(k) == IF k = 0 THEN 0 ELSE r[k] * x[k] + S(k - 1) IN S(NC)
Satisfies(a, b, xs) == \A r \in 1..NR :
   LET RECURSIVE S(_, _) S(k, acc) == IF k > NC THEN acc ELSE S(k + 1, QAdd(acc, QMulI(xs[k], a[r][k])))
   IN S(1, <<0, 1>>) = <<b[r], 1>>

VARIABLES A, res
Init == /\ A \in [1..NR -> RowVoc]
        /\ res = SolveRight(A, [r \in 1..NR |-> Dot(A[r], X)])
Next == UNCHANGED <<A, res>>
Spec == Init /\ [][Next]_<<A, res>>
Sound == res # <<>> => Satisfies(A, [r \in 1..NR |-> Dot(A[r], X)], res)
=============================================================================
