SPECIFICATION Spec
CONSTANTS Kind = "rsa"
          Slots <- Slots3
          Classes <- RsaDegClasses
          MaxCalls = 2
          AllowSingle = TRUE
CHECK_DEADLOCK FALSE
