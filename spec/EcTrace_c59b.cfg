SPECIFICATION TSpec
CONSTANTS P = 59
          A = 1
          B = 13
          GX = 1
          GY = 29
          Q = 67
          H = 1
CHECK_DEADLOCK FALSE
POSTCONDITION Post
