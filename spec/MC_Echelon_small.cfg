SPECIFICATION Spec
CONSTANTS NR = 3
          NC = 3
          RowVoc <- Small3
          X <- X3
          PivotFix = TRUE
INVARIANT Sound
CHECK_DEADLOCK FALSE
