SPECIFICATION HSpec
CONSTANTS OpNames <- OpNamesDef
          InfoNames <- InfoNamesDef
          FactorIds <- FactorIdsDef
          MaxOps = 10
CHECK_DEADLOCK FALSE
