---------------------------- MODULE MC_ChecksGen ----------------------------
EXTENDS ChecksGen
Slots4 == {"s1", "s2", "s3", "s4"}
Slots3 == {"s1", "s2", "s3"}
RsaClasses == {"healthy", "healthy3072", "small", "exponent", "fermat", "sharedA", "sharedB", "copy1", "prime", "even", "square", "three"}
RsaDegClasses == {"healthy", "prime", "even", "square", "pow2", "oddlen", "bits64", "bits65", "three", "huge_e", "empty_e", "copy1", "small"}
EcClasses == {"healthy", "healthy384", "weakcurve", "weakprivate", "closeA", "closeB", "offcurve", "unknowncurve", "binarycurve", "copy1"}
EcDegClasses == {"healthy", "offcurve", "zero", "coordp", "xplusp", "huge", "y0", "unknowncurve", "binarycurve", "copy1", "weakcurve", "curve25"}
EcdsaDegClasses == {"healthyA", "invalidissuer", "unknowncurve", "copy1", "emptyhash", "hash64", "rs_edge", "healthy521", "brainpool", "samexy"}
EcdsaClasses == {"healthyA", "healthyB", "msbA", "invalidissuer", "unknowncurve", "copy1", "healthy384", "samexy"}
=============================================================================
