---------------------------- MODULE MC_ChecksGen ----------------------------
EXTENDS ChecksGen
Slots4 == {"s1", "s2", "s3", "s4"}
Slots6 == {"s1", "s2", "s3", "s4", "s5", "s6"}
Slots3 == {"s1", "s2", "s3"}
RsaClasses == {"healthy", "healthy3072", "small", "exponent", "fermat", "sharedA", "sharedB", "copy1", "prime", "even", "square", "three"}
RsaDegClasses == {"healthy", "prime", "even", "square", "pow2", "oddlen", "bits64", "bits65", "three", "huge_e", "empty_e", "copy1", "small"}
EcClasses == {"healthy", "healthy384", "weakcurve", "weakprivate", "closeA", "closeB", "offcurve", "unknowncurve", "binarycurve", "copy1"}
EcDegClasses == {"healthy", "offcurve", "zero", "coordp", "xplusp", "huge", "y0", "unknowncurve", "binarycurve", "copy1", "weakcurve", "curve25"}
EcdsaDegClasses == {"healthyA", "invalidissuer", "unknowncurve", "copy1", "emptyhash", "hash64", "rs_edge", "healthy521", "brainpool", "samexy"}
EcdsaSoundClasses == {"healthyA", "healthyB", "msbA", "msb384", "msbweak", "msbneg", "healthy384", "copy1"}
EcSoundClasses == {"healthy", "healthy384", "weakprivate", "closeA", "closeB", "copy1", "weakcurve"}
RsaHealthyClasses == {"healthy", "healthy3072", "healthy4096", "fermat", "sharedA", "sharedB", "small"}
EcHealthyClasses == {"healthy", "healthy384", "healthy224", "healthy521", "healthyk1", "healthybp256", "healthybp384", "healthybp512", "weakprivate", "offcurve"}
EcdsaHealthyClasses == {"healthyA", "healthyB", "healthy384", "healthy521", "msbA", "invalidissuer"}
EcdsaClasses == {"healthyA", "healthyB", "msbA", "invalidissuer", "unknowncurve", "copy1", "healthy384", "samexy"}
=============================================================================
