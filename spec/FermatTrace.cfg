SPECIFICATION TSpec
CONSTANTS N = 3
          MaxSteps = 1
CHECK_DEADLOCK FALSE
POSTCONDITION Post
