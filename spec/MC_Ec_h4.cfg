SPECIFICATION Spec
CONSTANTS P = 103
          A = 0
          B = 3
          GX = 5
          GY = 5
          Q = 31
          H = 4
INVARIANT Closed
INVARIANT Identity
INVARIANT Inverse
INVARIANT Commutative
INVARIANT Associative
INVARIANT Isomorphism
INVARIANT OrderQ
INVARIANT PrimeOrderWholeGroup
INVARIANT TimesAgrees
INVARIANT HnpRelation
CHECK_DEADLOCK FALSE
