SPECIFICATION TSpec
CONSTANTS P = 103
          A = 0
          B = 3
          GX = 5
          GY = 5
          Q = 31
          H = 4
CHECK_DEADLOCK FALSE
POSTCONDITION Post
