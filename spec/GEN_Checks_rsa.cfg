SPECIFICATION Spec
CONSTANTS Kind = "rsa"
          Slots <- Slots4
          Classes <- RsaClasses
          MaxCalls = 4
          AllowSingle = TRUE
CHECK_DEADLOCK FALSE
