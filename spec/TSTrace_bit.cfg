SPECIFICATION TSpec
CONSTANTS Tests <- TestsDef
          NamesOf <- NamesOfDef
          Exps <- ExpsBit
          FailAt <- FailAtBit
          RepAt <- RepAtBit
          MinReps = 1
          MaxRuns = 8
          Mode = "bitstring"
CHECK_DEADLOCK FALSE
POSTCONDITION Post
