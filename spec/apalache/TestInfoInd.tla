---------------------------- MODULE TestInfoInd ----------------------------
(***************************************************************************)
(* Inductive-invariant check (Apalache) of the TestInfo bookkeeping for    *)
(* ONE artifact under histories of ANY length: every SetTestResult /       *)
(* AttachFactors step from any state satisfying IndInv leads to a state    *)
(* satisfying IndInv, and the step is monotone (Mono is checked as a       *)
(* two-state invariant through the prev* history variables).  This lifts   *)
(* the history bound of MC_Checks.cfg for the bookkeeping core (C16).      *)
(* Same semantics as spec/TestInfo.tla (SetTestResult: stamp version if    *)
(* empty, weak |= result, update-or-append with result |= and max          *)
(* severity; AttachFactors: union).                                        *)
(***************************************************************************)
EXTENDS Integers, Sequences, FiniteSets, Apalache
Names == {"S1", "S2", "J1"}
VARIABLES
  \* @type: Bool;
  weak,
  \* @type: Seq({name: Str, result: Bool, sev: Int});
  results,
  \* @type: Str;
  version,
  \* @type: Set(Int);
  factors,
  \* @type: Bool;
  prevWeak,
  \* @type: Seq({name: Str, result: Bool, sev: Int});
  prevResults,
  \* @type: Set(Int);
  prevFactors
\* @type: (Seq({name: Str, result: Bool, sev: Int}), Str) => Int;
Find(rs, nm) == IF \E i \in DOMAIN rs : rs[i].name = nm
                THEN CHOOSE i \in DOMAIN rs : rs[i].name = nm
                ELSE 0
\* @type: (Int, Int) => Int;
Max2(a, b) == IF a > b THEN a ELSE b
Remember == prevWeak' = weak /\ prevResults' = results /\ prevFactors' = factors
\* @type: ({name: Str, result: Bool, sev: Int}, Set(Int)) => Bool;
Step(e, fs) ==
  /\ version' = IF version = "" THEN "v" ELSE version
  /\ weak' = (weak \/ e.result)
  /\ factors' = IF e.result THEN factors \union fs ELSE factors
  /\ LET i == Find(results, e.name) IN
     IF i # 0
     THEN results' = [results EXCEPT ![i] = [name |-> results[i].name, result |-> (results[i].result \/ e.result), sev |-> Max2(results[i].sev, e.sev)]]
     ELSE results' = Append(results, e)
  /\ Remember
TypeOK == /\ weak \in BOOLEAN /\ version \in {"", "v"} /\ prevWeak \in BOOLEAN
          /\ Len(results) <= 3 /\ Len(prevResults) <= 3
          /\ factors \subseteq 1..4 /\ prevFactors \subseteq 1..4
          /\ \A i \in DOMAIN results : results[i].name \in Names /\ results[i].result \in BOOLEAN /\ results[i].sev \in 0..4
          /\ \A i \in DOMAIN prevResults : prevResults[i].name \in Names /\ prevResults[i].result \in BOOLEAN /\ prevResults[i].sev \in 0..4
NoDup == \A i, j \in DOMAIN results : results[i].name = results[j].name => i = j
WeakIff == weak <=> \E i \in DOMAIN results : results[i].result
Stamped == results # <<>> => version = "v"
EvidenceWeak == factors # {} => weak
IndInv == TypeOK /\ NoDup /\ WeakIff /\ Stamped /\ EvidenceWeak
\* monotonicity of one step, as a state predicate over (prev, current)
Mono == /\ prevWeak => weak
        /\ prevFactors \subseteq factors
        /\ Len(prevResults) <= Len(results)
        /\ \A i \in DOMAIN prevResults : i \in DOMAIN results =>
              /\ results[i].name = prevResults[i].name
              /\ (prevResults[i].result => results[i].result)
              /\ results[i].sev >= prevResults[i].sev
IndInit == /\ weak = Gen(1) /\ results = Gen(3) /\ version = Gen(1) /\ factors = Gen(4)
           /\ prevWeak = weak /\ prevResults = results /\ prevFactors = factors
           /\ IndInv
Init == weak = FALSE /\ results = <<>> /\ version = "" /\ factors = {} /\ prevWeak = FALSE /\ prevResults = <<>> /\ prevFactors = {}
Next == \E nm \in Names, r \in BOOLEAN, sv \in 0..4, fs \in SUBSET (1..2) : Step([name |-> nm, result |-> r, sev |-> sv], fs)
\* after ONE step from an arbitrary IndInv state: the invariant again, and the step was monotone
IndInvAndMono == IndInv /\ Mono
=============================================================================
