SPECIFICATION Spec
CONSTANTS Arts <- ArtsDef
          MChecks <- ChecksDef3
          LibVersion = "1.0.0"
          MaxCalls = 2
INVARIANT TypeOK
INVARIANT NoDuplicates
INVARIANT WeakIff
INVARIANT VersionStamped
INVARIANT EntryNamedAndSevere
INVARIANT Total
INVARIANT RetIffSomeWeak
INVARIANT OneEntryPerCheck
INVARIANT HealthyNeverAccused
INVARIANT EvidenceOnlyWhenWeak
PROPERTY Monotone
PROPERTY UntouchedOutsideBatch
CHECK_DEADLOCK FALSE
