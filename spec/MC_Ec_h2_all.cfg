SPECIFICATION SpecAll
CONSTANTS P = 67
          A = 64
          B = 4
          GX = 2
          GY = 26
          Q = 41
          H = 2
INVARIANT ClosedAll
INVARIANT Identity
INVARIANT Inverse
INVARIANT CommutativeAll
INVARIANT AssociativeAll
INVARIANT GroupOrderAll
INVARIANT SubgroupTest
INVARIANT TimesIsHom
CHECK_DEADLOCK FALSE
