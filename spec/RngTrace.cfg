SPECIFICATION TSpec
CONSTANTS MaxBytes = 1
          ByteVoc <- Voc
POSTCONDITION Post
CHECK_DEADLOCK FALSE
