--------------------------- MODULE TestStructure ---------------------------
(***************************************************************************)
(* Model of random_test_suite.TestStructure.Run and of the two entry       *)
(* points TestSource / TestBitString (C13, decision-rule clause).          *)
(*                                                                         *)
(* A p-value is represented by its exponent e (p = 2^-e); Inf stands for   *)
(* p = 0.  For p-values of that form Fisher's combination is monotone in   *)
(* the sum of exponents, so the rule of Run() is exact integer arithmetic: *)
(*   FAILED    <=>  some p = 0  or  Sum(e) >= FailAt[k]                    *)
(*   PASSED    <=>  not FAILED and Sum(e) <  RepAt[k]                      *)
(*   UNDECIDED <=>  otherwise                                              *)
(* where k is the number of runs that returned this name, FailAt[k] is the *)
(* least integer S with Q(k, S ln 2) < p_fail and RepAt[k] = k*R for       *)
(* p_repeat = 2^-R.  (For k = 1 the combination is the p-value itself.)    *)
(***************************************************************************)
EXTENDS Naturals, Sequences, FiniteSets, TLC
CONSTANTS Tests,      \* sequence of test ids, in the order of random_test_suite.TESTS
          NamesOf,    \* NamesOf[t]: names test t may return
          Exps,       \* exponents a run may produce
          FailAt,     \* sequence, FailAt[k]
          RepAt,      \* sequence, RepAt[k]
          MinReps,    \* min_repetitions
          MaxRuns,    \* bound on runs per structure (model checking only)
          Mode        \* "source" (TestSource) or "bitstring" (TestBitString)
Inf == 9999
AllNames == UNION {NamesOf[t] : t \in DOMAIN NamesOf}
TestIds == {Tests[i] : i \in 1..Len(Tests)}

VARIABLES pe,        \* pe[t][n]: exponents recorded so far
          st,        \* st[t][n] \in {"none","PASSED","UNDECIDED","FAILED"}
          runs,      \* runs[t]
          fin,       \* fin[t]  (TestStructure.finished)
          cursor,    \* position in Tests within the current round
          undecided, \* counter of the current round of TestSource
          phase,     \* "round" | "done"
          ret        \* value returned by the entry point
vars == <<pe, st, runs, fin, cursor, undecided, phase, ret>>

RECURSIVE Sum(_)
Sum(s) == IF s = <<>> THEN 0 ELSE Head(s) + Sum(Tail(s))
HasInf(s) == \E i \in 1..Len(s) : s[i] = Inf
Decide(s) == LET k == Len(s) IN
             IF HasInf(s) \/ Sum(s) >= FailAt[k] THEN "FAILED"
             ELSE IF Sum(s) < RepAt[k] THEN "PASSED" ELSE "UNDECIDED"

\* effect of one Run() of structure t whose test returned res (a function from a
\* subset of NamesOf[t] to exponents; the empty function = empty result list)
AfterRun(t, res) ==
  LET D == DOMAIN res
      pe2 == [n \in NamesOf[t] |-> IF n \in D THEN Append(pe[t][n], res[n]) ELSE pe[t][n]]
      st2 == [n \in NamesOf[t] |-> IF n \in D THEN Decide(pe2[n]) ELSE st[t][n]]
      und == Cardinality({n \in D : st2[n] = "UNDECIDED"})
  IN [pe |-> pe2, st |-> st2, fin |-> (und = 0 /\ runs[t] + 1 >= MinReps)]

Results(t) == UNION {[D -> Exps] : D \in SUBSET NamesOf[t]}
Failed(t) == \E n \in NamesOf[t] : st[t][n] = "FAILED"

Init == /\ pe = [t \in TestIds |-> [n \in NamesOf[t] |-> <<>>]]
        /\ st = [t \in TestIds |-> [n \in NamesOf[t] |-> "none"]]
        /\ runs = [t \in TestIds |-> 0]
        /\ fin = [t \in TestIds |-> FALSE]
        /\ cursor = 1 /\ undecided = 0 /\ phase = "round" /\ ret = "none"

\* TestStructure.Run with a result
RunResult(t, res) ==
  LET a == AfterRun(t, res) IN
  /\ pe' = [pe EXCEPT ![t] = a.pe]
  /\ st' = [st EXCEPT ![t] = a.st]
  /\ runs' = [runs EXCEPT ![t] = @ + 1]
  /\ fin' = [fin EXCEPT ![t] = a.fin]
\* TestStructure.Run when the test raises InsufficientDataError
RunInsufficient(t) ==
  /\ runs' = [runs EXCEPT ![t] = @ + 1]
  /\ fin' = [fin EXCEPT ![t] = TRUE]
  /\ UNCHANGED <<pe, st>>

\* one iteration of the for-loop inside the while-loop of TestSource
StepSkip == /\ phase = "round" /\ cursor <= Len(Tests) /\ Mode = "source"
            /\ fin[Tests[cursor]]
            /\ cursor' = cursor + 1
            /\ UNCHANGED <<pe, st, runs, fin, undecided, phase, ret>>
StepRun == /\ phase = "round" /\ cursor <= Len(Tests)
           /\ LET t == Tests[cursor] IN
              /\ (Mode = "source" => ~fin[t])
              /\ runs[t] < MaxRuns
              /\ \/ \E res \in Results(t) : RunResult(t, res)
                 \/ RunInsufficient(t)
              /\ undecided' = IF fin'[t] THEN undecided ELSE undecided + 1
           /\ cursor' = cursor + 1
           /\ UNCHANGED <<phase, ret>>
\* end of the for-loop
EndRound == /\ phase = "round" /\ cursor > Len(Tests)
            /\ IF Mode = "source" /\ undecided > 0
               THEN /\ cursor' = 1 /\ undecided' = 0 /\ UNCHANGED <<phase, ret>>
               ELSE /\ phase' = "done"
                    /\ ret' = IF \E t \in TestIds : Failed(t) THEN "true" ELSE "false"
                    /\ UNCHANGED <<cursor, undecided>>
            /\ UNCHANGED <<pe, st, runs, fin>>
Next == StepSkip \/ StepRun \/ EndRound
Spec == Init /\ [][Next]_vars

(* ---------- properties --------------------------------------------------- *)
TypeOK == /\ \A t \in TestIds : \A n \in NamesOf[t] : st[t][n] \in {"none", "PASSED", "UNDECIDED", "FAILED"}
          /\ ret \in {"none", "true", "false"}
\* a sub-test is failed exactly when its Fisher combination is below the fail level
FailedIff == \A t \in TestIds : \A n \in NamesOf[t] : pe[t][n] # <<>> =>
               (st[t][n] = "FAILED" <=> (HasInf(pe[t][n]) \/ Sum(pe[t][n]) >= FailAt[Len(pe[t][n])]))
\* ... and is to be repeated exactly while the combination does not exceed that of the repeat level
UndecidedIff == \A t \in TestIds : \A n \in NamesOf[t] : pe[t][n] # <<>> =>
               (st[t][n] = "UNDECIDED" <=> (~HasInf(pe[t][n]) /\ Sum(pe[t][n]) < FailAt[Len(pe[t][n])]
                                             /\ Sum(pe[t][n]) >= RepAt[Len(pe[t][n])]))
ThresholdsOrdered == \A k \in 1..MaxRuns : RepAt[k] <= FailAt[k]
\* the entry points return True exactly when some sub-test failed
RetIffFailed == phase = "done" => (ret = "true" <=> (\E t \in TestIds : Failed(t)))
\* TestSource only stops when nothing is left undecided and every structure ran at least MinReps times
\* (or had insufficient data); TestBitString runs every structure exactly once
DoneMeansFinished == phase = "done" /\ Mode = "source" => \A t \in TestIds : fin[t]
BitStringOnce == phase = "done" /\ Mode = "bitstring" => \A t \in TestIds : runs[t] = 1
\* a finished structure is never run again by TestSource (action property)
FinishedNeverRerun == [][Mode = "source" => \A t \in TestIds : fin[t] => runs'[t] = runs[t]]_vars
\* verdicts that are final stay final: FAILED by p = 0 can never be undone
ZeroIsFatal == [][\A t \in TestIds : \A n \in NamesOf[t] : HasInf(pe[t][n]) => st'[t][n] = "FAILED"]_vars
\* names never disappear, recorded exponents only grow
AppendOnly == [][\A t \in TestIds : \A n \in NamesOf[t] :
                   Len(pe'[t][n]) >= Len(pe[t][n]) /\ SubSeq(pe'[t][n], 1, Len(pe[t][n])) = pe[t][n]]_vars
=============================================================================
