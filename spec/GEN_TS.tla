------------------------------ MODULE GEN_TS ------------------------------
(* Scenario generation for C13: the TestStructure machine with a history variable. *)
EXTENDS MC_TS
\* ---- history variable for scenario generation (kept out of the exhaustive property configs) ----
VARIABLE hist
Ran == {t \in TestIds : runs'[t] # runs[t]}
Delta(t) == [n \in {m \in NamesOf[t] : Len(pe'[t][m]) > Len(pe[t][m])} |-> pe'[t][n][Len(pe'[t][n])]]
HInit == Init /\ hist = <<>>
HNext == /\ Next
         /\ hist' = IF Ran = {} THEN hist
                    ELSE LET t == CHOOSE x \in Ran : TRUE IN
                         Append(hist, [t |-> t, res |-> Delta(t), fin |-> fin'[t],
                                       \* distinguishable from an empty result only when the rule would not finish
                                       ins |-> (Delta(t) = <<>> /\ fin'[t] /\ ~(runs'[t] >= MinReps))])
HSpec == HInit /\ [][HNext]_<<vars, hist>>
Terminal == phase = "done" \/ (cursor <= Len(Tests) /\ runs[Tests[cursor]] = MaxRuns /\ ~fin[Tests[cursor]])
Emit == IF Terminal THEN PrintT(<<"HIST", ToJson([hist |-> hist, done |-> (phase = "done")])>>) ELSE TRUE
=============================================================================
