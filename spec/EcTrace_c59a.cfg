SPECIFICATION TSpec
CONSTANTS P = 59
          A = 56
          B = 1
          GX = 0
          GY = 1
          Q = 71
          H = 1
CHECK_DEADLOCK FALSE
POSTCONDITION Post
