SPECIFICATION HSpec
CONSTANTS Tests <- TestsScalar
          NamesOf <- NamesOfDef
          Exps <- ExpsClose
          FailAt <- FailAtClose
          RepAt <- RepAtDef
          MinReps = 1
          MaxRuns = 4
          Mode = "source"
CONSTRAINT Emit
CHECK_DEADLOCK FALSE
