-------------------------------- MODULE Bsgs --------------------------------
(***************************************************************************)
(* C10 (and the cache clause of C17).  Z_Q model of EcCurve.PointTable,    *)
(* BatchDL and BatchDLOfDifferences with the per-curve cached table that   *)
(* the three searches share.  A point is its discrete logarithm k (the     *)
(* point k*G); its x-coordinate class is X(k) = min(k, Q - k), and None    *)
(* for the point at infinity (coded -1).                                   *)
(*                                                                         *)
(* State: T = size of the cached table (EcCurve._table_size).  Actions:    *)
(* BatchDL(len, n) with table_size = isqrt(n * len) (rebuilt iff larger    *)
(* than T; the step t = 2 * table_size - 1 comes from the REQUESTED size   *)
(* while lookups go to the CACHED table), and DiffDL(maxdiff) (rebuilt iff *)
(* maxdiff > T).  After every call, and in every reachable cache state,    *)
(* the search must be complete: every x below the bound is found.          *)
(***************************************************************************)
EXTENDS Integers, Sequences, FiniteSets, TLC
CONSTANTS Q, MaxLen, MaxCalls, GiantExtra, StepAdjust
\* GiantExtra = 2 and StepAdjust = 0 is the algorithm; other values are named deviations
\* used to show that the constants are tight (the model is not vacuous).

Isqrt(n) == CHOOSE r \in 0..n : r * r <= n /\ (r + 1) * (r + 1) > n
X(k) == LET r == k % Q IN IF r = 0 THEN -1 ELSE IF r <= Q - r THEN r ELSE Q - r
\* PointTable(base = G, n): m = isqrt(n), r = ceil(n / m); entries i*m + j for i < r, j < m; later index wins
TableSpan(n) == LET m == Isqrt(n) IN ((n + m - 1) \div m) * m
TableLookup(n, x) ==   \* largest idx < TableSpan(n) with X(idx) = x, or -1
   LET S == {idx \in 0..(TableSpan(n) - 1) : X(idx) = x} IN
   IF S = {} THEN -1 ELSE CHOOSE i \in S : \A j \in S : j <= i

VARIABLES T, calls, lastOK, lastCall
vars == <<T, calls, lastOK, lastCall>>

\* result of BatchDL for the point k: requested table size ts, cached size Tc >= ts, bound n
\* the whole table as a function of the x-coordinate class (computed once per call)
TableOf(n) == [x \in (0 - 1)..(Q \div 2) |-> TableLookup(n, x)]
DL(k, ts, tab, n) ==
   IF k % Q = 0 THEN 0 ELSE
   LET t == 2 * ts - 1 + StepAdjust
       gs == GiantExtra + n \div t
       Cands == {c \in {<<j, s, tab[X(k - j * t)]>> : j \in 0..(gs - 1), s \in {1, -1}} : c[3] >= 0}
       Hits == {c \in Cands : (c[1] * t + c[2] * c[3]) % Q = k % Q \/ (0 - (c[1] * t + c[2] * c[3])) % Q = k % Q}
   IN IF Hits = {} THEN -999 ELSE
      LET c == CHOOSE h \in Hits : TRUE
          dl == c[1] * t + c[2] * c[3]
      IN IF dl % Q = k % Q THEN dl ELSE 0 - dl

\* the only state the searches share: the cached table size
TAfterDL(Tc, len, n) == IF Isqrt(n * len) > Tc THEN Isqrt(n * len) ELSE Tc
TAfterDiff(Tc, maxdiff) == IF maxdiff > Tc THEN maxdiff ELSE Tc

Init == T = 0 /\ calls = 0 /\ lastOK = TRUE /\ lastCall = <<"none", 0, 0>>

BatchDL(len, n) ==
   LET ts == Isqrt(n * len)
       Tc == TAfterDL(T, len, n)
   IN /\ ts >= 1
      /\ T' = Tc
      /\ lastCall' = <<"dl", len, n>>
      /\ lastOK' = LET tab == TableOf(Tc) IN
                   \A x \in 0..(n - 1) : LET r == DL(x, ts, tab, n) IN r # -999 /\ r % Q = x % Q

\* BatchDLOfDifferences: difference d = DLog(p) - DLog(q) is found iff X(d) is in the cached table
DiffFound(d, tab) == d % Q # 0 /\ tab[X(d)] >= 0
DiffDL(maxdiff) ==
   LET Tc == TAfterDiff(T, maxdiff)
   IN /\ T' = Tc
      /\ lastCall' = <<"diff", maxdiff, 0>>
      /\ lastOK' = LET tab == TableOf(Tc) IN
                   /\ \A d \in 1..(maxdiff - 1) : DiffFound(d, tab) /\ DiffFound(0 - d, tab)
                   /\ ~DiffFound(0, tab)                     \* identical keys never accuse each other

Next == /\ calls < MaxCalls /\ calls' = calls + 1
        /\ \/ \E len \in 1..MaxLen, n \in 1..Q : BatchDL(len, n)
           \/ \E md \in 1..(Q \div 2) : DiffDL(md)
Spec == Init /\ [][Next]_vars

Complete == lastOK
CacheMonotone == [][T' >= T]_vars
=============================================================================
