--------------------------- MODULE FactorCriteria ---------------------------
(***************************************************************************)
(* C04 / C05 / C06(RSA): the documented detection regions as closed forms  *)
(* over the small integers that describe how a modulus was constructed     *)
(* (attrs, computed by the harness from p and q by first principles).      *)
(* Criterion(c, at, par) \in {"must", "mustnot", "none"}; "none" = this    *)
(* family says nothing about check c (the caller's class criterion         *)
(* applies).  MustFactor(c, at): a positive verdict has to come with both  *)
(* primes recorded.                                                        *)
(***************************************************************************)
EXTENDS Naturals, Integers, Sequences, FiniteSets, TLC, Roca
DefaultPatternSizes == {1, 3, 5, 7, 9, 11, 13, 15, 31, 63, 127, 255, 511, 8, 16, 32, 64, 128, 256}
Fam(at) == IF "family" \in DOMAIN at THEN at.family ELSE "none"

\* Fermat: factored exactly when (p+q)/2 - ceil(sqrt n) is below the step bound (odd, non-square n)
CritFermat(at, par) == IF at.steps >= 0 /\ at.steps < par.max_steps THEN "must" ELSE "mustnot"
\* primes agreeing on r low and s high bits: r >= 3 and r + s >= bits/4 + 2
InHighLowRegion(at) == at.r >= 3 /\ 4 * (at.r + at.s) >= at.bits + 8
\* q = next_prime(p + 2^(L-e)) for the six documented e, primes of >= 384 bits
\* at.L is the documented prime size n.bit_length() \div 2 (moduli of even and of odd length alike)
CritUpperDiff(at) == IF at.L >= 384 /\ at.L = at.nbits \div 2 /\ at.dindex \in 0..5 THEN "must" ELSE "none"
CritUnseeded(at) == IF at.listed THEN "must" ELSE "none"
\* word repetition: w in the default list, w <= bits/16, at most 32 deviating low bits
CritPattern(at) == IF at.in_default /\ 16 * at.w <= at.bits /\ at.dev <= 32 THEN "must" ELSE "none"
\* adjacent limbs swapped: limb in {8,16,32,64}, odd pattern length, implied denominator <= bits/10
CritPermuted(at) == IF at.limb \in {8, 16, 32, 64} /\ at.psize % 2 = 1 /\ at.psize >= 3 /\ at.psize < at.limb
                       /\ 10 * at.dbits <= at.bits THEN "must" ELSE "none"
CritCf(at) == IF at.w1 <= 64 /\ at.w2 <= 64 THEN "must" ELSE "none"
CritLhw(at) == IF at.h1 <= 32 /\ at.h2 <= 32 THEN "must" ELSE "none"
\* p-1 and q-1 share a 2^20-smooth factor >= 2^60 and one of them is smooth enough
CritPm1(at) == IF at.shared_log2 >= 60 /\ (at.smooth_p \/ at.smooth_q) THEN "must" ELSE "none"

(* ---------- C06: closed-form criteria that flag EXACTLY ---------------------- *)
\* family "exact_rsa": bits, e (65537 | 0 for anything else), res39, res48, in_openssl_list, keypair_covered
CritExactRsa(c, at) ==
  CASE c = "CheckSizes" -> IF at.bits < 2048 THEN "must" ELSE "mustnot"
    [] c = "CheckExponents" -> IF at.e # 65537 THEN "must" ELSE "mustnot"
    [] c = "CheckROCA" -> IF RocaWeak(at.res39) THEN "must" ELSE "mustnot"
    [] c = "CheckROCAVariant" -> IF ~VariantDecided(at.res48) THEN "none"
                                 ELSE IF VariantWeak(at.res39, at.res48) THEN "must" ELSE "mustnot"
    [] c = "CheckOpensslDenylist" /\ at.openssl # "unknown" -> IF at.openssl = "listed" THEN "must" ELSE "mustnot"
    [] c = "CheckKeypairDenylist" /\ at.keypair = "covered" -> "must"
    \* a modulus next to a generated one (same 64 leading bits, hence the same table entry) that the generator did not produce
    [] c = "CheckKeypairDenylist" /\ at.keypair = "neighbour" -> "mustnot"
    [] OTHER -> "none"
\* family "exact_ec": known (curve has parameters), on_curve, in_range, order_bits
CritExactEc(c, at) ==
  CASE c = "CheckValidECKey" -> IF ~at.known \/ ~at.on_curve \/ ~at.in_range THEN "must" ELSE "mustnot"
    [] c = "CheckWeakCurve" /\ at.known -> IF at.order_bits < 224 THEN "must" ELSE "mustnot"
    [] OTHER -> "none"

Criterion(c, at, par) ==
  CASE Fam(at) = "exact_rsa" -> CritExactRsa(c, at)
    [] Fam(at) = "exact_ec" -> CritExactEc(c, at)
    [] Fam(at) = "fermat" /\ c = "CheckFermat" -> CritFermat(at, par)
    [] Fam(at) = "upperdiff" /\ c = "CheckSmallUpperDifferences" -> CritUpperDiff(at)
    [] Fam(at) = "unseeded" /\ c = "CheckUnseededRand" -> CritUnseeded(at)
    [] Fam(at) = "pattern" /\ c = "CheckBitPatterns" -> CritPattern(at)
    [] Fam(at) = "permuted" /\ c = "CheckPermutedBitPatterns" -> CritPermuted(at)
    [] Fam(at) = "cf" /\ c = "CheckContinuedFractions" -> CritCf(at)
    [] Fam(at) = "lhw" /\ c = "CheckLowHammingWeight" -> CritLhw(at)
    [] Fam(at) = "pm1" /\ c = "CheckPollardpm1" -> CritPm1(at)
    [] OTHER -> "none"
\* checks whose positive verdict on their family must record both primes
MustFactor(c, at) ==
  \/ Fam(at) = "exact_rsa" /\ c = "CheckKeypairDenylist" /\ at.keypair = "covered"
  \/ Fam(at) = "fermat" /\ c = "CheckFermat"
  \/ Fam(at) = "upperdiff" /\ c = "CheckSmallUpperDifferences"
  \/ Fam(at) = "unseeded" /\ c = "CheckUnseededRand"
  \/ Fam(at) = "pattern" /\ c = "CheckBitPatterns" /\ CritPattern(at) = "must"
  \/ Fam(at) = "permuted" /\ c = "CheckPermutedBitPatterns" /\ CritPermuted(at) = "must"
  \/ Fam(at) = "pm1" /\ c = "CheckPollardpm1" /\ CritPm1(at) = "must" /\ ~(at.smooth_p /\ at.smooth_q)
=============================================================================
