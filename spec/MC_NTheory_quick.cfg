SPECIFICATION Spec
CONSTANT K = 8
INVARIANT InvCorrect
INVARIANT InvSqrtCorrect
INVARIANT SqrtCorrect
INVARIANT FourRoots
INVARIANT CfOk
INVARIANT DivRoundOk
INVARIANT IrwinHallOk
CHECK_DEADLOCK FALSE
