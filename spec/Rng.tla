-------------------------------- MODULE Rng --------------------------------
(***************************************************************************)
(* C20.  (1) Framing: a generator produces words, serialises them to a     *)
(* byte buffer, cuts the buffer to ceil(n/8) bytes, clears the excess bits *)
(* and converts to an integer.  The result must be below 2^n.  Which byte  *)
(* has to be masked depends on the byte order of the final conversion:     *)
(* the MOST significant one.  The four styles found in rng.py are          *)
(* modelled; TLC shows three are in range for every buffer and refutes the *)
(* fourth (mask byte 0 of a little-endian buffer - TruncLcgRand, D5).      *)
(* (2) java.util.Random + new BigInteger(numBits, rnd) on four 12-bit      *)
(* limbs (TLC integers are 32-bit).  (3) The truncated LCG from its stated *)
(* recurrence, on small state sizes.                                       *)
(***************************************************************************)
EXTENDS Integers, Sequences, FiniteSets, TLC, Bitwise
CONSTANTS MaxBytes, ByteVoc

Pow2(k) == LET RECURSIVE P(_)
               P(j) == IF j = 0 THEN 1 ELSE 2 * P(j - 1)
           IN P(k)
\* integer value of a byte sequence
RECURSIVE LE(_)
LE(bs) == IF bs = <<>> THEN 0 ELSE Head(bs) + 256 * LE(Tail(bs))
RECURSIVE BEacc(_, _)
BEacc(bs, ac) == IF bs = <<>> THEN ac ELSE BEacc(Tail(bs), 256 * ac + Head(bs))
BE(bs) == BEacc(bs, 0)
NBytes(n) == (n + 7) \div 8
KeepMask(n) == IF n % 8 = 0 THEN 255 ELSE Pow2(n % 8) - 1
Cut(buf, n) == SubSeq(buf, 1, NBytes(n))
\* the four truncation styles
MaskInt(buf, n) == LE(Cut(buf, n)) % Pow2(n)                                   \* whole-integer mask
MaskFirstBE(buf, n) == LET c == Cut(buf, n) IN BE([c EXCEPT ![1] = @ & KeepMask(n)])   \* java
MaskLastLE(buf, n) == LET c == Cut(buf, n) IN LE([c EXCEPT ![Len(c)] = @ & KeepMask(n)])
MaskFirstLE(buf, n) == LET c == Cut(buf, n) IN LE([c EXCEPT ![1] = @ & KeepMask(n)])   \* TruncLcgRand as pinned (D5)

VARIABLES buf, n
Init == /\ buf \in UNION {[1..k -> ByteVoc] : k \in 1..MaxBytes}
        /\ n \in 1..(8 * Len(buf))
Next == UNCHANGED <<buf, n>>
Spec == Init /\ [][Next]_<<buf, n>>
InRange(v) == v >= 0 /\ v < Pow2(n)
RangeMaskInt == InRange(MaskInt(buf, n))
RangeMaskFirstBE == InRange(MaskFirstBE(buf, n))
RangeMaskLastLE == InRange(MaskLastLE(buf, n)) /\ MaskLastLE(buf, n) = MaskInt(buf, n)
RangeMaskFirstLE == InRange(MaskFirstLE(buf, n))          \* violated: expected-violation config

(* ---------- java.util.Random on limbs -------------------------------------- *)
A == <<1645, 3790, 1502, 0>>        \* 0x5DEECE66D = 0x5DE ECE 66D, least significant limb first
CAdd == 11
L == 4096
MulAdd(s) ==
  LET c0 == s[1] * A[1] + CAdd
      c1 == s[1] * A[2] + s[2] * A[1] + (c0 \div L)
      c2 == s[1] * A[3] + s[2] * A[2] + s[3] * A[1] + (c1 \div L)
      c3 == s[1] * A[4] + s[2] * A[3] + s[3] * A[2] + s[4] * A[1] + (c2 \div L)
  IN <<c0 % L, c1 % L, c2 % L, c3 % L>>
Scramble(seed) == [i \in 1..4 |-> seed[i] ^^ A[i]]
\* the four bytes of next(32) = state >> 16, least significant first (nextBytes order)
IntBytes(s) == << s[2] \div 16, s[3] % 256, (s[3] \div 256) + (s[4] % 16) * 16, s[4] \div 16 >>
RECURSIVE Fill(_, _, _)
Fill(st, need, acc) == IF Len(acc) >= need THEN SubSeq(acc, 1, need)
                       ELSE LET st2 == MulAdd(st) IN Fill(st2, need, acc \o IntBytes(st2))
\* magnitude bytes of new BigInteger(numBits, new Random(seed)), most significant first
BigIntegerBytes(seed, nbits) ==
  LET nb == NBytes(nbits)
      raw == Fill(Scramble(seed), nb, <<>>)
  IN [raw EXCEPT ![1] = @ & KeepMask(nbits)]

(* ---------- truncated LCG from its recurrence (small state) ---------------- *)
\* state <- (a * state + 1) mod 2^(2w); output = upper w bits, one output per ceil(w/8) bytes, little endian;
\* the n requested bits are the low n bits of the concatenation
RECURSIVE LcgBytes(_, _, _, _, _)
LcgBytes(st, a, w, need, acc) ==
  IF Len(acc) >= need THEN SubSeq(acc, 1, need)
  ELSE LET st2 == (st * a + 1) % Pow2(2 * w)
           out == st2 \div Pow2(w)
           ob == NBytes(w)
       IN LcgBytes(st2, a, w, need, acc \o [i \in 1..ob |-> (out \div Pow2(8 * (i - 1))) % 256])
TruncLcgValue(seed, a, w, nbits) == MaskInt(LcgBytes(seed, a, w, NBytes(nbits), <<>>), nbits)
=============================================================================
