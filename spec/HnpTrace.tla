------------------------------ MODULE HnpTrace ------------------------------
(* Trace specification for C08: one record = one nonce check on one batch.   *)
(* groups[g] = [curvebits, cls, bias, uniq, needed, known]; sigs[i] = [g]     *)
(* (group of signature i); obs.flag / obs.dlog_ok per signature; obs.calls =  *)
(* sizes of the lists handed to the lattice solver (<<-1>> when the wrapped   *)
(* function no longer exists: the internal clause is then skipped).           *)
EXTENDS HnpWindows, TraceBase
VARIABLE tid
Groups(r) == 1..Len(r.args.groups)
G(r, i) == r.args.groups[r.args.sigs[i].g]
MustGroup(r, g) ==
  LET x == r.args.groups[g] IN
  /\ CheckFor(x.cls) = r.args.check
  /\ IF x.cls = "lcg" THEN x.uniq >= x.needed /\ x.needed > 0
     ELSE MarginOk(x.cls, x.uniq, x.bias, x.curvebits)
\* expected multiset of solver calls for the bias checks: every group on a curve with parameters contributes its windows
ExpectedCalls(r, len) == LET RECURSIVE S(_)
                             S(g) == IF g = 0 THEN 0 ELSE (IF r.args.groups[g].known THEN CallCount(r.args.groups[g].uniq, len) ELSE 0) + S(g - 1)
                         IN S(Len(r.args.groups))
ObsCalls(r, len) == Cardinality({i \in 1..Len(r.obs.calls) : r.obs.calls[i] = len})
\* LCG path: observed pairs <<signatures, constants>> handed to the precomputation solver vs the specification, summed over the
\* groups of the batch whose curve has shipped models (args.models[g] = sequence of <<S, m, w>>)
LcgExpected(r, len, nc) == LET RECURSIVE SG(_)
                               SG(g) == IF g = 0 THEN 0
                                        ELSE (LET ms == r.args.models[g]
                                                  k == r.args.groups[g].uniq
                                                  RECURSIVE SM(_)
                                                  SM(i) == IF i = 0 THEN 0 ELSE LcgCallCount(k, ms[i][1], ms[i][2], ms[i][3], len, nc) + SM(i - 1)
                                              IN SM(Len(ms))) + SG(g - 1)
                           IN SG(Len(r.args.groups))
LcgObserved(r, len, nc) == Cardinality({i \in 1..Len(r.obs.lcgcalls) : r.obs.lcgcalls[i][1] = len /\ r.obs.lcgcalls[i][2] = nc})
LcgPairs(r) == {<<r.obs.lcgcalls[i][1], r.obs.lcgcalls[i][2]>> : i \in 1..Len(r.obs.lcgcalls)}
IsBiasCheck(c) == c \in {"CheckNonceMSB", "CheckNonceCommonPrefix", "CheckNonceCommonPostfix", "CheckNonceGeneralized"}
Verdict(r) ==
  IF r.raised # "none" THEN "Total"
  ELSE IF \E i \in 1..Len(r.args.sigs) : r.obs.flag[i] /\ ~r.obs.dlog_ok[i] THEN "FlaggedOnlyWithCorrectKey"
  ELSE IF \E i \in 1..Len(r.args.sigs) : MustGroup(r, r.args.sigs[i].g) /\ ~r.obs.flag[i] THEN "EverySignatureOfIssuerFlagged"
  ELSE IF \E i \in 1..Len(r.args.sigs) : G(r, i).cls = "healthy" /\ r.obs.flag[i] THEN "OtherIssuersKeepVerdict"
  \* interleavings generated from SigPipeline.tla carry the verdict TLC computed for every position
  ELSE IF "spec_flagged" \in DOMAIN r.args /\ r.obs.flag # r.args.spec_flagged THEN "InterleavingVerdicts"
  ELSE IF IsBiasCheck(r.args.check) /\ r.obs.calls # <<-1>> /\
          (\E len \in 1..120 : ObsCalls(r, len) # ExpectedCalls(r, len)) THEN "WindowSizes"
  ELSE IF r.args.check = "CheckLCGNonceGMP" /\ r.obs.lcgcalls # <<<<-1, -1>>>> /\
          (\E pr \in LcgPairs(r) \cup {<<l, c>> \in (1..60) \X (1..40) : LcgExpected(r, l, c) > 0} :
              LcgObserved(r, pr[1], pr[2]) # LcgExpected(r, pr[1], pr[2])) THEN "LcgSubsets"
  ELSE "ok"
TInit == tid = 1 /\ RegInit /\ n = 0
TNext == /\ tid <= NRecs
         /\ LET v == Verdict(Recs[tid]) IN Check(tid, Recs[tid], v, v = "ok")
         /\ tid' = tid + 1 /\ UNCHANGED n
TSpec == TInit /\ [][TNext]_<<n, tid>>
=============================================================================
