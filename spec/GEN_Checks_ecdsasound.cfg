SPECIFICATION Spec
CONSTANTS Kind = "ecdsa"
          Slots <- Slots3
          Classes <- EcdsaSoundClasses
          MaxCalls = 2
          AllowSingle = TRUE
CHECK_DEADLOCK FALSE
