SPECIFICATION Spec
CONSTANTS Issuers <- I4
          CurveOf <- C4
          Weak <- W4
          Num <- NFull
          StoreBy = "curveindex"
INVARIANT ExactlyTheWeak
INVARIANT WithinBatch
CONSTRAINT Emit
CHECK_DEADLOCK FALSE
