SPECIFICATION HSpec
CONSTANTS Tests <- TestsNamed
          NamesOf <- NamesOfDef
          Exps <- ExpsQuick
          FailAt <- FailAtDef
          RepAt <- RepAtDef
          MinReps = 2
          MaxRuns = 3
          Mode = "source"
CONSTRAINT Emit
CHECK_DEADLOCK FALSE
