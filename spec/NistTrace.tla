----------------------------- MODULE NistTrace -----------------------------
(* Trace specification for C12.  One record = one call of a test of          *)
(* nist_suite on a bit string (given as a 0/1 sequence when it has at most    *)
(* 4096 bits), with the number of returned p-values, the p-values in micro    *)
(* units, a range flag, the integer statistics the harness computed from the  *)
(* definitions (stat) and the boolean of the auxiliary formula monitor.       *)
(* TLC decides: insufficient-data raised exactly below the threshold, the     *)
(* ladder (number of p-values), the integer statistics (certifying the        *)
(* harness's reference), the range; it requires the auxiliary boolean.        *)
(* "meta" records carry two p-value vectors that must agree (invariances).    *)
EXTENDS NistStats, TraceBase
VARIABLE tid
Close(a, b) == Abs(a - b) <= 2        \* micro units (values are at most 10^6): 2e-6 absolute
HasBits(r) == "bits" \in DOMAIN r.args
Seq2Fun(q, lo) == [v \in lo..(lo + Len(q) - 1) |-> q[v - lo + 1]]
StatOk(r) ==
  LET t == r.args.bits
      st == r.obs.stat
  IN CASE r.args.test = "Frequency" -> st.S = FrequencyS(t)
       [] r.args.test = "Runs" -> st.V = RunsV(t) /\ st.ones = Ones(t)
       [] r.args.test = "BlockFrequency" -> st.m = BlockFrequencyM(Len(t)) /\ st.block_ones = BlockOnes(t, BlockFrequencyM(Len(t)))
       [] r.args.test = "LongestRuns" -> LET p == LongestRunParams(Len(t)) IN
                                          st.m = p[1] /\ Seq2Fun(st.bins, p[2]) = LongestRunBins(t)
       [] r.args.test = "RandomWalk" -> /\ st.zf = CusumForward(t) /\ st.zb = CusumBackward(t) /\ st.J = Cycles(t)
                                        /\ \A x \in 1..4 : st.visits_pos[x] = Visits(t, x) /\ st.visits_neg[x] = Visits(t, 0 - x)
       [] r.args.test = "LinearComplexityScatter" ->
            /\ Len(st.sizes) = r.args.par
            \* with the optional max_block_size only the first step * max_block_size bits are used
            /\ LET eff == IF "maxblock" \in DOMAIN r.args /\ r.args.par * r.args.maxblock < Len(t) THEN r.args.par * r.args.maxblock ELSE Len(t)
               IN \A i \in 1..Len(st.sizes) : st.sizes[i] = ScatterSize(eff, r.args.par, i - 1)
       [] OTHER -> TRUE
\* the same call repeated in a fresh process after other calls of the same process must give the same p-values
VPure(r) == IF r.raised # "none" THEN "Total"
            ELSE IF Len(r.obs.pa) # Len(r.obs.pb) THEN "IndependentOfEarlierCalls"
            ELSE IF \E i \in 1..Len(r.obs.pa) : ~Close(r.obs.pa[i], r.obs.pb[i]) THEN "IndependentOfEarlierCalls"
            ELSE "ok"
VStat(r) ==
  LET test == r.args.test
      n == r.args.n
      ins == Insufficient(test, n, r.args.par)
  IN IF ins THEN (IF r.raised = "InsufficientDataError" THEN "ok" ELSE "InsufficientDataExactlyBelowMinimum")
     ELSE IF r.raised = "InsufficientDataError" THEN "InsufficientDataExactlyBelowMinimum"
     ELSE IF r.raised # "none" THEN "Total"
     ELSE IF ~r.obs.inrange THEN "PValueInUnitInterval"
     \* RandomWalk with optional state bounds <<max_state, max_cnt, max_state_variant>>: 2 cusum values, and with >= 500 cycles one value
     \* per non-zero state of each excursion test
     ELSE IF test = "RandomWalk" /\ "states" \in DOMAIN r.args /\
             r.obs.count # 2 + (IF r.obs.stat.J >= 500 THEN 2 * r.args.states[1] + 2 * r.args.states[3] ELSE 0) THEN "LadderNumberOfPValues"
     ELSE IF ~(test = "RandomWalk" /\ "states" \in DOMAIN r.args) /\
             r.obs.count # NumPValues(test, n, IF test = "RandomWalk" THEN r.obs.stat.J ELSE r.args.par) THEN "LadderNumberOfPValues"
     ELSE IF HasBits(r) /\ ~StatOk(r) THEN "IntegerStatistic"
     \* the block length the reference transcription of Universal used is the one of the specification's ladder
     ELSE IF test = "Universal" /\ "refL" \in DOMAIN r.obs.stat /\ r.obs.stat.refL # UniversalL(n) THEN "ReferenceLadderDisagreesWithSpec"
     ELSE IF ~r.obs.formula_ok THEN "PValueFormula"
     ELSE "ok"
VMeta(r) == IF r.raised # "none" THEN "Total"
            ELSE IF Len(r.obs.pa) # Len(r.obs.pb) THEN "InvariantUnderTransformation"
            ELSE IF \E i \in 1..Len(r.obs.pa) : ~Close(r.obs.pa[i], r.obs.pb[i]) THEN "InvariantUnderTransformation"
            ELSE "ok"
VTable(r) == IF r.raised # "none" THEN "Total" ELSE IF ~r.obs.ok THEN "EmbeddedTableMatchesExactDistribution" ELSE "ok"
Verdict(r) == CASE r.ev = "stat" -> VStat(r) [] r.ev = "meta" -> VMeta(r) [] r.ev = "pure" -> VPure(r) [] r.ev = "table" -> VTable(r) [] OTHER -> "UnknownEvent"
TInit == tid = 1 /\ RegInit /\ Init
TNext == /\ tid <= NRecs
         /\ LET v == Verdict(Recs[tid]) IN Check(tid, Recs[tid], v, v = "ok")
         /\ tid' = tid + 1 /\ UNCHANGED vars
TSpec == TInit /\ [][TNext]_<<vars, tid>>
=============================================================================
