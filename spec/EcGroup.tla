------------------------------ MODULE EcGroup ------------------------------
(***************************************************************************)
(* C11 / C10 / C09 / C06(EC).  The chord-and-tangent law over a small      *)
(* prime field written definitionally, for constants (P, A, B, G, Q, H):   *)
(* curve y^2 = x^3 + A x + B over F_P, generator G of prime order Q,       *)
(* cofactor H.  The real EcCurve class is size-generic, so the same code   *)
(* that runs on secp256r1 runs on these curves, and TLC computes every     *)
(* expected result itself.                                                 *)
(***************************************************************************)
EXTENDS Naturals, Integers, Sequences, FiniteSets, TLC
CONSTANTS P, A, B, GX, GY, Q, H

Inf == <<-1, -1>>
G == <<GX, GY>>
Fp == 0..(P - 1)
InvTab == [x \in 1..(P - 1) |-> CHOOSE y \in 1..(P - 1) : (x * y) % P = 1]
Inv(x) == InvTab[x % P]
OnCurve(pt) == pt = Inf \/ (pt[2] * pt[2]) % P = (pt[1] * pt[1] * pt[1] + A * pt[1] + B) % P
Points == {Inf} \cup {pt \in Fp \X Fp : OnCurve(pt)}
Neg(pt) == IF pt = Inf THEN Inf ELSE <<pt[1], (P - pt[2]) % P>>
Double(pt) ==
  IF pt = Inf \/ pt[2] = 0 THEN Inf       \* a point of order two doubles to infinity
  ELSE LET t == (((3 * pt[1] * pt[1] + A) % P) * Inv(2 * pt[2])) % P
           x3 == (t * t + 2 * (P - pt[1])) % P
           y3 == (t * ((pt[1] + P - x3) % P) + (P - pt[2])) % P
       IN <<x3, y3>>
Add(p1, p2) ==
  IF p1 = Inf THEN p2 ELSE IF p2 = Inf THEN p1
  ELSE IF p1[1] = p2[1] THEN (IF p1[2] = p2[2] THEN Double(p1) ELSE Inf)
  ELSE LET t == (((p1[2] + P - p2[2]) % P) * Inv(p1[1] + P - p2[1])) % P
           x3 == (t * t + (P - p1[1]) + (P - p2[1])) % P
           y3 == (t * ((p1[1] + P - x3) % P) + (P - p1[2])) % P
       IN <<x3, y3>>
Sub(p1, p2) == Add(p1, Neg(p2))
\* k * G for 0 <= k < Q by repeated addition (definition of scalar multiplication)
RECURSIVE GTimes(_)
GTimes(k) == IF k = 0 THEN Inf ELSE Add(GTimes(k - 1), G)
PointOf == [k \in 0..(Q - 1) |-> GTimes(k)]
Subgroup == {PointOf[k] : k \in 0..(Q - 1)}
\* discrete logarithm of a subgroup point
DLog(pt) == CHOOSE k \in 0..(Q - 1) : PointOf[k] = pt
\* scalar multiplication of an arbitrary curve point by repeated addition; k any integer
RECURSIVE Times(_, _)
Times(k, pt) == IF k = 0 THEN Inf ELSE IF k < 0 THEN Times(0 - k, Neg(pt)) ELSE Add(Times(k - 1, pt), pt)
\* k * pt for subgroup points through the isomorphism (fast path for the trace specification)
Mul(k, pt) == IF pt \in Subgroup THEN PointOf[(k * DLog(pt)) % Q] ELSE Times(k, pt)
\* the four clauses of IsValidPublicKey on raw (unreduced) coordinates
Valid(x, y) == /\ x >= 0 /\ x <= P - 1 /\ y >= 0 /\ y <= P - 1
               /\ OnCurve(<<x, y>>)
               /\ (H > 1 => Times(Q, <<x, y>>) = Inf)

(* ---------- ECDSA on the small curve (C09) --------------------------------- *)
QInvTab == [x \in 1..(Q - 1) |-> CHOOSE y \in 1..(Q - 1) : (x * y) % Q = 1]
XOf(pt) == pt[1]
SigR(k) == XOf(PointOf[k % Q]) % Q
SigS(d, k, z) == (QInvTab[k % Q] * ((z + SigR(k) * d) % Q)) % Q
\* bits2int of RFC 6979 2.4: keep the leftmost min(hlen, qlen) bits of an hlen-bit string, then reduce
BitLen(x) == LET RECURSIVE L(_)
                 L(v) == IF v = 0 THEN 0 ELSE 1 + L(v \div 2)
             IN L(x)
Pow2(k) == LET RECURSIVE Pw(_)
               Pw(j) == IF j = 0 THEN 1 ELSE 2 * Pw(j - 1)
           IN Pw(k)
Bits2Int(h, hlen) == (IF hlen > BitLen(Q) THEN h \div Pow2(hlen - BitLen(Q)) ELSE h) % Q

(* ---------- accumulator machine: the group explored as a state graph ------- *)
VARIABLE acc
Init == acc = Inf
StepAdd == \E q \in Subgroup : acc' = Add(acc, q)
StepDouble == acc' = Double(acc)
StepNeg == acc' = Neg(acc)
Next == StepAdd \/ StepDouble \/ StepNeg
Spec == Init /\ [][Next]_acc

Closed == acc \in Subgroup /\ OnCurve(acc)
Identity == Add(acc, Inf) = acc /\ Add(Inf, acc) = acc
Inverse == Add(acc, Neg(acc)) = Inf
Commutative == \A q \in Subgroup : Add(acc, q) = Add(q, acc)
Associative == \A q, r \in Subgroup : Add(Add(acc, q), r) = Add(acc, Add(q, r))
\* k |-> k G is an isomorphism Z_Q -> subgroup
Isomorphism == \A q \in Subgroup : DLog(Add(acc, q)) = (DLog(acc) + DLog(q)) % Q
OrderQ == Add(PointOf[Q - 1], G) = Inf /\ Cardinality(Subgroup) = Q
PrimeOrderWholeGroup == H = 1 => Cardinality(Points) = Q
TimesAgrees == \A k \in (0 - 3)..(Q + 2) : Times(k, acc) = PointOf[(k * DLog(acc)) % Q]
\* ECDSA relation: for every (d, k, z) with r, s # 0 the hidden-number pair satisfies k = a + b d (mod Q)
HnpRelation == \A d \in 1..(Q - 1) : \A z \in {0, 1, Q - 1} :
                 LET k == IF DLog(acc) = 0 THEN 1 ELSE DLog(acc)
                     r == SigR(k)
                     s == SigS(d, k, z)
                 IN (r # 0 /\ s # 0) =>
                      LET si == QInvTab[s]
                          a == (z * si) % Q
                          b == (r * si) % Q
                      IN (a + b * d) % Q = k

(* ---------- the whole curve group (cofactor curves: points outside the subgroup, points of order two) ---- *)
StepAddAny == \E q \in Points : acc' = Add(acc, q)
SpecAll == Init /\ [][StepAddAny \/ StepDouble \/ StepNeg]_acc
ClosedAll == acc \in Points
CommutativeAll == \A q \in Points : Add(acc, q) = Add(q, acc)
AssociativeAll == \A q, r \in Points : Add(Add(acc, q), r) = Add(acc, Add(q, r))
GroupOrderAll == Cardinality(Points) = Q * H /\ Times(Q * H, acc) = Inf
\* the subgroup test of IsValidPublicKey is exactly membership in <G>
SubgroupTest == (Times(Q, acc) = Inf) <=> (acc \in Subgroup)
TimesIsHom == \A k \in (0 - 2)..(Q + 1) : Times(k + 1, acc) = Add(Times(k, acc), acc)
=============================================================================
