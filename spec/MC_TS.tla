------------------------------- MODULE MC_TS -------------------------------
EXTENDS TestStructure, Json
\* p_fail = 1e-9, p_repeat = 2^-7: FailAt[k] = least S with Q(k, S ln 2) < 1e-9 (checked by the harness with mpmath)
FailAtDef == <<30, 35, 39, 43, 46, 49, 52, 55>>
RepAtDef == <<7, 14, 21, 28, 35, 42, 49, 56>>
\* TestBitString: p_fail = p_repeat = 2^-30, one run: FAILED <=> e > 30, PASSED <=> e < 30
FailAtBit == <<31>>
RepAtBit == <<30>>
\* a fail level close to the repeat level (p_fail = 3e-4, p_repeat = 2^-7): from the third run on RepAt[k] exceeds FailAt[k], so a
\* combined value may be below the fail level AND above the combined repeat level; the rule tests FAILED first
FailAtClose == <<12, 16, 19, 22, 24, 27, 29, 31>>
ExpsClose == {0, 3, 5, 6, 7, 8, 11, Inf}
ExpsCloseMC == {0, 5, 7, 8, Inf}
TestsDef == <<1, 2>>
NamesOfDef == (1 :> {"a", "b"}) @@ (2 :> {"result"})
ExpsDef == {0, 7, 8, 29, 30, Inf}
ExpsBit == {0, 29, 30, 31, Inf}
ExpsQuick == {0, 7, 8, 30, Inf}
\* single-structure generator configs: every history is a distinct state (pe is a history variable)
TestsScalar == <<2>>
TestsNamed == <<1>>
ExpsGen == {0, 6, 7, 8, 13, 14, 15, 29, 30, Inf}
=============================================================================
