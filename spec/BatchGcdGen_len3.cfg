SPECIFICATION Spec
CONSTANTS GPrimes = {"p1", "p2", "p3"}
          MaxMult = 2
          MaxLen = 3
          ExtraChoices = FALSE
CONSTRAINT Emit
CHECK_DEADLOCK FALSE
