SPECIFICATION Spec
CONSTANTS Q = 41
          MaxLen = 3
          MaxCalls = 2
          GiantExtra = 2
          StepAdjust = 1
INVARIANT Complete
PROPERTY CacheMonotone
CHECK_DEADLOCK FALSE
