----------------------------- MODULE MC_Checks -----------------------------
EXTENDS Checks
ArtsDef == {"a1", "a2"}
ChecksDef == <<"CheckLowHammingWeight", "CheckGCD">>
ChecksDef3 == <<"CheckSizes", "CheckLowHammingWeight", "CheckGCD">>
=============================================================================
