SPECIFICATION Spec
CONSTANT K = 8
INVARIANT DivRoundPinnedOk
CHECK_DEADLOCK FALSE
