------------------------------ MODULE NTheory ------------------------------
(***************************************************************************)
(* C19, number-theory part.  Definitions by brute force modulo 2^k, the    *)
(* transcriptions of the Newton iterations of ntheory_util, continued      *)
(* fractions, rounded division, sieve, pseudo-average and the Irwin-Hall   *)
(* distribution on a rational grid.  MC_NTheory checks every transcription *)
(* against its definition for all n < 2^K, k <= K.                         *)
(***************************************************************************)
EXTENDS Naturals, Integers, Sequences, FiniteSets, TLC
CONSTANT K

Pow(b, e) == LET RECURSIVE P(_)
                 P(j) == IF j = 0 THEN 1 ELSE b * P(j - 1)
             IN P(e)
Pow2(k) == Pow(2, k)
Min2(a, b) == IF a < b THEN a ELSE b
Abs(x) == IF x < 0 THEN 0 - x ELSE x
MulMod(a, b, M) == ((a % M) * (b % M)) % M          \* operands < 2^15 after reduction

(* ---------- definitions (k >= 1) ------------------------------------------ *)
IsInv(a, n, k) == MulMod(a, n, Pow2(k)) = 1 % Pow2(k)
IsInvSqrt(a, n, k) == MulMod(MulMod(a, a, Pow2(k)), n, Pow2(k)) = 1 % Pow2(k)
IsSqrt(x, n, k) == MulMod(x, x, Pow2(k)) = n % Pow2(k)
InvExists(n, k) == \E a \in 0..(Pow2(k) - 1) : IsInv(a, n, k)
InvSqrtExists(n, k) == \E a \in 0..(Pow2(k) - 1) : IsInvSqrt(a, n, k)
SqrtSet(n, k) == {x \in 0..(Pow2(k) - 1) : IsSqrt(x, n, k)}

(* ---------- transcriptions of the Newton loops ---------------------------- *)
\* Inverse2exp: a = n % 4; t = 2; while t < k: t = min(k, 2t); a = a * (2 - a * n) mod 2^t
RECURSIVE InvLoop(_, _, _, _)
InvLoop(a, t, n, k) ==
  IF t < k THEN LET t2 == Min2(k, 2 * t)
                    M == Pow2(t2)
                IN InvLoop(MulMod(a, (2 - MulMod(a, n, M)) % M, M), t2, n, k)
  ELSE a
Inverse2expAlg(n, k) == IF n % 2 = 0 THEN -1 ELSE InvLoop(n % 4, 2, n, k)      \* -1 = None
\* InverseSqrt2exp for k >= 3: a = 1; t = 3; while t < k: t = min(k, 2t - 2); a = a * (3 - a*a*n) // 2 mod 2^t
RECURSIVE InvSqrtLoop(_, _, _, _)
InvSqrtLoop(a, t, n, k) ==
  IF t < k THEN LET t2 == Min2(k, 2 * t - 2)
                    M2 == Pow2(t2 + 1)
                    u == (3 - MulMod(MulMod(a, a, M2), n, M2)) % M2      \* even
                IN InvSqrtLoop(MulMod(a, u \div 2, Pow2(t2)), t2, n, k)
  ELSE a
InverseSqrt2expAlg(n, k) ==
  IF k < 3 THEN (IF InvSqrtExists(n, k) THEN CHOOSE a \in 0..(Pow2(k) - 1) : IsInvSqrt(a, n, k) /\ \A b \in 0..(a - 1) : ~IsInvSqrt(b, n, k)
                 ELSE -1)
  ELSE IF n % 8 # 1 THEN -1 ELSE InvSqrtLoop(1, 3, n, k)
\* Sqrt2exp for odd n, k >= 3: r = inverse of the inverse square root; roots r, -r, 2^(k-1) +- r
Sqrt2expAlg(n, k) ==
  IF k < 3 THEN SqrtSet(n, k)
  ELSE LET sq == InverseSqrt2expAlg(n, k) IN
       IF sq = -1 THEN {}
       ELSE LET r == Inverse2expAlg(sq, k)
                M == Pow2(k)
            IN {r % M, (M - r) % M, (Pow2(k - 1) - r) % M, (Pow2(k - 1) + r) % M}

(* ---------- continued fractions ------------------------------------------- *)
\* coefficients of a / b (a >= 0, b >= 1) by Euclid
RECURSIVE CfCoeffs(_, _)
CfCoeffs(a, b) == IF b = 0 THEN <<>> ELSE <<a \div b>> \o CfCoeffs(b, a % b)
\* value of the finite continued fraction [q1; q2, ...] as <<num, den>> in lowest terms, definitionally
RECURSIVE CfValue(_)
CfValue(qs) == IF Len(qs) = 1 THEN <<qs[1], 1>>
               ELSE LET v == CfValue(Tail(qs)) IN <<qs[1] * v[1] + v[2], v[1]>>   \* q + 1/(n/d) = (q n + d)/n
RECURSIVE Gcd(_, _)
Gcd(x, y) == IF y = 0 THEN Abs(x) ELSE Gcd(y, x % y)
\* convergents r_i / t_i are in lowest terms and r_i t_{i-1} - r_{i-1} t_i = +-1
Convergent(qs, i) == CfValue(SubSeq(qs, 1, i))

(* ---------- rounded division ---------------------------------------------- *)
\* definition: a = q b + r with 2|r| <= b (q is a nearest integer to a/b; either neighbour at a tie)
IsRoundedDivision(a, b, q, r) == a = q * b + r /\ 2 * Abs(r) <= b
FDiv(x, d) == x \div d                      \* d > 0: floor division as in Python
DivmodRoundedAlg(a, b) == LET d == b \div 2 IN <<FDiv(a + d, b), ((a + d) % b) - d>>
\* the pinned code used offset (b + 1) // 2, wrong for odd b (kept as a named deviation, see D9)
DivmodRoundedPinned(a, b) == LET d == (b + 1) \div 2 IN <<FDiv(a + d, b), ((a + d) % b) - d>>

(* ---------- sieve ---------------------------------------------------------- *)
IsPrime(p) == p >= 2 /\ \A d \in 2..(p - 1) : d * d > p \/ p % d # 0
PrimesBelow(n) == {p \in 2..(n - 1) : IsPrime(p)}

(* ---------- pseudo-average -------------------------------------------------- *)
\* all ways to lift each residue a[i] to a[i] or a[i] + n; minimise the variance; mean rounded, mod n
SeqSum(s) == LET RECURSIVE S(_)
                 S(i) == IF i = 0 THEN 0 ELSE s[i] + S(i - 1)
             IN S(Len(s))
Lifts(a, n) == {[i \in 1..Len(a) |-> a[i] + n * c[i]] : c \in [1..Len(a) -> {0, 1}]}
VarTimesM2(b) == Len(b) * SeqSum([i \in 1..Len(b) |-> b[i] * b[i]]) - SeqSum(b) * SeqSum(b)
BestLifts(a, n) == {b \in Lifts(a, n) : \A c \in Lifts(a, n) : VarTimesM2(b) <= VarTimesM2(c)}
PseudoAverages(a, n) == {((SeqSum(b) + (Len(a) \div 2)) \div Len(a)) % n : b \in BestLifts(a, n)}

(* ---------- Irwin-Hall CDF on the grid of quarters -------------------------- *)
\* numerator of UniformSumCdf(n, j/4) over the denominator 4^n n!  (n <= 5 keeps everything below 2^31)
Fact(n) == LET RECURSIVE F(_)
               F(i) == IF i = 0 THEN 1 ELSE i * F(i - 1)
           IN F(n)
Binom(n, k) == Fact(n) \div (Fact(k) * Fact(n - k))
IrwinHallNum(n, j) ==   \* x = j/4
  IF j <= 0 THEN 0 ELSE IF j >= 4 * n THEN Pow(4, n) * Fact(n)
  ELSE LET RECURSIVE S(_)
           S(k) == IF 4 * k > j THEN 0
                   ELSE (IF k % 2 = 0 THEN 1 ELSE -1) * Binom(n, k) * Pow(j - 4 * k, n) + S(k + 1)
       IN S(0)
IrwinHallDen(n) == Pow(4, n) * Fact(n)

(* ---------- model checking: transcriptions against definitions -------------- *)
VARIABLES n, k
Init == k \in 1..K /\ n \in 0..(Pow2(K) - 1)
Next == UNCHANGED <<n, k>>
Spec == Init /\ [][Next]_<<n, k>>
InvCorrect == LET a == Inverse2expAlg(n, k) IN
              IF a = -1 THEN ~InvExists(n, k) ELSE IsInv(a, n, k)
InvSqrtCorrect == LET a == InverseSqrt2expAlg(n, k) IN
                  IF a = -1 THEN ~InvSqrtExists(n, k) ELSE IsInvSqrt(a, n, k)
SqrtCorrect == n % 2 = 1 => Sqrt2expAlg(n, k) = SqrtSet(n, k)
FourRoots == (n % 2 = 1 /\ k >= 3) => Cardinality(SqrtSet(n, k)) = (IF n % 8 = 1 THEN 4 ELSE 0)
\* continued fractions of n / (k' ) for small operands
CfOk == k = 1 => \A b \in 1..40 :
          LET a == n % 200
              qs == CfCoeffs(a, b)
              last == CfValue(qs)
              g == Gcd(a, b)
          IN /\ last = <<a \div g, b \div g>>
             /\ \A i \in 2..Len(qs) : qs[i] >= 1
             /\ \A i \in 1..Len(qs) : Gcd(Convergent(qs, i)[1], Convergent(qs, i)[2]) = 1
DivRoundOk == k = 1 => \A b \in 1..25 : LET a == (n % 201) - 100
                                   qr == DivmodRoundedAlg(a, b)
                               IN IsRoundedDivision(a, b, qr[1], qr[2])
\* the pinned offset is refuted by TLC (D9): used only in the expected-violation config
DivRoundPinnedOk == k = 1 => \A b \in 1..25 : LET a == (n % 201) - 100
                                         qr == DivmodRoundedPinned(a, b)
                                     IN IsRoundedDivision(a, b, qr[1], qr[2])
IrwinHallOk == (k = 1 /\ n = 0) => \A m \in 1..5 : \A j \in 0..(4 * m) :
                  /\ IrwinHallNum(m, j) >= 0 /\ IrwinHallNum(m, j) <= IrwinHallDen(m)
                  /\ IrwinHallNum(m, j) + IrwinHallNum(m, 4 * m - j) = IrwinHallDen(m)     \* symmetry
                  /\ (j < 4 * m => IrwinHallNum(m, j) <= IrwinHallNum(m, j + 1))
=============================================================================
