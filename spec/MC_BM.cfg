SPECIFICATION Spec
CONSTANT MaxLen = 9
INVARIANT PrefixCorrect
INVARIANT CGenerates
INVARIANT FunctionalAgrees
INVARIANT CensusOk
CHECK_DEADLOCK FALSE
