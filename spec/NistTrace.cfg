SPECIFICATION TSpec
CONSTANT MaxLen = 0
POSTCONDITION Post
CHECK_DEADLOCK FALSE
