------------------------------- MODULE Fermat -------------------------------
(***************************************************************************)
(* C04, first clause: rsa_util.FermatFactor transcribed step by step.     *)
(* The loop keeps b2 = a^2 - n while a runs upwards from ceil(sqrt n);    *)
(* it returns (a + b, a - b) at the first a whose b2 is a perfect square, *)
(* or nothing after MaxSteps candidates.  TLC checks on every n below N   *)
(* that the machine returns a true factorisation, that it finds the pair  *)
(* of co-factors closest to sqrt n, and that for n = p q it succeeds      *)
(* EXACTLY when (p + q) / 2 - ceil(sqrt n) < MaxSteps - the criterion     *)
(* FactorCriteria.CritFermat applies to 64..2048-bit primes.              *)
(***************************************************************************)
EXTENDS Naturals, Integers, Sequences, FiniteSets, TLC
CONSTANTS N, MaxSteps
\* integer square root by bisection (TLC integers are 32 bits: candidates stay below 46341)
ISqrt(x) == LET RECURSIVE F(_, _)
                F(lo, hi) == IF lo = hi THEN lo
                             ELSE LET mid == (lo + hi + 1) \div 2 IN IF mid * mid <= x THEN F(mid, hi) ELSE F(lo, mid - 1)
            IN F(0, IF x < 46340 THEN x ELSE 46340)
IsSquare(x) == ISqrt(x) * ISqrt(x) = x
CeilSqrt(x) == IF IsSquare(x) THEN ISqrt(x) ELSE ISqrt(x) + 1
None == <<0, 0>>

VARIABLES n, a, b2, i, pc, result
vars == <<n, a, b2, i, pc, result>>
Init == /\ n \in 3..N
        /\ a = 0 /\ b2 = 0 /\ i = 0 /\ pc = "start" /\ result = None
Start == /\ pc = "start"
         /\ IF n % 2 = 0 THEN result' = <<2, n \div 2>> /\ pc' = "done" /\ UNCHANGED <<a, b2>>
            ELSE IF IsSquare(n) THEN result' = <<ISqrt(n), ISqrt(n)>> /\ pc' = "done" /\ UNCHANGED <<a, b2>>
            ELSE /\ a' = ISqrt(n) + 1
                 /\ b2' = (ISqrt(n) + 1) * (ISqrt(n) + 1) - n
                 /\ pc' = "loop" /\ UNCHANGED result
         /\ UNCHANGED <<n, i>>
Loop == /\ pc = "loop"
        /\ IF i >= MaxSteps THEN pc' = "done" /\ UNCHANGED <<a, b2, i, result>>
           ELSE IF IsSquare(b2) THEN result' = <<a + ISqrt(b2), a - ISqrt(b2)>> /\ pc' = "done" /\ UNCHANGED <<a, b2, i>>
           ELSE /\ b2' = b2 + a + (a + 1)          \* b2 += a; a += 1; b2 += a
                /\ a' = a + 1
                /\ i' = i + 1
                /\ UNCHANGED <<pc, result>>
        /\ UNCHANGED n
Next == Start \/ Loop
Spec == Init /\ [][Next]_vars

B2IsDifference == pc = "loop" => b2 = a * a - n /\ a = CeilSqrt(n) + i
Sound == result # None => result[1] * result[2] = n
\* the definitional answer: the smallest a >= ceil(sqrt n) with a^2 - n a square, if it is among the first MaxSteps candidates
\* (TLC enumerates the candidate set natively: faster than a recursive scan for the n <= 3000 that are replayed)
FirstA(m) == CHOOSE x \in CeilSqrt(m)..((m + 1) \div 2) : IsSquare(x * x - m) /\ \A y \in CeilSqrt(m)..(x - 1) : ~IsSquare(y * y - m)
Expected(m, ms) == IF m % 2 = 0 THEN <<2, m \div 2>>
                   ELSE IF IsSquare(m) THEN <<ISqrt(m), ISqrt(m)>>
                   ELSE IF FirstA(m) - CeilSqrt(m) < ms THEN <<FirstA(m) + ISqrt(FirstA(m) * FirstA(m) - m), FirstA(m) - ISqrt(FirstA(m) * FirstA(m) - m)>>
                   ELSE None
MatchesDefinition == pc = "done" => result = Expected(n, MaxSteps)
\* for a product of two odd primes the first square belongs to (p, q): success exactly when (p + q)/2 - ceil(sqrt n) < MaxSteps
IsPrime(x) == x > 1 /\ \A d \in 2..ISqrt(x) : x % d # 0
CriterionForSemiprimes ==
  pc = "done" => \A p \in 3..ISqrt(n) : (n % p = 0 /\ IsPrime(p) /\ IsPrime(n \div p) /\ p # n \div p /\ n % 2 = 1) =>
                    LET q == n \div p IN
                    (result # None <=> (p + q) \div 2 - CeilSqrt(n) < MaxSteps) /\ (result # None => result = <<q, p>>)
=============================================================================
