-------------------------- MODULE TestInfoMachine --------------------------
(***************************************************************************)
(* util.py as a state machine over ONE TestInfo protobuf: the public       *)
(* operations SetTestResult, AttachInfo, AttachFactors applied in any      *)
(* order, with the read operations GetTestResult / GetAttachedInfo /       *)
(* GetAttachedFactors / GetHighestSeverity as derived values.  Used three  *)
(* ways: model-checked (invariants + action properties over all op         *)
(* sequences of bounded length), simulated to generate op sequences, and   *)
(* as the stateful trace specification TestInfoOpsTrace.tla that replays   *)
(* the recorded operations and compares the whole abstract state after     *)
(* every one (classic trace validation: the model state is carried from    *)
(* record to record).                                                      *)
(***************************************************************************)
EXTENDS TestInfo
CONSTANTS OpNames,      \* check names used by SetTestResult
          InfoNames,    \* names used by AttachInfo
          FactorIds,    \* small integers standing for factors
          MaxOps
VARIABLES ti,           \* [weak, version, entries, nf, nm1] as in TestInfo.tla
          infos,        \* sequence of [name, value] (attached_info other than the factor sets), in insertion order
          nops
mvars == <<ti, infos, nops>>
Empty == [weak |-> FALSE, version |-> "", entries |-> <<>>, nf |-> {}, nm1 |-> {}]
MInit == ti = Empty /\ infos = <<>> /\ nops = 0
HasInfo(name) == \E i \in 1..Len(infos) : infos[i].name = name
InfoIdx(name) == CHOOSE i \in 1..Len(infos) : infos[i].name = name /\ \A j \in 1..(i - 1) : infos[j].name # name
\* util.AttachInfo: overwrite the first entry of that name, else append
AttachInfoOp(name, value) ==
  /\ infos' = IF HasInfo(name) THEN [infos EXCEPT ![InfoIdx(name)] = [name |-> name, value |-> value]]
              ELSE Append(infos, [name |-> name, value |-> value])
  /\ UNCHANGED ti
SetOp(name, res, sev) == /\ ti' = SetTestResult(ti, [name |-> name, result |-> res, sev |-> sev], "LIB") /\ UNCHANGED infos
FactorsOp(field, fs) == /\ ti' = AttachFactors(ti, field, fs) /\ UNCHANGED infos
MNext == /\ nops < MaxOps /\ nops' = nops + 1
         /\ \/ \E nm \in OpNames, r \in BOOLEAN, sv \in 0..4 : SetOp(nm, r, sv)
            \/ \E nm \in InfoNames, v \in {"a", "b"} : AttachInfoOp(nm, v)
            \/ \E f \in {"nf", "nm1"}, fs \in (SUBSET FactorIds) \ {{}} : FactorsOp(f, fs)
MSpec == MInit /\ [][MNext]_mvars
\* derived reads
GetResult(name) == IF HasEntry(ti, name) THEN Entry(ti, name) ELSE [name |-> "none", result |-> FALSE, sev |-> 0]
(* invariants *)
MNoDup == NoDuplicateEntries(ti) /\ \A i, j \in 1..Len(infos) : i # j => infos[i].name # infos[j].name
MWeakIff == WeakIffPositive(ti)
MStamped == ti.entries # <<>> => ti.version = "LIB"
MHighest == HighestSeverity(ti) = (IF ~ti.weak THEN 0 - 1
                                   ELSE CHOOSE m \in 0..4 : (\E i \in 1..Len(ti.entries) : ti.entries[i].result /\ ti.entries[i].sev = m)
                                                            /\ \A i \in 1..Len(ti.entries) : ti.entries[i].result => ti.entries[i].sev <= m)
(* action properties *)
MMonotone == [][/\ ti.weak => ti'.weak
                /\ ti.nf \subseteq ti'.nf /\ ti.nm1 \subseteq ti'.nm1
                /\ Len(ti'.entries) >= Len(ti.entries)
                /\ \A i \in 1..Len(ti.entries) : /\ ti'.entries[i].name = ti.entries[i].name
                                                 /\ (ti.entries[i].result => ti'.entries[i].result)
                                                 /\ ti'.entries[i].sev >= ti.entries[i].sev
                /\ Len(infos') >= Len(infos)
                /\ \A i \in 1..Len(infos) : infos'[i].name = infos[i].name]_mvars
=============================================================================
