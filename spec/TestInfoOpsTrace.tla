------------------------- MODULE TestInfoOpsTrace -------------------------
(***************************************************************************)
(* Stateful trace validation of util.py against TestInfoMachine.tla.       *)
(* Records: ev = "start" (a fresh TestInfo), then one record per           *)
(* operation, logged after the call returns, with the operation and its    *)
(* arguments and the full projected state of the protobuf afterwards       *)
(* (obs).  The specification applies the SAME action to its own state      *)
(* (carried from record to record) and compares; on a mismatch the clause  *)
(* is recorded and the model state is resynchronised from the observation  *)
(* so that the rest of the trace is still checked.                         *)
(***************************************************************************)
EXTENDS MC_TIM, TraceBase
VARIABLE tid
ToSet(q) == {q[i] : i \in 1..Len(q)}
ObsTI(r) == [weak |-> r.obs.weak, version |-> r.obs.version, entries |-> r.obs.entries, nf |-> ToSet(r.obs.nf), nm1 |-> ToSet(r.obs.nm1)]
Apply(r) ==
  CASE r.op = "set" -> [ti |-> SetTestResult(ti, [name |-> r.name, result |-> r.result, sev |-> r.sev], "LIB"), infos |-> infos]
    [] r.op = "factors" -> [ti |-> AttachFactors(ti, r.field, ToSet(r.fs)), infos |-> infos]
    [] r.op = "info" -> [ti |-> ti,
                         infos |-> IF HasInfo(r.name) THEN [infos EXCEPT ![InfoIdx(r.name)] = [name |-> r.name, value |-> r.value]]
                                   ELSE Append(infos, [name |-> r.name, value |-> r.value])]
    [] OTHER -> [ti |-> ti, infos |-> infos]
Step(r) ==
  IF r.ev = "start" THEN ti' = Empty /\ infos' = <<>>
  ELSE LET want == Apply(r)
           got == ObsTI(r)
       IN /\ Check(tid, r, "Raised", r.raised = "none")
          /\ Check(tid, r, "WeakFlag", want.ti.weak = got.weak)
          /\ Check(tid, r, "VersionStamp", (want.ti.version = "") = (got.version = "") /\ (want.ti.version = "LIB" => r.obs.version_is_lib))
          /\ Check(tid, r, "EntriesAddOrUpdate", want.ti.entries = got.entries)
          /\ Check(tid, r, "FactorsUnion", want.ti.nf = got.nf /\ want.ti.nm1 = got.nm1)
          /\ Check(tid, r, "AttachInfoOverwriteOrAppend", want.infos = r.obs.infos)
          /\ Check(tid, r, "HighestSeverity", r.obs.highest = HighestSeverity(got))
          /\ Check(tid, r, "GetTestResultFirstMatch",
                   \A nm \in OpNames : r.obs.get[nm].present = HasEntry(got, nm)
                                       /\ (HasEntry(got, nm) => r.obs.get[nm].result = Entry(got, nm).result /\ r.obs.get[nm].sev = Entry(got, nm).sev))
          /\ ti' = got /\ infos' = r.obs.infos        \* resynchronise on the observation
TInit == MInit /\ tid = 1 /\ RegInit
TNext == /\ tid <= NRecs /\ Step(Recs[tid]) /\ tid' = tid + 1 /\ UNCHANGED nops
TSpec == TInit /\ [][TNext]_<<mvars, tid>>
=============================================================================
