-------------------------- MODULE BerlekampMassey --------------------------
(***************************************************************************)
(* C14.  Linear complexity = length of the shortest LFSR generating a bit  *)
(* sequence.                                                               *)
(*  - ShortestLfsr(s): the definition, by brute force over lengths & taps. *)
(*  - the Berlekamp-Massey state machine (connection polynomials C and B   *)
(*    as sets of exponents), one step per bit, and its functional form     *)
(*    BM(s) used by the trace specification on long sequences.             *)
(*  - the closed-form census LfsrCount / LfsrLogProbability.               *)
(***************************************************************************)
EXTENDS Naturals, Integers, Sequences, FiniteSets, TLC
CONSTANT MaxLen

Bit == {0, 1}
SymDiff2(A, B) == (A \ B) \cup (B \ A)
Shift(A, k) == {e + k : e \in A}

(* ---------- definition ---------------------------------------------------- *)
\* taps c (a function 1..L -> Bit) generate s from position L+1 on
Generates(s, L, c) ==
  \A i \in (L + 1)..Len(s) :
     s[i] = (LET RECURSIVE Acc(_)
                 Acc(j) == IF j = 0 THEN 0 ELSE (c[j] * s[i - j] + Acc(j - 1))
             IN Acc(L)) % 2
HasLfsr(s, L) == \E c \in [1..L -> Bit] : Generates(s, L, c)
ShortestLfsr(s) == CHOOSE L \in 0..Len(s) : HasLfsr(s, L) /\ \A K \in 0..(L - 1) : ~HasLfsr(s, K)

(* ---------- Berlekamp-Massey, functional form ----------------------------- *)
\* discrepancy at 0-based position n (bit s[n+1]) for connection polynomial C (0 \in C)
Disc(s, n, C) == Cardinality({e \in C : e <= n /\ s[n - e + 1] = 1}) % 2
BMStep(s, st) ==   \* st = [n, C, B, L, m]
  IF Disc(s, st.n, st.C) = 0
  THEN [st EXCEPT !.n = @ + 1, !.m = @ + 1]
  ELSE IF 2 * st.L <= st.n
       THEN [n |-> st.n + 1, C |-> SymDiff2(st.C, Shift(st.B, st.m)), B |-> st.C,
             L |-> st.n + 1 - st.L, m |-> 1]
       ELSE [st EXCEPT !.n = @ + 1, !.C = SymDiff2(st.C, Shift(st.B, st.m)), !.m = @ + 1]
BM0 == [n |-> 0, C |-> {0}, B |-> {0}, L |-> 0, m |-> 1]
RECURSIVE BMRun(_, _)
BMRun(s, st) == IF st.n = Len(s) THEN st ELSE BMRun(s, BMStep(s, st))
BM(s) == BMRun(s, BM0).L

(* ---------- closed-form census -------------------------------------------- *)
Pow(b, e) == LET RECURSIVE P(_)
                 P(k) == IF k = 0 THEN 1 ELSE b * P(k - 1)
             IN P(e)
CountFormula(n, m) == IF m < 0 \/ n <= 0 \/ m > n THEN 0
                      ELSE IF m = 0 THEN 1
                      ELSE IF m <= n \div 2 THEN 2 * Pow(4, m - 1)
                      ELSE Pow(4, n - m)
LogProbFormula(n, m) == IF m = 0 THEN 0 - n ELSE IF m <= n \div 2 THEN 2 * m - n - 1 ELSE n - 2 * m

(* ---------- the state machine --------------------------------------------- *)
VARIABLES s, st
vars == <<s, st>>
Seqs(k) == [1..k -> Bit]
Init == /\ s \in UNION {Seqs(k) : k \in 0..MaxLen}
        /\ st = BM0
Step == /\ st.n < Len(s)
        /\ st' = BMStep(s, st)
        /\ UNCHANGED s
Spec == Init /\ [][Step]_vars

\* at every position the register length is the linear complexity of the prefix read so far
PrefixCorrect == st.L = ShortestLfsr(SubSeq(s, 1, st.n))
\* the connection polynomial really generates the prefix
CGenerates == LET L == st.L
                  c == [j \in 1..L |-> IF j \in st.C THEN 1 ELSE 0]
              IN Generates(SubSeq(s, 1, st.n), L, c)
FunctionalAgrees == st.n = Len(s) => BM(s) = st.L

\* census: checked once per length (on the all-zero sequence of that length, at its end)
CensusOk == (st.n = Len(s) /\ Len(s) >= 1 /\ \A i \in 1..Len(s) : s[i] = 0) =>
              \A m \in 0..Len(s) :
                 Cardinality({x \in Seqs(Len(s)) : BM(x) = m}) = CountFormula(Len(s), m)
=============================================================================
