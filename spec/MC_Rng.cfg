SPECIFICATION Spec
CONSTANTS MaxBytes = 3
          ByteVoc <- Voc
INVARIANT RangeMaskInt
INVARIANT RangeMaskFirstBE
INVARIANT RangeMaskLastLE
CHECK_DEADLOCK FALSE
