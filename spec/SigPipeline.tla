---------------------------- MODULE SigPipeline ----------------------------
(***************************************************************************)
(* C08 / C07 / C02 / C17.  The bookkeeping of a nonce check               *)
(* (ecdsa_sig_checks.BiasedBaseCheck.Check) on a batch that INTERLEAVES   *)
(* signatures of several issuers and curves.  The batch is a sequence of  *)
(* issuer names; the code                                                 *)
(*   1. filters the batch per curve (positions Pos(c)),                   *)
(*   2. maps every issuer to its indexes INSIDE that per-curve list,      *)
(*   3. asks the lattice for guesses per issuer (abstracted: exactly the  *)
(*      issuers in Weak yield their key),                                 *)
(*   4. gets back a map per-curve-index -> key, and                       *)
(*   5. walks the per-curve list again to store one result per signature. *)
(* Steps 2, 4 and 5 talk about per-curve indexes, the caller about batch  *)
(* positions; StoreBy = "batch" models the confusion of the two (a        *)
(* realistic refactoring), which TLC refutes (MC_SigPipeline_bug.cfg).    *)
(* Every complete batch TLC reaches is printed and replayed into the real *)
(* checks; their per-signature verdicts must be Flagged(seq).             *)
(***************************************************************************)
EXTENDS Naturals, Sequences, FiniteSets, TLC, Json
CONSTANTS Issuers,        \* set of issuer names
          CurveOf,        \* issuer -> curve name
          Weak,           \* issuers whose nonces are biased beyond the margin
          Num,            \* issuer -> number of signatures in a complete batch
          StoreBy         \* "curveindex" (the code) or "batch" (the seeded confusion)
VARIABLE seq
Curves == {CurveOf[i] : i \in Issuers}
Total == LET RECURSIVE S(_)
             S(X) == IF X = {} THEN 0 ELSE LET x == CHOOSE y \in X : TRUE IN Num[x] + S(X \ {x})
         IN S(Issuers)
Count(s, t) == Cardinality({i \in 1..Len(s) : s[i] = t})
\* batch positions of curve c, in batch order
Pos(s, c) == LET RECURSIVE P(_)
                 P(i) == IF i > Len(s) THEN <<>> ELSE (IF CurveOf[s[i]] = c THEN <<i>> ELSE <<>>) \o P(i + 1)
             IN P(1)
\* step 2: issuer -> indexes inside the per-curve list
IdxOf(s, c, iss) == {j \in 1..Len(Pos(s, c)) : s[Pos(s, c)[j]] = iss}
\* step 4: per-curve indexes that received a key
KeyIdx(s, c) == UNION {IdxOf(s, c, iss) : iss \in {w \in Weak : CurveOf[w] = c}}
\* step 5: the signatures that are marked
FlaggedOn(s, c) == IF StoreBy = "curveindex" THEN {Pos(s, c)[j] : j \in KeyIdx(s, c)}
                   ELSE {i \in 1..Len(s) : CurveOf[s[i]] = c /\ i \in KeyIdx(s, c)}
Flagged(s) == UNION {FlaggedOn(s, c) : c \in Curves}

Init == seq = <<>>
Put(t) == Count(seq, t) < Num[t] /\ seq' = Append(seq, t)
Next == \E t \in Issuers : Put(t)
Spec == Init /\ [][Next]_seq

\* every prefix is itself a batch: exactly the signatures of weak issuers are marked, whatever the interleaving
ExactlyTheWeak == Flagged(seq) = {i \in 1..Len(seq) : seq[i] \in Weak}
\* one result per signature and nothing outside the batch
WithinBatch == Flagged(seq) \subseteq 1..Len(seq)
Complete == Len(seq) = Total
Emit == Complete => PrintT(<<"LAYOUT", ToJson([seq |-> seq, flagged |-> [i \in 1..Len(seq) |-> i \in Flagged(seq)]])>>)
=============================================================================
