SPECIFICATION Spec
CONSTANTS Tests <- TestsDef
          NamesOf <- NamesOfDef
          Exps <- ExpsBit
          FailAt <- FailAtBit
          RepAt <- RepAtBit
          MinReps = 1
          MaxRuns = 1
          Mode = "bitstring"
INVARIANT TypeOK
INVARIANT FailedIff
INVARIANT UndecidedIff
INVARIANT RetIffFailed
INVARIANT BitStringOnce
PROPERTY ZeroIsFatal
CHECK_DEADLOCK FALSE
