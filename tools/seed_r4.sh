#!/bin/sh
# evaluates the two round-4 changes of a property: tools/seed_r2.sh C11 [checks]   (SCRATCH=<clone of /repo> to leave /repo alone)
p=$1; extra=${2:-$p}
s=${SCRATCH:+--scratch $SCRATCH}
tools/seed_eval.py $p G /tmp/wt/$p /tmp/wt/$p-out4/A.patch.diff /tmp/wt/$p-out4/A.demo.py --checks $extra $s 2>&1 | tail -4
tools/seed_eval.py $p H /tmp/wt/$p /tmp/wt/$p-out4/B.patch.diff /tmp/wt/$p-out4/B.demo.py --checks $extra $s 2>&1 | tail -4
