#!/venv/bin/python
"""Merges suite confirmations into seeded/*/meta.json and writes seeded/INDEX.md."""
import glob
import json
import os
import re
import sys

logs = {}
for path in sys.argv[1:]:
  for line in open(path):
    m = re.match(r'^(C\d+) ([AB]) (.*) (True|False)$', line.strip())
    if m:
      logs[(m.group(1), m.group(2))] = m.group(3)
rows = []
for d in sorted(glob.glob('/verif/seeded/C*-*')):
  mp = os.path.join(d, 'meta.json')
  if not os.path.exists(mp):
    continue
  m = json.load(open(mp))
  key = (m['property'], m['label'])
  if key in logs and not m.get('suite_patched'):
    m['suite_patched'] = logs[key]
  m['confirmed'] = bool(m.get('demo_clean', {}).get('rc') == 0 and m.get('demo_patched', {}).get('rc') not in (0, None)
                        and '74 passed' in (m.get('suite_patched') or ''))
  json.dump(m, open(mp, 'w'), indent=1)
  notes = ''
  npth = os.path.join(d, 'notes.md')
  if os.path.exists(npth):
    txt = open(npth).read()
    first = [l.strip('# ').strip() for l in txt.splitlines() if l.strip()]
    notes = first[0][:160] if first else ''
  det = '; '.join('%s -> %s' % (r['cmd'].replace('./check ', '').replace(' --tier quick', ''), ','.join(r['clauses']) or 'not detected')
                  for r in m.get('ran', []))
  rows.append('| %s-%s | %s | %s | %s | %s |' % (m['property'], m['label'], notes.replace('|', '/'), (m.get('needs_to_manifest') or 'see notes.md')[:200].replace('|', '/'),
                                               'obsolete after a fix (OBSOLETE.md)' if os.path.exists(os.path.join(d, 'OBSOLETE.md')) else ('yes' if m['confirmed'] else 'demo only'), det))
with open('/verif/seeded/INDEX.md', 'w') as f:
  f.write('# Seeded changes written by independent sub-agents\n\n'
          'Each directory holds patch.diff (against /repo), demo.py (the agent\'s demonstration: exit 0 on the clean tree, non-zero with the patch),\n'
          'notes.md (the agent\'s description) and meta.json (what was run here: demo clean / patched, pinned suite with the patch, the checks and the\n'
          'clauses that rejected it). "confirmed" = demo passes clean, fails patched, and the pinned suite still shows 74 passed with the patch.\n'
          'All runs: `tools/seed_eval.py` (applies the patch to /repo, runs `./check <id> --tier quick`, reverts).\n\n'
          '| id | change | needs to manifest | confirmed | quick check -> rejecting clauses |\n|---|---|---|---|---|\n')
  f.write('\n'.join(rows) + '\n')
print(len(rows), 'rows;', sum(1 for r in rows if '| yes |' in r), 'confirmed')
