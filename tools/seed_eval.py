#!/venv/bin/python
"""Confirms a seeded change and runs the checks against it.

usage: tools/seed_eval.py <prop> <label> <worktree> <patch> <demo> [--checks C10,C17] [--tier quick]
  1. in the scratch worktree: demo passes clean, fails with the patch, the pinned test suite stays at 74 passed
  2. applies the patch to /repo, runs the named checks, reverts /repo
  3. stores patch, demo and meta.json under /verif/seeded/<prop>-<label>/
"""
import argparse
import json
import os
import re
import shutil
import subprocess
import sys
import time

ap = argparse.ArgumentParser()
ap.add_argument('prop'); ap.add_argument('label'); ap.add_argument('worktree'); ap.add_argument('patch'); ap.add_argument('demo')
ap.add_argument('--checks', default=None); ap.add_argument('--tier', default='quick'); ap.add_argument('--needs', default='')
ap.add_argument('--skip-suite', action='store_true')
ap.add_argument('--checks-only', action='store_true', help='skip the demo / suite stage (keep the recorded results)')
ap.add_argument('--scratch', default=None, help='apply the patch in this scratch clone of /repo instead of /repo itself (VERIF_REPO / VERIF_OUT are set)')
a = ap.parse_args()
checks = (a.checks or a.prop).split(',')
env = dict(os.environ, PYTHONDONTWRITEBYTECODE='1')


def sh(cmd, cwd=None, timeout=3600):
  p = subprocess.run(cmd, shell=True, cwd=cwd, env=env, capture_output=True, text=True, timeout=timeout)
  return p.returncode, (p.stdout + p.stderr)


meta = {'property': a.prop, 'label': a.label, 'needs_to_manifest': a.needs, 'ran': []}
old_meta = '/verif/seeded/%s-%s/meta.json' % (a.prop, a.label)
if os.path.exists(old_meta):
  om = json.load(open(old_meta))
  for k in ('suite_patched', 'needs_to_manifest'):
    if om.get(k) and not meta.get(k):
      meta[k] = om[k]
if a.checks_only:
  for k in ('demo_clean', 'demo_patched', 'suite_patched', 'confirmed'):
    if os.path.exists(old_meta) and k in om:
      meta[k] = om[k]
else:
  assert sh('git status --porcelain', a.worktree)[1].strip() == '', 'worktree not clean'
  rc0, out0 = sh('/venv/bin/python %s %s' % (a.demo, a.worktree), a.worktree, 1800)
  meta['demo_clean'] = {'rc': rc0, 'tail': out0[-300:]}
  rc, out = sh('git apply %s' % a.patch, a.worktree)
  assert rc == 0, out
  try:
    rc1, out1 = sh('/venv/bin/python %s %s' % (a.demo, a.worktree), a.worktree, 1800)
    meta['demo_patched'] = {'rc': rc1, 'tail': out1[-300:]}
    if not a.skip_suite:
      rcs, outs = sh('/venv/bin/python -m pytest -q -p no:cacheprovider --timeout=900 --continue-on-collection-errors 2>&1 | tail -1', a.worktree, 3000)
      meta['suite_patched'] = outs.strip()[-120:]
  finally:
    sh('git checkout -- .', a.worktree)
  meta['confirmed'] = bool(rc0 == 0 and rc1 != 0 and (a.skip_suite or '74 passed' in meta.get('suite_patched', '')))
  print('demo clean rc=%s patched rc=%s suite=%s confirmed=%s' % (rc0, rc1, meta.get('suite_patched'), meta['confirmed']), flush=True)
# run the checks against /repo (or a scratch clone of it) with the patch
TARGET = a.scratch or '/repo'
if a.scratch:
  env['VERIF_REPO'] = a.scratch
  env['VERIF_OUT'] = a.scratch + '-out'
assert sh('git status --porcelain', TARGET)[1].strip() == '', TARGET + ' not clean'
rc, out = sh('git apply %s' % a.patch, TARGET)
assert rc == 0, out
try:
  for c in checks:
    t0 = time.time()
    rcc, outc = sh('./check %s --tier %s' % (c, a.tier), os.environ.get('VERIF_ROOT', '/verif'), 7200)
    clauses = sorted(set(re.findall(r'clause=(\w+)', outc)))
    nviol = re.findall(r'violations=(\d+)', outc)
    meta['ran'].append({'cmd': './check %s --tier %s' % (c, a.tier), 'exit': rcc, 'violations': int(nviol[-1]) if nviol else None,
                        'clauses': clauses, 'first': [l for l in outc.splitlines() if l.strip().startswith('clause=')][:2],
                        'wall_s': round(time.time() - t0)})
    print(c, 'exit', rcc, 'violations', nviol[-1] if nviol else None, clauses, flush=True)
    if rcc == 2:
      print(outc[-1500:])
finally:
  sh('git checkout -- .', TARGET)
  assert sh('git status --porcelain', TARGET)[1].strip() == ''
meta['detected_by'] = [r['cmd'] for r in meta['ran'] if r['exit'] == 1]
dst = '/verif/seeded/%s-%s' % (a.prop, a.label)
os.makedirs(dst, exist_ok=True)
if os.path.abspath(a.patch) != os.path.abspath(os.path.join(dst, 'patch.diff')):
  shutil.copy(a.patch, os.path.join(dst, 'patch.diff'))
  shutil.copy(a.demo, os.path.join(dst, 'demo.py'))
notes = a.patch.replace('.patch.diff', '.notes.md')
if notes.endswith('.notes.md') and os.path.exists(notes):
  shutil.copy(notes, os.path.join(dst, 'notes.md'))
json.dump(meta, open(os.path.join(dst, 'meta.json'), 'w'), indent=1)
print('stored', dst)
