#!/bin/sh
# Re-runs every seeded change against the quick check of its property (and related ones) in a scratch clone of /repo.
# /repo and the committed evidence are not touched.  usage: tools/seed_matrix.sh [ids...]
S=/tmp/repo-matrix
rm -rf $S $S-out; git clone -q /repo $S || exit 1
cd /verif
for d in ${@:-$(ls -d seeded/C*-* | sed 's|seeded/||')}; do
  p=${d%-*}; x=${d#*-}
  extra=$p
  case $d in C01-B) extra=C01,C04;; C07-A) extra=C07,C06;; C16-B) extra=C16,C17;; C10-A) extra=C10,C17;; C17-A) extra=C17,C10;; C17-B) extra=C17,C05;; esac
  tools/seed_eval.py $p $x /nonexistent /verif/seeded/$d/patch.diff /verif/seeded/$d/demo.py --checks $extra --checks-only --scratch $S 2>&1 | grep -v "^stored" | tail -3
done
rm -rf $S $S-out
tools/seed_index.py
