#!/bin/sh
# Re-runs every seeded change against the quick check of its property (and related ones) in scratch clones of /repo, LANES at a time.
# /repo and the committed evidence are not touched.  usage: [LANES=3] tools/seed_matrix.sh [ids...]
LANES=${LANES:-3}
cd /verif
# the checks run from a snapshot of /verif, so that work on the harness does not disturb a matrix in progress
export VERIF_ROOT=/tmp/verif-snap
rm -rf $VERIF_ROOT; mkdir -p $VERIF_ROOT; rsync -a --exclude .git --exclude replays --exclude seeded /verif/ $VERIF_ROOT/
ALL="${@:-$(ls -d seeded/C*-* | sed 's|seeded/||')}"
lane() {
  k=$1; shift
  S=/tmp/repo-matrix-$k
  rm -rf $S $S-out; git clone -q /repo $S || exit 1
  for d in "$@"; do
    [ -f seeded/$d/OBSOLETE.md ] && continue
    p=${d%-*}; x=${d#*-}
    extra=$p
    case $d in C01-B) extra=C01,C04;; C07-A) extra=C07,C06;; C16-B) extra=C16,C17;; C10-A) extra=C10,C17;; C17-A) extra=C17,C10;; C17-B) extra=C17,C05;;
      C11-C) extra=C11,C06;; C06-D) extra=C06,C11;; C01-D) extra=C01,C16;; C02-C) extra=C02,C10;; C17-C) extra=C17,C10;; C08-D) extra=C08,C09;;
      C12-D) extra=C12,C14;; C07-C|C07-D) extra=C07,C17;; C01-E) extra=C01,C04;; C07-E|C07-F) extra=C07,C06;; C18-F) extra=C18,C16;;
      C17-E) extra=C17,C16;; C17-F) extra=C17,C10;; C09-F) extra=C09,C11;; C13-E|C13-F) extra=C13,C12;; C10-F) extra=C10,C17;; esac
    echo "== $d"
    tools/seed_eval.py $p $x /nonexistent /verif/seeded/$d/patch.diff /verif/seeded/$d/demo.py --checks $extra --checks-only --scratch $S 2>&1 | grep -v "^stored" | tail -3
  done > /tmp/matrix-lane-$k.log 2>&1
  rm -rf $S $S-out
}
i=0
for k in $(seq 1 $LANES); do eval "L$k="; done
for d in $ALL; do i=$(( i % LANES + 1 )); eval "L$i=\"\$L$i $d\""; done
for k in $(seq 1 $LANES); do eval "lane $k \$L$k" & done
wait
rm -rf $VERIF_ROOT
tools/seed_index.py
