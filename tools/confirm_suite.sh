#!/bin/sh
# confirms "74 passed" for a seeded patch in its scratch worktree and records it in meta.json
# usage: confirm_suite.sh <prop> <label> <worktree> <patch>
cd "$3" || exit 1
git apply "$4" || exit 1
res=$(/venv/bin/python -m pytest -q -p no:cacheprovider --timeout=900 --continue-on-collection-errors 2>&1 | tail -1)
git checkout -- .
/venv/bin/python - "$1" "$2" "$res" <<'PY'
import json, sys
p='/verif/seeded/%s-%s/meta.json' % (sys.argv[1], sys.argv[2])
m=json.load(open(p)); m['suite_patched']=sys.argv[3][-120:]; m['confirmed']=bool(m.get('demo_clean',{}).get('rc')==0 and m.get('demo_patched',{}).get('rc')!=0 and '74 passed' in sys.argv[3])
json.dump(m, open(p,'w'), indent=1); print(sys.argv[1], sys.argv[2], m['suite_patched'], m['confirmed'])
PY
