#!/bin/sh
# Offline setup: nothing to fetch. Builds the Berlekamp-Massey shared objects from /repo and smoke-tests TLC.
cd "$(dirname "$0")" || exit 1
mkdir -p build evidence replays
export PYTHONDONTWRITEBYTECODE=1 PYTHONPATH="$PWD/harness:/repo"
/venv/bin/python -c "from pv import shim; print(shim.build_bm('clmul')); print(shim.build_bm('portable'))" || exit 1
java -cp /opt/veriftools/tla/tla2tools.jar tlc2.TLC -h >/dev/null 2>&1
exit 0
