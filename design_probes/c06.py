import pb2shim, bmshim; pb2shim.install(); bmshim.install('/tmp/probe/bm_clmul.so')
from absl import logging; logging.set_verbosity(logging.FATAL)
import random, gmpy2, hashlib
from paranoid_crypto import paranoid_pb2 as pb
from paranoid_crypto.lib import rsa_single_checks as rsc, roca, util, ec_util
from paranoid_crypto.lib import ec_single_checks as esc
from paranoid_crypto.lib.data import storage, data_pb2
rnd = random.Random(23); bad = 0
def key(n, e=65537, nlead=0, elead=0):
    k = pb.RSAKey(); k.rsa_info.n = bytes(nlead) + util.Int2Bytes(n); k.rsa_info.e = bytes(elead) + util.Int2Bytes(e); return k
def res(k, name): return [t.result for t in k.test_info.test_results if t.test_name == name][0]
# sizes / exponents
for n, want in ((2**2047, False), (2**2047 - 1, True), (2**2048 - 1, False), (2**2046 + 1, True), (2**63, True), (2**4095 + 7, False)):
    for lead in (0, 3):
        k = key(n, nlead=lead); rsc.CheckSizes().Check([k])
        if res(k, 'CheckSizes') != want: bad += 1; print('SIZES', n.bit_length(), lead)
for e, want in ((65537, False), (1, True), (3, True), (65536, True), (65539, True), (2**32 + 1, True), (2**64 + 65537, True)):
    for lead in (0, 2):
        k = key(2**2047 + 5, e, elead=lead); rsc.CheckExponents().Check([k])
        if res(k, 'CheckExponents') != want: bad += 1; print('EXP', e, lead)
k = key(2**2047 + 5); k.rsa_info.e = b''; rsc.CheckExponents().Check([k]); print('empty exponent flagged:', res(k, 'CheckExponents'))
# ROCA: independent criterion
P39 = [3, 5, 7, 11, 13, 17, 19, 23, 29, 31, 37, 41, 43, 47, 53, 59, 61, 67, 71, 73, 79, 83, 89, 97, 101, 103, 107, 109, 113, 127, 131, 137, 139, 149, 151, 157, 163, 167, 173]
P48 = [p for p in range(5, 230) if gmpy2.is_prime(p)]
assert len(P48) == 48 and len(P39) == 39
def roca_ref(n): return all((n % p) in {pow(65537, i, p) for i in range(p)} for p in P39)
def variant_ref(n): return all((n % p) in {i * i % p for i in range(p)} for p in P48) and not roca_ref(n)
M = 1
for p in P39: M *= p
def roca_prime(L):
    while True:
        p = rnd.getrandbits(L - M.bit_length()) * M + pow(65537, rnd.randrange(1, 10**6), M)
        if p.bit_length() == L and gmpy2.is_prime(p): return p
fc, fv = roca.ROCAKeyDetector(), roca.ROCAKeyVariantDetector()
M48 = 1
for p in P48: M48 *= p
cnt = {'roca': 0, 'variant': 0, 'rand': 0}
for i in range(40):
    n = roca_prime(512) * roca_prime(512); cnt['roca'] += 1
    if fc.IsWeak(n) != roca_ref(n) or not fc.IsWeak(n) or fv.IsWeak(n) != variant_ref(n): bad += 1; print('ROCA', i)
for i in range(200):
    n = rnd.getrandbits(1024) | (1 << 1023) | 1; cnt['rand'] += 1
    if fc.IsWeak(n) != roca_ref(n) or fv.IsWeak(n) != variant_ref(n): bad += 1; print('RAND', i)
# variant-structured: n = square mod M48 (CRT trivial: n = t^2 mod M48 + k*M48)
for i in range(100):
    t = rnd.randrange(1, M48); n = (t * t) % M48 + rnd.getrandbits(700) * M48; cnt['variant'] += 1
    if fv.IsWeak(n) != variant_ref(n) or fc.IsWeak(n) != roca_ref(n): bad += 1; print('VAR', i)
    if not variant_ref(n) and not roca_ref(n): print('generator gave non-variant?')
print('roca/variant bad', bad, cnt, 'variant flagged', sum(fv.IsWeak((rnd.randrange(1, M48) ** 2) % M48 + rnd.getrandbits(700) * M48) for _ in range(50)), '/ 50')
# openssl denylist via custom storage
class St(storage.Storage):
    def __init__(self, lst): self.lst = lst
    def GetUnseededRands(self, size): return frozenset()
    def GetKeypairData(self): return data_pb2.KeypairData()
    def GetOpensslDenylist(self): return self.lst
ns = [rnd.getrandbits(b) | (1 << (b - 1)) | 1 for b in (1024, 2048, 4096, 2047)]
fp = lambda n: 'RSA-%d:%s' % (n.bit_length(), hashlib.sha1(('Modulus=%X\n' % n).encode()).hexdigest()[20:])
chk = rsc.CheckOpensslDenylist(St({fp(ns[0]), fp(ns[1]), 'RSA-4096:' + fp(ns[1]).split(':')[1]}))
for n, want in zip(ns, (True, True, False, False)):
    k = key(n); chk.Check([k])
    if res(k, 'CheckOpensslDenylist') != want: bad += 1; print('DENY', n.bit_length())
print('bad', bad)
