---- MODULE ChecksTrace ----
(* Trace specification (dry run) for the RSA bookkeeping: every recorded step must be the
   specification's step — SetTestResult semantics applied per (check, artifact) with a verdict
   allowed by the criterion of the artifact's class. *)
EXTENDS Naturals, Sequences, FiniteSets, TLC, Json, IOUtils
Recs == ndJsonDeserialize(IOEnv.TRACE_FILE)
Arts == {"a1", "a2", "a3"}
Sev == [c \in {"CheckSizes", "CheckExponents", "CheckROCAVariant"} |-> 2] @@ [c \in {"CheckROCA"} |-> 3] @@ [c \in {"CheckGCDN1"} |-> 0]
SevOf(c) == IF c \in DOMAIN Sev THEN Sev[c] ELSE 4
\* criterion: "must" / "mustnot" / "may"
Crit(c, cl) == CASE cl = "healthy" -> "mustnot"
                 [] cl = "small"   -> IF c = "CheckSizes" THEN "must" ELSE "mustnot"
                 [] cl = "fermat"  -> IF c = "CheckFermat" THEN "must"
                                      ELSE IF c \in {"CheckHighAndLowBitsEqual", "CheckSmallUpperDifferences"} THEN "may" ELSE "mustnot"
VARIABLES tid, ti
vars == <<tid, ti>>
Empty == [weak |-> FALSE, stamped |-> FALSE, results |-> <<>>]
Pos(rs, nm) == IF \E i \in 1..Len(rs) : rs[i].name = nm THEN CHOOSE i \in 1..Len(rs) : rs[i].name = nm ELSE 0
Max2(a, b) == IF a > b THEN a ELSE b
SetTestResult(t, e) ==
  LET t1 == [t EXCEPT !.stamped = TRUE, !.weak = @ \/ e.result]
      i == Pos(t1.results, e.name)
  IN IF i # 0 THEN [t1 EXCEPT !.results[i].result = @ \/ e.result, !.results[i].sev = Max2(@, e.sev)]
     ELSE [t1 EXCEPT !.results = Append(@, e)]
\* observed verdict of check c on artifact a after the step (entries are monotone, so a positive
\* observed entry that was negative before means the check said "true" in this step)
ObsResult(r, a, c) == LET rs == r.after[a].results i == Pos(rs, c) IN IF i = 0 THEN FALSE ELSE rs[i].result
\* apply the sequence of checks to the batch, choosing for "may" the observed outcome
RECURSIVE ApplyBatch(_, _, _, _)
ApplyBatch(t, c, batch, r) ==
  IF batch = <<>> THEN t
  ELSE LET a == Head(batch)
           cr == Crit(c, r.cls[a])
           prev == LET i == Pos(t[a].results, c) IN IF i = 0 THEN FALSE ELSE t[a].results[i].result
           v == IF cr = "must" THEN TRUE ELSE IF cr = "mustnot" THEN FALSE ELSE (ObsResult(r, a, c) /\ ~prev) \/ (ObsResult(r, a, c) /\ prev)
       IN ApplyBatch([t EXCEPT ![a] = SetTestResult(t[a], [name |-> c, result |-> v, sev |-> SevOf(c)])], c, Tail(batch), r)
RECURSIVE ApplyChecks(_, _, _)
ApplyChecks(t, cs, r) == IF cs = <<>> THEN t ELSE ApplyChecks(ApplyBatch(t, Head(cs), r.batch, r), Tail(cs), r)
Proj(o) == [weak |-> o.weak, stamped |-> o.stamped, results |-> o.results]
Fail(r, clause) == TLCSet(1, Append(TLCGet(1), [step |-> r.step, clause |-> clause]))
Init == tid = 1 /\ ti = [a \in Arts |-> Empty] /\ TLCSet(1, <<>>)
Next == /\ tid <= Len(Recs)
        /\ LET r == Recs[tid]
               want == ApplyChecks(ti, r.checks, r)
               got == [a \in Arts |-> Proj(r.after[a])]
               wantRet == \E i \in 1..Len(r.batch) : \E k \in 1..Len(r.checks) :
                            Crit(r.checks[k], r.cls[r.batch[i]]) = "must" \/ (Crit(r.checks[k], r.cls[r.batch[i]]) = "may" /\ ObsResult(r, r.batch[i], r.checks[k]))
           IN /\ IF r.raised # "none" THEN Fail(r, "Total") ELSE TRUE
              /\ IF got # want THEN Fail(r, "BookkeepingStep") ELSE TRUE
              /\ IF r.ret # wantRet THEN Fail(r, "ReturnIffSomePositive") ELSE TRUE
              /\ IF \E a \in Arts : \E i \in 1..Len(r.after[a].factors) : ~r.after[a].factors[i].divides THEN Fail(r, "FactorsSound") ELSE TRUE
              /\ IF \E a \in Arts : r.after[a].factors # <<>> /\ ~r.after[a].weak THEN Fail(r, "FactorsImplyWeak") ELSE TRUE
              /\ IF \E a \in Arts : ~r.after[a].version_ok THEN Fail(r, "VersionStamp") ELSE TRUE
              /\ ti' = got          \* resynchronise on the observed state so later steps are still checked
        /\ tid' = tid + 1
Spec == Init /\ [][Next]_vars
Post == /\ PrintT(<<"CONSUMED", TLCGet("stats").diameter - 1, "OF", Len(Recs)>>)
        /\ \A i \in 1..Len(TLCGet(1)) : PrintT(<<"FAIL", ToJson(TLCGet(1)[i])>>)
====
