import sys; sys.path[:0] = ['/tmp/probe', '/repo']
import pb2shim, bmshim; pb2shim.install(); bmshim.install('/tmp/probe/bm_clmul.so')
from absl import logging; logging.set_verbosity(logging.FATAL)
import random, gmpy2, json, ast
from paranoid_crypto import paranoid_pb2 as pb, version
from paranoid_crypto.lib import paranoid, util
rnd = random.Random(3)
def rp(L):
    while True:
        p = rnd.getrandbits(L) | (3 << (L-2)) | 1
        if gmpy2.is_prime(p): return int(p)
def key(n, e=65537):
    k = pb.RSAKey(); k.rsa_info.n = util.Int2Bytes(n); k.rsa_info.e = util.Int2Bytes(e); return k
p = rp(1024)
arts = {'a1': ('healthy', rp(1024) * rp(1024)), 'a2': ('small', rp(512) * rp(512)), 'a3': ('fermat', p * int(gmpy2.next_prime(p + 2**200)))}
keys = {a: key(n) for a, (_, n) in arts.items()}
checks = paranoid.GetRSAAllChecks(); order = list(checks)
def project(a):
    ti = keys[a].test_info; n = arts[a][1]; facs = []
    for ai in ti.attached_info:
        if ai.info_name == 'N_FACTORS':
            for hx in sorted(ast.literal_eval(ai.value)):
                f = int(hx, 16); facs.append({'divides': n % f == 0, 'proper': 1 < f < n})
    return {'weak': ti.weak, 'version_ok': ti.paranoid_lib_version in ('', version.__version__), 'stamped': ti.paranoid_lib_version != '',
            'results': [{'name': t.test_name, 'result': t.result, 'sev': int(t.severity)} for t in ti.test_results], 'factors': facs}
out = open('/tmp/probe/ct/trace.ndjson', 'w'); step = 0
def emit(ev, names, batch, ret, raised):
    global step; step += 1
    out.write(json.dumps({'step': step, 'ev': ev, 'checks': names, 'batch': batch, 'ret': ret, 'raised': raised,
                          'cls': {a: arts[a][0] for a in arts}, 'after': {a: project(a) for a in arts}}) + '\n')
def run(names, batch):
    ret = False; raised = 'none'
    try:
        for nm in names: ret |= bool(checks[nm].Check([keys[a] for a in batch]))
    except Exception as e: raised = type(e).__name__
    emit('check', names, batch, ret, raised)
run(['CheckSizes'], ['a1', 'a2'])
run(['CheckFermat'], ['a3', 'a3'])
run(order, ['a3', 'a1', 'a2'])
run(['CheckFermat', 'CheckSizes'], ['a2', 'a3'])
run(order, ['a1'])
run(order, [])
out.close(); print('steps', step, 'order', order)
