import pb2shim, bmshim; pb2shim.install(); bmshim.install('/tmp/probe/bm_clmul.so')
import random, gmpy2, sys, time
from paranoid_crypto import paranoid_pb2 as pb
from paranoid_crypto.lib import rsa_util, rsa_single_checks as rsc, util
rnd = random.Random(12)
def randprime(L):
    while True:
        p = rnd.getrandbits(L) | (1 << (L-1)) | (1 << (L-2)) | 1
        if gmpy2.is_prime(p): return gmpy2.mpz(p)
def repeat_word(word, w, L):
    v = 0; k = 0
    while k < L:
        v |= word << k; k += w
    return v & ((1 << L) - 1)
def pattern_prime(L, w, dev):
    for attempt in range(200):
        word = rnd.getrandbits(w) | (1 << (w-1))
        base = repeat_word(word, w, L)
        if base >> (L-2) != 3 and w > 2: 
            # want top two bits set so n has 2L bits; rotate word choice
            continue
        for _ in range(3000):
            p = (base >> dev << dev) | rnd.getrandbits(dev) | 1
            if gmpy2.is_prime(p): return gmpy2.mpz(p)
    return None
def key(n):
    k = pb.RSAKey(); k.rsa_info.n = util.Int2Bytes(int(n)); k.rsa_info.e = b'\x01\x00\x01'; return k
chk = rsc.CheckBitPatterns()
sizes = list(range(1,16,2)) + [31,63,127,255,511] + [8,16,32,64,128,256]
for bits in (1024, 2048, 4096):
    L = bits//2; miss = tot = 0; t0=time.time()
    for w in sorted(sizes):
        if w > bits // 16 or w < 3: continue
        for dev in (16, 32):
            for rep in range(2):
                p = pattern_prime(L, w, dev)
                if p is None: print('nogen', bits, w, dev); continue
                q = randprime(L); n = p*q
                if n.bit_length() != bits: continue
                k = key(n); r = chk.Check([k]); tot += 1
                if not r: miss += 1; print('MISS pattern', bits, w, dev)
    print('patterns', bits, 'miss', miss, '/', tot, round(time.time()-t0,1),'s', flush=True)
