import pb2shim, bmshim; pb2shim.install(); bmshim.install('/tmp/probe/bm_clmul.so')
import random, gmpy2
from paranoid_crypto import paranoid_pb2 as pb
from paranoid_crypto.lib import rsa_util, paranoid, special_case_factoring as scf, util, linalg_util
from paranoid_crypto.lib.randomness_tests import nist_suite, rng, util as rutil
# 1 empty batch
for f in (paranoid.CheckAllRSA, paranoid.CheckAllEC, paranoid.CheckAllECDSASigs):
    try: print(f.__name__, f([]))
    except Exception as e: print(f.__name__, 'RAISES', type(e).__name__, e)
try: print(rsa_util.BatchGCD([]))
except Exception as e: print('BatchGCD([]) RAISES', type(e).__name__, e)
# 2 FactorWithGuess misses
rnd = random.Random(1)
def randprime(bits):
    while True:
        p = rnd.getrandbits(bits) | (1 << (bits-1)) | 1
        if gmpy2.is_prime(p): return gmpy2.mpz(p)
miss = 0; N = 60
for _ in range(N):
    L = 512
    p = randprime(L); q = gmpy2.next_prime(p + 2**(L-100))
    n = p*q
    r = rsa_util.CheckSmallUpperDifferences(n)
    if not r: miss += 1
print('CheckSmallUpperDifferences misses', miss, '/', N)
# 3 cusum reverse
def ref_cusum(bits, n):
    xs = [1 if (bits >> i) & 1 else -1 for i in range(n)]
    S=[0]
    for x in xs: S.append(S[-1]+x)
    fwd = max(abs(s) for s in S[1:])
    bwd = max(abs(S[n]-S[j]) for j in range(0,n))
    return fwd, bwd
bad=0; tot=0
for _ in range(2000):
    n = rnd.randrange(8, 300); b = rnd.getrandbits(n)
    pv = dict(nist_suite.RandomWalk(b, n))
    f, bw = ref_cusum(b, n)
    ef = nist_suite.CumulativeSumsPValue(n, f); eb = nist_suite.CumulativeSumsPValue(n, bw)
    tot+=1
    if abs(pv['cumulative sums forward']-ef)>1e-12 or abs(pv['cumulative sums reverse']-eb)>1e-12: bad+=1
print('cusum mismatches', bad, '/', tot)
# 5 trunclcg 63 bits
g = rng.GetRng('trunclcg32')
for n in (63, 61, 33, 7):
    v = g.RandomBits(n, seed=12345); print('trunclcg32 n=%d bitlen=%d'%(n, v.bit_length()))
j = rng.GetRng('java')
for n in (63, 61, 33, 7):
    v = j.RandomBits(n, seed=12345); print('java n=%d bitlen=%d'%(n, v.bit_length()))
# all rngs range check
for name in rng.RngNames():
    g = rng.GetRng(name); bad=[]
    for n in list(range(1,130))+[257,1000,1023]:
        v = g.RandomBits(n, seed=77)
        if not (0 <= v < 2**n): bad.append(n)
    if bad: print('RANGE', name, bad[:10], len(bad))
# 4 linalg
from fractions import Fraction
bad=0; tot=0
for _ in range(20000):
    m = rnd.randrange(2,6); ncol = rnd.randrange(1, m+1)
    x = [rnd.randrange(-3,4) for _ in range(ncol)]
    a = [[rnd.randrange(-2,3) for _ in range(ncol)] for _ in range(m)]
    if rnd.random()<0.5: a[rnd.randrange(m)] = [0]*ncol
    b = [sum(ai*xi for ai,xi in zip(row,x)) for row in a]
    a0=[r[:] for r in a]; b0=b[:]
    try:
        s = linalg_util.solve_right(a, b)
    except Exception as e:
        bad+=1; continue
    tot+=1
    if s is not None:
        ok = all(sum(Fraction(int(ai))*Fraction(int(si.numerator), int(si.denominator)) for ai,si in zip(row,s))==bi for row,bi in zip(a0,b0))
        if not ok: bad+=1
print('linalg wrong', bad, '/', tot)
