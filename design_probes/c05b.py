import pb2shim, bmshim; pb2shim.install(); bmshim.install('/tmp/probe/bm_clmul.so')
from absl import logging; logging.set_verbosity(logging.FATAL)
import random, gmpy2, sys, time
from paranoid_crypto import paranoid_pb2 as pb
from paranoid_crypto.lib import rsa_util, rsa_single_checks as rsc, util
rnd = random.Random(13)
def randprime(L):
    while True:
        p = rnd.getrandbits(L) | (1 << (L-1)) | (1 << (L-2)) | 1
        if gmpy2.is_prime(p): return gmpy2.mpz(p)
def repeat_word(word, w, L):
    v = 0; k = 0
    while k < L:
        v |= word << k; k += w
    return v & ((1 << L) - 1)
def key(n):
    k = pb.RSAKey(); k.rsa_info.n = util.Int2Bytes(int(n)); k.rsa_info.e = b'\x01\x00\x01'; return k
def res(k, name):
    return [t.result for t in k.test_info.test_results if t.test_name==name][0]
which = sys.argv[1]
if which == 'cf':
    chk = rsc.CheckContinuedFractions()
    for bits in (1024, 2048, 4096):
        L = bits//2; miss=tot=nofac=0
        for w1, w2 in [(8,8),(16,24),(32,32),(64,64),(40,64),(63,7)]:
            for rep in range(3):
                def pp(w):
                    for _ in range(100000):
                        word = rnd.getrandbits(w) | (1<<(w-1))
                        base = repeat_word(word, w, L)
                        # allow low 16 bits deviation to find a prime
                        for _ in range(300):
                            p = (base >> 16 << 16) | rnd.getrandbits(16) | 1
                            if gmpy2.is_prime(p): return gmpy2.mpz(p)
                p = pp(w1); q = pp(w2); n = p*q
                k = key(n); chk.Check([k]); tot+=1
                if not res(k,'CheckContinuedFractions'): miss+=1; print('MISS cf', bits, w1, w2)
                elif not util.GetAttachedFactors(k.test_info,'N_FACTORS'): nofac+=1
        print('cf', bits, 'miss', miss, 'nofactors', nofac, '/', tot, flush=True)
if which == 'lhw':
    chk = rsc.CheckLowHammingWeight()
    for bits in (1024, 2048):
        L = bits//2; miss=tot=nofac=0
        for h1,h2 in [(8,8),(16,16),(16,32),(24,24),(32,32),(32,32)]:
            def hp(h):
                while True:
                    p = (1<<(L-1)) | 1
                    for pos in rnd.sample(range(1,L-1), h-2): p |= 1<<pos
                    if gmpy2.is_prime(p): return gmpy2.mpz(p)
            p=hp(h1); q=hp(h2); n=p*q; k=key(n); t0=time.time(); chk.Check([k]); tot+=1
            ok = res(k,'CheckLowHammingWeight'); fac = util.GetAttachedFactors(k.test_info,'N_FACTORS')
            print('lhw', bits, h1, h2, ok, bool(fac), round(time.time()-t0,1), flush=True)
if which == 'pm1':
    chk = rsc.CheckPollardpm1()
    from paranoid_crypto.lib import ntheory_util
    primes = ntheory_util.Sieve(2**20)
    def smooth(minbits):
        v = 1
        while v.bit_length() < minbits: v *= rnd.choice(primes[100:])
        return v
    for bits in (1024, 2048):
        L = bits//2
        for shared_bits in (61, 70):
          for mode in ('p','both'):
            s = smooth(shared_bits)
            def sp(Lb, smoothall):
                # p = 2*s*r + 1 ; r smooth (product of primes < 2^20) if smoothall else random
                while True:
                    if smoothall:
                        r = smooth(Lb - s.bit_length() - 2)
                        r <<= max(0, Lb - 1 - (2*s*r).bit_length())
                    else:
                        r = rnd.getrandbits(Lb - s.bit_length() - 1) | (1 << (Lb - s.bit_length() - 2))
                    p = 2*s*r + 1
                    if p.bit_length()==Lb and gmpy2.is_prime(p): return gmpy2.mpz(p)
            p = sp(L, True); q = sp(L, mode=='both'); n = p*q; k = key(n); chk.Check([k])
            print('pm1', bits, shared_bits, mode, res(k,'CheckPollardpm1'), bool(util.GetAttachedFactors(k.test_info,'N_FACTORS')), flush=True)
