import pb2shim, bmshim; pb2shim.install(); bmshim.install('/tmp/probe/bm_clmul.so')
from absl import logging; logging.set_verbosity(logging.FATAL)
import random, gmpy2, itertools, time
from paranoid_crypto import paranoid_pb2 as pb
from paranoid_crypto.lib import paranoid, util, ec_util
from paranoid_crypto.lib import ec_single_checks as esc, ec_aggregate_checks as eac
rnd = random.Random(41)
def rp(L):
    while True:
        p = rnd.getrandbits(L) | (3 << (L-2)) | 1
        if gmpy2.is_prime(p): return int(p)
def key(n, e=65537):
    k = pb.RSAKey(); k.rsa_info.n = util.Int2Bytes(n); k.rsa_info.e = util.Int2Bytes(e); return k
p = rp(1024)
mods = {'healthy1': rp(1024)*rp(1024), 'healthy2': rp(1024)*rp(1024), 'small': rp(512)*rp(512), 'fermat': p*int(gmpy2.next_prime(p + 2**300)), 'exp3': (rp(1024)*rp(1024), 3),
        'even': 2*rp(2047), 'square': rp(1024)**2, 'shared_a': p*rp(1024), 'shared_b': p*rp(1024)}
def fresh(): return {k: key(*v) if isinstance(v, tuple) else key(v) for k, v in mods.items()}
def view(k):
    return tuple(sorted((t.test_name, t.result, t.severity) for t in k.test_info.test_results)), tuple(sorted((a.info_name, a.value) for a in k.test_info.attached_info)), k.test_info.weak
single = set(paranoid.GetRSASingleChecks())
def single_view(k):
    v = view(k); return tuple(x for x in v[0] if x[0] in single)
solo = {}
for name in mods:
    ks = fresh(); paranoid.CheckAllRSA([ks[name]]); solo[name] = single_view(ks[name])
bad = 0
for trial in range(6):
    ks = fresh(); order = list(mods); rnd.shuffle(order)
    if trial % 2: order = order + [order[0]]   # a duplicate object at the end
    paranoid.CheckAllRSA([ks[n] for n in order])
    for name in mods:
        if single_view(ks[name]) != solo[name]: bad += 1; print('RSA single verdict differs', name, set(single_view(ks[name])) ^ set(solo[name]))
    gcdpos = {n for n in mods if any(t.test_name == 'CheckGCD' and t.result for t in ks[n].test_info.test_results)}
    if gcdpos != {'shared_a', 'shared_b'}: bad += 1; print('GCD set', gcdpos)
print('rsa bad', bad)
# EC
C = pb.CurveType
def eck(cid, d):
    c = ec_util.CURVE_FACTORY[cid]; Q = c.Multiply(c.g, d % int(c.n)); k = pb.ECKey(); k.ec_info.curve_type = cid; k.ec_info.x = util.Int2Bytes(int(Q[0])); k.ec_info.y = util.Int2Bytes(int(Q[1])); return k
d0 = rnd.randrange(1, 2**255)
spec = {'h256': (C.CURVE_SECP256R1, rnd.randrange(1, 2**255)), 'small256': (C.CURVE_SECP256R1, 0xdeadbeef << 40), 'rep384': (C.CURVE_SECP384R1, sum(0x12345679 << (32*i) for i in range(5))),
        'diffa': (C.CURVE_SECP256R1, d0), 'diffb': (C.CURVE_SECP256R1, d0 + 1000), 'h384': (C.CURVE_SECP384R1, rnd.randrange(1, 2**383)), 'k1': (C.CURVE_SECP256K1, rnd.randrange(1, 2**255)), 'weakcurve': (C.CURVE_SECP192R1, rnd.randrange(1, 2**190))}
def ecfresh(): return {k: eck(*v) for k, v in spec.items()}
checks = [esc.CheckValidECKey(), esc.CheckWeakCurve(), esc.CheckWeakECPrivateKey(), eac.CheckECKeySmallDifference(max_diff=2**12)]
def ecview(k): return tuple(sorted((t.test_name, t.result, t.severity) for t in k.test_info.test_results if t.test_name != 'CheckECKeySmallDifference')), tuple(sorted((a.info_name, a.value) for a in k.test_info.attached_info if a.info_name == 'DISCRETE_LOG'))
t0 = time.time(); esolo = {}
for name in spec:
    ks = ecfresh()
    for c in checks: c.Check([ks[name]])
    esolo[name] = ecview(ks[name])
for trial in range(4):
    ks = ecfresh(); order = list(spec); rnd.shuffle(order)
    for c in (checks if trial % 2 else checks[::-1]): c.Check([ks[n] for n in order])
    for name in spec:
        if ecview(ks[name]) != esolo[name]: bad += 1; print('EC single verdict differs', name)
    dpos = {n for n in spec if any(t.test_name == 'CheckECKeySmallDifference' and t.result for t in ks[n].test_info.test_results)}
    if dpos != {'diffa', 'diffb'}: bad += 1; print('DIFF set', dpos)
print('bad', bad, round(time.time() - t0), 's', {n: [x for x in v[0] if x[1]] for n, v in esolo.items()})
