import pb2shim, bmshim; pb2shim.install(); bmshim.install('/tmp/probe/bm_clmul.so')
from absl import logging; logging.set_verbosity(logging.FATAL)
import random, gmpy2, time, hashlib, secrets
from paranoid_crypto import paranoid_pb2 as pb
from paranoid_crypto.lib import paranoid, ec_util, util
from paranoid_crypto.lib import ec_single_checks as esc, ec_aggregate_checks as eac
rnd = random.SystemRandom()
def rp(L):
    while True:
        p = rnd.getrandbits(L) | (1 << (L-1)) | (1 << (L-2)) | 1
        if gmpy2.is_prime(p): return int(p)
t0 = time.time(); keys = []
for bits in (2048,)*100 + (3072,)*30 + (4096,)*20:
    k = pb.RSAKey(); k.rsa_info.n = util.Int2Bytes(rp(bits//2) * rp(bits//2)); k.rsa_info.e = b'\x01\x00\x01'; keys.append(k)
print('gen', round(time.time() - t0), 's', flush=True)
t0 = time.time(); r = paranoid.CheckAllRSA(keys)
print('CheckAllRSA', r, [(t.test_name) for k in keys for t in k.test_info.test_results if t.result], round(time.time() - t0), 's', flush=True)
C = pb.CurveType
sigs = []
for cid in (C.CURVE_SECP256R1, C.CURVE_SECP384R1, C.CURVE_SECP256K1):
    c = ec_util.CURVE_FACTORY[cid]; n = int(c.n)
    for issuer in range(2):
        d = rnd.randrange(1, n); Q = c.Multiply(c.g, d)
        for i in range(30):
            h = hashlib.sha256(secrets.token_bytes(16)).digest(); z = int(c.TransformOrderLen(int.from_bytes(h, 'big'), 256))
            k = rnd.randrange(1, n); R = c.Multiply(c.g, k); r_ = int(R[0]) % n; s_ = pow(k, -1, n) * (z + r_ * d) % n
            g = pb.ECDSASignature(); g.ecdsa_sig_info.r = util.Int2Bytes(r_); g.ecdsa_sig_info.s = util.Int2Bytes(s_); g.ecdsa_sig_info.message_hash = h
            g.issuer_key_info.curve_type = cid; g.issuer_key_info.x = util.Int2Bytes(int(Q[0])); g.issuer_key_info.y = util.Int2Bytes(int(Q[1])); sigs.append(g)
rnd.shuffle(sigs)
t0 = time.time()
checks = {k: v for k, v in paranoid.GetECDSAAllChecks().items() if k != 'CheckIssuerKey'}
res = {k: v.Check(sigs) for k, v in checks.items()}
print('ECDSA', res, round(time.time() - t0), 's', flush=True)
eck = []
for cid, c in ec_util.CURVE_FACTORY.items():
    if c is None or c.n.bit_length() < 224: continue
    for i in range(5):
        d = rnd.randrange(1, int(c.n)); Q = c.Multiply(c.g, d); k = pb.ECKey(); k.ec_info.curve_type = cid; k.ec_info.x = util.Int2Bytes(int(Q[0])); k.ec_info.y = util.Int2Bytes(int(Q[1])); eck.append(k)
t0 = time.time()
print('EC', esc.CheckValidECKey().Check(eck), esc.CheckWeakCurve().Check(eck), eac.CheckECKeySmallDifference(max_diff=2**16).Check(eck), esc.CheckWeakECPrivateKey().Check(eck), round(time.time() - t0), 's', flush=True)
