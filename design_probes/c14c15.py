import pb2shim, bmshim; pb2shim.install(); bmshim.install('/tmp/probe/bm_clmul.so')
import ctypes, random, itertools, time
from paranoid_crypto.lib.randomness_tests import berlekamp_massey as bm, util
port = ctypes.CDLL('/tmp/probe/bm_portable.so'); port.bm_lfsr_length.argtypes=[ctypes.c_char_p, ctypes.c_long, ctypes.c_int]; port.bm_lfsr_length.restype=ctypes.c_int
def lc_port(s, n):
    ba = s.to_bytes((n+7)//8, 'little'); return port.bm_lfsr_length(ba, len(ba), n)
def bm_ref(bits):
    n=len(bits); C=[1]+[0]*n; B=[1]+[0]*n; L=0; m=1
    for i in range(n):
        d = bits[i]
        for j in range(1, L+1): d ^= C[j] & bits[i-j]
        if d:
            T = C[:]
            for j in range(n+1-m):
                C[j+m] ^= B[j]
            if 2*L <= i: L = i+1-L; B = T; m = 1
            else: m += 1
        else: m += 1
    return L
rnd = random.Random(2); bad = 0; t0=time.time()
for n in range(0, 15):
    for s in range(2**n):
        r = bm_ref([(s>>i)&1 for i in range(n)])
        a, b, c = bm.LinearComplexity(s, n), bm.LinearComplexityNative(s, n), lc_port(s, n)
        if not (a == b == c == r): bad += 1; print('BM MISMATCH', n, s, a, b, c, r)
for n in list(range(50, 330)) + [511,512,513,1023,1024,1025]:
    for cls in range(6):
        if cls == 0: s = rnd.getrandbits(n)
        elif cls == 1: s = 0
        elif cls == 2: s = (1<<n)-1
        elif cls == 3: s = 1 << rnd.randrange(n)
        elif cls == 4: s = rnd.getrandbits(n) >> rnd.randrange(n) << rnd.randrange(8)  & ((1<<n)-1)
        else:
            per = rnd.getrandbits(rnd.randrange(1, 20)) | 1; pl = per.bit_length(); s = 0
            for k in range(0, n, pl): s |= per << k
            s &= (1<<n)-1
        a, b, c = bm.LinearComplexity(s, n), bm.LinearComplexityNative(s, n), lc_port(s, n)
        if not (a == b == c): bad += 1; print('BM MISMATCH', n, cls, a, b, c)
        elif n < 200 and a != bm_ref([(s>>i)&1 for i in range(n)]): bad += 1; print('BM REF MISMATCH', n, cls)
print('bm bad', bad, round(time.time()-t0,1))
# counts
from collections import Counter
for n in range(1, 13):
    cen = Counter(bm.LinearComplexityNative(s, n) for s in range(2**n))
    for m in range(-1, n+2):
        if bm.LfsrCount(n, m) != cen.get(m, 0): bad += 1; print('COUNT MISMATCH', n, m, bm.LfsrCount(n,m), cen.get(m,0))
        if 0 <= m <= n and cen.get(m,0) and 2**n != cen[m] * 2**(-bm.LfsrLogProbability(n, m)) : bad += 1; print('LOGPROB MISMATCH', n, m)
print('count bad', bad)
# C15
def bitsof(s, n): return [(s>>i)&1 for i in range(n)]
def fc_ref(s, n, m, wrap):
    b = bitsof(s, n); res=[0]*2**m
    rng_ = range(n) if wrap else range(n-m+1)
    for i in rng_:
        v = 0
        for j in range(m): v |= b[(i+j) % n] << j
        res[v] += 1
    return res
bad15 = 0
for n in range(1, 13):
    for s in range(2**n):
        b = bitsof(s, n)
        for m in range(1, n+1):
            for wrap in (True, False):
                if util.FrequencyCount(s, n, m, wrap) != fc_ref(s, n, m, wrap): bad15 += 1; print('FC', n, s, m, wrap)
                if sorted(util.SubSequences(s, n, m, wrap)) != sorted(v for v, c in enumerate(fc_ref(s, n, m, wrap)) for _ in range(c)): bad15 += 1; print('SS', n, s, m, wrap)
            if util.SplitSequence(s, n, m) != [sum(b[k*m+j] << j for j in range(m)) for k in range(n//m)]: bad15 += 1; print('SPLIT', n, s, m)
            if util.Scatter(s, m) != [sum(b[i+k*m] << k for k in range((n - i + m - 1)//m)) for i in range(m)]: bad15 += 1; print('SCATTER', n, s, m, util.Scatter(s,m))
            if util.OverlappingRunsOfOnes(s, m) != sum(all(b[i+j] for j in range(m)) for i in range(n-m+1)): bad15 += 1; print('OVR', n, s, m)
        runs = sum(1 for i in range(n) if i == 0 or b[i] != b[i-1])
        if util.Runs(s, n) != runs: bad15 += 1; print('RUNS', n, s, util.Runs(s,n), runs)
        lr = max([0] + [k for i in range(n) for k in range(1, n-i+1) if all(b[i:i+k])])
        if util.LongestRunOfOnes(s) != lr: bad15 += 1; print('LR', n, s)
        if util.ReverseBits(s, n) != sum(b[i] << (n-1-i) for i in range(n)): bad15 += 1; print('REV', n, s)
        if list(util.Bits(s, n)) != [1 if x else -1 for x in b]: bad15 += 1; print('BITS', n, s)
print('c15 small bad', bad15)
for _ in range(300):
    n = rnd.randrange(100, 5000); s = rnd.getrandbits(n); m = rnd.randrange(1, 7); wrap = rnd.random() < .5
    if util.FrequencyCount(s, n, m, wrap) != fc_ref(s, n, m, wrap): bad15 += 1; print('FC long', n, m, wrap)
def rank_ref(rows):
    rows = rows[:]; r = 0
    for bit in reversed(range(max([x.bit_length() for x in rows] + [0]))):
        piv = next((i for i in range(r, len(rows)) if (rows[i] >> bit) & 1), None)
        if piv is None: continue
        rows[r], rows[piv] = rows[piv], rows[r]
        for i in range(len(rows)):
            if i != r and (rows[i] >> bit) & 1: rows[i] ^= rows[r]
        r += 1
    return r
for (R, Cc) in [(0,0),(1,1),(49,49),(50,50),(50,10),(31,64),(32,64),(255,200),(256,256),(300,100)]:
    for dens in (0.5, 0.02):
        for dep in (0, 5):
            rows = [sum((rnd.random() < dens) << j for j in range(Cc)) for _ in range(R)]
            for _ in range(min(dep, R)):
                if R >= 2: i, j = rnd.randrange(R), rnd.randrange(R); rows[i] = rows[j] ^ rows[rnd.randrange(R)]
            if util.BinaryMatrixRank(rows) != rank_ref(rows): bad15 += 1; print('RANK', R, Cc, dens, dep)
print('c15 bad', bad15)
