import pb2shim, bmshim; pb2shim.install(); bmshim.install('/tmp/probe/bm_clmul.so')
from absl import logging; logging.set_verbosity(logging.FATAL)
import itertools, re
from paranoid_crypto.lib import ec_util
p, a, b, g, q = 73, 0, 13, (4, 2), 67
ref = None; bad = 0; cases = 0
for maxdiff in (1, 2, 3, 5, 8, 16, 30):
    for pre in (None, 40):         # optionally enlarge the cached table first through BatchDL
        c = ec_util.EcCurve('t', a, b, p, g[0], g[1], q)
        tab = [c.MultiplyAffine(c.g, k) for k in range(q)]
        if pre: c.BatchDL([tab[5]], pre)
        for k1, k2 in itertools.product(range(1, q), repeat=2):
            res = c.BatchDLOfDifferences([tab[k1], tab[k2]], max_diff=maxdiff); cases += 1
            d = (k1 - k2) % q; small = 0 < min(d, q - d) < maxdiff
            if k1 == k2:
                if res != [None, None]: bad += 1; print('SELF', k1, res)
                continue
            if small and (res[0] is None or res[1] is None): bad += 1; print('MISS', maxdiff, pre, k1, k2, res)
            for r, (me, other) in zip(res, ((k1, k2), (k2, k1))):
                if r is not None:
                    m = re.match(r'key - \((\w+), (\w+)\) = (-?\d+) \* G', r); x, y, k = int(m.group(1), 16), int(m.group(2), 16), int(m.group(3))
                    if (x, y) != tuple(map(int, tab[other])) or (me - other - k) % q != 0: bad += 1; print('UNSOUND', k1, k2, r)
        # with history list
        res = c.BatchDLOfDifferences([tab[10]], other_points=[tab[10 + min(maxdiff - 1, 3)] if maxdiff > 1 else tab[30]], max_diff=maxdiff)
print('cases', cases, 'bad', bad)
