import pb2shim, bmshim; pb2shim.install(); bmshim.install('/tmp/probe/bm_clmul.so')
import random, gmpy2, sys
from paranoid_crypto.lib import rsa_util, special_case_factoring as scf, ntheory_util
def FWG_fixed(n, p_0):
    q_0 = n // p_0
    bits = n.bit_length(); shift = max(0, (bits // 3) - 52)
    bound = int((int(n) >> (3 * shift)) ** (1 / 3)) << shift
    for _, u, v in ntheory_util.ContinuedFraction(p_0, q_0):
        if abs(u * q_0 - v * p_0) < bound:
            d = 4 * u * v * n
            a = gmpy2.isqrt(d)
            if a * a < d: a += 1
            if gmpy2.is_square(a * a - d):
                b = gmpy2.isqrt(a * a - d)
                g = gmpy2.gcd(a + b, n)
                if 1 < g < n: return [g, n // g]
    return None
rnd = random.Random(int(sys.argv[1]) if len(sys.argv)>1 else 1)
def randprime(bits):
    while True:
        p = rnd.getrandbits(bits) | (1 << (bits-1)) | 1
        if gmpy2.is_prime(p): return gmpy2.mpz(p)
for L in (384, 512, 1024):
  for e in (100,128,160,256,2,3):
    miss0=miss1=0; N=40
    for _ in range(N):
        p = randprime(L); q = gmpy2.next_prime(p + 2**(L-e)); n=p*q
        if n.bit_length()//2 != L: continue
        r0 = rsa_util.CheckSmallUpperDifferences(n)
        scf_orig = scf.FactorWithGuess
        scf.FactorWithGuess = FWG_fixed
        r1 = rsa_util.CheckSmallUpperDifferences(n)
        scf.FactorWithGuess = scf_orig
        miss0 += (not r0); miss1 += (not r1)
    print(L, e, 'orig misses', miss0, 'fixed misses', miss1, '/', N)
