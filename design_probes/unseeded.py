import pb2shim, bmshim; pb2shim.install(); bmshim.install('/tmp/probe/bm_clmul.so')
from absl import logging; logging.set_verbosity(logging.FATAL)
import random, gmpy2, time
from paranoid_crypto import paranoid_pb2 as pb
from paranoid_crypto.lib import rsa_single_checks as rsc, special_case_factoring as scf, ntheory_util, util
from paranoid_crypto.lib.data import unseeded_rands
exec(open('/tmp/probe/fwg.py').read().split("rnd = random.Random")[0].split("def FWG_fixed")[1].join(["def FWG_fixed", ""]) if False else "")
def FWG_fixed(n, p_0):
    q_0 = n // p_0
    bits = n.bit_length(); shift = max(0, (bits // 3) - 52)
    bound = int((int(n) >> (3 * shift)) ** (1 / 3)) << shift
    for _, u, v in ntheory_util.ContinuedFraction(p_0, q_0):
        if abs(u * q_0 - v * p_0) < bound:
            d = 4 * u * v * n
            a = gmpy2.isqrt(d)
            if a * a < d: a += 1
            if gmpy2.is_square(a * a - d):
                b = gmpy2.isqrt(a * a - d)
                g = gmpy2.gcd(a + b, n)
                if 1 < g < n: return [g, n // g]
    return None
rnd = random.Random(31)
print({k: len(v) for k, v in unseeded_rands.size_unseeded_map.items()})
def key(n):
    k = pb.RSAKey(); k.rsa_info.n = util.Int2Bytes(int(n)); k.rsa_info.e = b'\x01\x00\x01'; return k
chk = rsc.CheckUnseededRand()
orig = scf.FactorWithGuess
for psize, vals in unseeded_rands.size_unseeded_map.items():
    vals = sorted(vals); sample = rnd.sample(vals, min(25, len(vals)))
    m0 = m1 = tot = 0; t0 = time.time()
    for v in sample:
        for variant in (0, 1, 2):
            p0 = v | (0 if variant == 0 else (1 << (psize - 1)) if variant == 1 else (3 << (psize - 2)))
            if p0.bit_length() != psize: continue
            p = gmpy2.next_prime(p0)
            while True:
                q = gmpy2.next_prime(rnd.getrandbits(psize) | (1 << (psize - 1)))
                n = p * q
                if (n.bit_length() + 1) // 2 == psize: break
            tot += 1
            scf.FactorWithGuess = orig; r0 = chk.Check([key(n)])
            scf.FactorWithGuess = FWG_fixed; r1 = chk.Check([key(n)])
            m0 += (not r0); m1 += (not r1)
    scf.FactorWithGuess = orig
    print('psize', psize, 'instances', tot, 'orig misses', m0, 'fixed misses', m1, round(time.time() - t0, 1), 's', flush=True)
