import sys; sys.path[:0] = ['/tmp/probe', '/repo']
import pb2shim; pb2shim.install()
import json, re, random, gmpy2
from paranoid_crypto.lib import rsa_util
rnd = random.Random(5)
def rp(L):
    while True:
        p = rnd.getrandbits(L) | (1 << (L-1)) | 1
        if gmpy2.is_prime(p): return gmpy2.mpz(p)
P = {'p1': rp(256), 'p2': rp(300), 'p3': rp(200)}
def val(bag):
    v = gmpy2.mpz(1)
    for k, e in bag.items(): v *= P[k] ** e
    return v
def tobag(g):
    out = {}
    for k, p in P.items():
        e = 0
        while g % p == 0: g //= p; e += 1
        out[k] = e
    return out if g == 1 else None
bad = exc = 0; n = 0
for line in open('/tmp/probe/gen/scn.txt'):
    js = json.loads(json.loads('"' + re.search(r'"SCN", "(.*)">>', line).group(1) + '"'))
    vals = [val(b) for b in js['batch']]
    n += 1
    try: res = rsa_util.BatchGCD(vals)
    except Exception as e: exc += 1; continue
    if [tobag(g) for g in res] != js['expected']: bad += 1; print('MISMATCH', js, res) if bad < 4 else None
print('scenarios', n, 'mismatch', bad, 'exceptions', exc)
