---- MODULE BagGen ----
EXTENDS Naturals, Sequences, FiniteSets, TLC, Json
Primes == {"p1", "p2", "p3"}
Bags == {b \in [Primes -> 0..2] : \E p \in Primes : b[p] > 0}
Min(a, b) == IF a < b THEN a ELSE b
VARIABLE batch
Init == batch \in UNION {[1..k -> Bags] : k \in 0..3}
Next == UNCHANGED batch
Spec == Init /\ [][Next]_batch
\* expected gcd of value i with the product of the other DISTINCT values
Distinct == {batch[i] : i \in DOMAIN batch}
OthersSum(i) == [p \in Primes |-> LET S == Distinct \ {batch[i]} IN
                   IF S = {} THEN 0 ELSE
                   LET RECURSIVE Acc(_)
                       Acc(T) == IF T = {} THEN 0 ELSE LET x == CHOOSE y \in T : TRUE IN x[p] + Acc(T \ {x})
                   IN Acc(S)]
Expected(i) == [p \in Primes |-> Min(batch[i][p], OthersSum(i)[p])]
Emit == PrintT(<<"SCN", ToJson([batch |-> batch, expected |-> [i \in DOMAIN batch |-> Expected(i)]])>>)
====
