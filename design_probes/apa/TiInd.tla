---- MODULE TiInd ----
EXTENDS Integers, Sequences, FiniteSets, Apalache
\* Inductive-invariant check of the TestInfo bookkeeping for ONE artifact and arbitrary history.
Names == {"S1", "S2", "J1"}
VARIABLES
  \* @type: Bool;
  weak,
  \* @type: Seq({name: Str, result: Bool, sev: Int});
  results,
  \* @type: Str;
  version
\* @type: (Seq({name: Str, result: Bool, sev: Int}), Str) => Int;
Find(rs, nm) == IF \E i \in DOMAIN rs : rs[i].name = nm
                THEN CHOOSE i \in DOMAIN rs : rs[i].name = nm
                ELSE 0
\* @type: (Int, Int) => Int;
Max2(a, b) == IF a > b THEN a ELSE b
\* @type: ({name: Str, result: Bool, sev: Int}) => Bool;
SetTestResult(e) ==
  /\ version' = IF version = "" THEN "v" ELSE version
  /\ weak' = (weak \/ e.result)
  /\ LET i == Find(results, e.name) IN
     IF i # 0
     THEN results' = [results EXCEPT ![i] = [name |-> results[i].name, result |-> (results[i].result \/ e.result), sev |-> Max2(results[i].sev, e.sev)]]
     ELSE results' = Append(results, e)
TypeOK == /\ weak \in BOOLEAN /\ version \in {"", "v"}
          /\ Len(results) <= 3
          /\ \A i \in DOMAIN results : results[i].name \in Names /\ results[i].result \in BOOLEAN /\ results[i].sev \in 0..4
NoDup == \A i, j \in DOMAIN results : results[i].name = results[j].name => i = j
WeakIff == weak <=> \E i \in DOMAIN results : results[i].result
Stamped == results # <<>> => version = "v"
IndInv == TypeOK /\ NoDup /\ WeakIff /\ Stamped
IndInit == /\ weak = Gen(1) /\ results = Gen(3) /\ version = Gen(1) /\ IndInv
Init == weak = FALSE /\ results = <<>> /\ version = ""
Next == \E nm \in Names, r \in BOOLEAN, sv \in 0..4 : SetTestResult([name |-> nm, result |-> r, sev |-> sv])
====
