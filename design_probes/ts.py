import pb2shim, bmshim; pb2shim.install(); bmshim.install('/tmp/probe/bm_clmul.so')
import random, math, mpmath
from paranoid_crypto.lib.randomness_tests import random_test_suite as rts
mpmath.mp.dps = 50
def Q(k, S):  # regularized upper gamma, integer k
    S = mpmath.mpf(S)
    return mpmath.e**(-S) * sum(S**i / mpmath.factorial(i) for i in range(k))
ln2 = mpmath.log(2)
PF = mpmath.mpf('1e-9'); R = 7  # p_repeat = 2^-7
def failthr(k):
    E = 0
    while Q(k, ln2*E) >= PF: E += 1
    return E
FT = {k: failthr(k) for k in range(1, 8)}
print(FT, [float(Q(k, ln2*FT[k])) for k in FT], [float(Q(k, ln2*(FT[k]-1))) for k in FT])
r = random.Random(9); mism = 0; tot = 0
for _ in range(3000):
    seq = [r.choice([0,1,2,3,5,7,8,10,15,20,29,30,31,35,40]) for _ in range(r.randrange(1,8))]
    it = iter(seq)
    ts = rts.TestStructure(lambda bits, n: 2.0**-next(it), [], 1e-9, 2.0**-R)
    S = 0
    for k, e in enumerate(seq, 1):
        ts.Run(0, 0); S += e
        if k == 1: fail = (2.0**-e < 1e-9)
        else: fail = S >= FT[k]
        exp = 'FAILED' if fail else ('PASSED' if S < k*R else 'UNDECIDED')
        got = ts.state['result'].name
        tot += 1
        if exp != got: mism += 1; print('MISMATCH', seq[:k], exp, got, ts.combined_p_values)
print('mismatch', mism, '/', tot)
