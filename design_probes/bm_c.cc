#include "paranoid_crypto/lib/randomness_tests/cc_util/berlekamp_massey.h"
extern "C" int bm_lfsr_length(const unsigned char* p, long size, int n) {
  return paranoid_crypto::lib::randomness_tests::cc_util::LfsrLengthStr(std::string((const char*)p, size), n);
}
