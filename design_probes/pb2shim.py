"""Prototype: build paranoid_pb2 / data_pb2 at import time from the .proto text (no protoc)."""
import re, sys, types, os
from google.protobuf import descriptor_pb2, descriptor_pool, message_factory, symbol_database
from google.protobuf.internal import enum_type_wrapper

SCALARS = {'bytes': 12, 'string': 9, 'bool': 8, 'uint64': 4, 'int32': 5, 'int64': 3, 'uint32': 13}

def parse_proto(text, name):
    text = re.sub(r'//[^\n]*', '', text)
    fdp = descriptor_pb2.FileDescriptorProto()
    fdp.name = name
    fdp.syntax = 'proto3'
    fdp.package = re.search(r'package\s+([\w.]+)\s*;', text).group(1)
    enums = set()
    for m in re.finditer(r'enum\s+(\w+)\s*\{([^}]*)\}', text):
        e = fdp.enum_type.add(); e.name = m.group(1); enums.add(e.name)
        for v in re.finditer(r'(\w+)\s*=\s*(\d+)\s*;', m.group(2)):
            ev = e.value.add(); ev.name = v.group(1); ev.number = int(v.group(2))
    for m in re.finditer(r'message\s+(\w+)\s*\{([^}]*)\}', text):
        msg = fdp.message_type.add(); msg.name = m.group(1)
        for f in re.finditer(r'(repeated\s+)?(map<\s*(\w+)\s*,\s*(\w+)\s*>|[\w.]+)\s+(\w+)\s*=\s*(\d+)\s*;', m.group(2)):
            rep, typ, mk, mv, fname, num = f.groups()
            fd = msg.field.add(); fd.name = fname; fd.number = int(num)
            fd.json_name = re.sub(r'_(\w)', lambda x: x.group(1).upper(), fname)
            if mk:
                ent = msg.nested_type.add(); ent.name = ''.join(p.capitalize() for p in fname.split('_')) + 'Entry'
                ent.options.map_entry = True
                k = ent.field.add(); k.name='key'; k.number=1; k.type=SCALARS[mk]; k.label=1; k.json_name='key'
                v = ent.field.add(); v.name='value'; v.number=2; v.type=SCALARS[mv]; v.label=1; v.json_name='value'
                fd.label = 3; fd.type = 11; fd.type_name = '.%s.%s.%s' % (fdp.package, msg.name, ent.name)
                continue
            fd.label = 3 if rep else 1
            if typ in SCALARS: fd.type = SCALARS[typ]
            elif typ in enums: fd.type = 14; fd.type_name = '.%s.%s' % (fdp.package, typ)
            else: fd.type = 11; fd.type_name = '.%s.%s' % (fdp.package, typ)
    return fdp

def build_module(modname, proto_path, relname):
    fdp = parse_proto(open(proto_path).read(), relname)
    pool = descriptor_pool.Default()
    fd = pool.AddSerializedFile(fdp.SerializeToString())
    mod = types.ModuleType(modname)
    mod.DESCRIPTOR = fd
    for name, ed in fd.enum_types_by_name.items():
        w = enum_type_wrapper.EnumTypeWrapper(ed)
        setattr(mod, name, w)
        for v in ed.values: setattr(mod, v.name, v.number)
    for name, md in fd.message_types_by_name.items():
        setattr(mod, name, message_factory.MessageFactory(pool).GetPrototype(md))
    sys.modules[modname] = mod
    return mod

def install(repo='/repo'):
    import paranoid_crypto, paranoid_crypto.lib.data
    m = build_module('paranoid_crypto.paranoid_pb2', os.path.join(repo,'paranoid_crypto/paranoid.proto'), 'paranoid_crypto/paranoid.proto')
    paranoid_crypto.paranoid_pb2 = m
    d = build_module('paranoid_crypto.lib.data.data_pb2', os.path.join(repo,'paranoid_crypto/lib/data/data.proto'), 'paranoid_crypto/lib/data/data.proto')
    paranoid_crypto.lib.data.data_pb2 = d
