import pb2shim, bmshim; pb2shim.install(); bmshim.install('/tmp/probe/bm_clmul.so')
from paranoid_crypto.lib.randomness_tests import random_test_suite as rts, nist_suite
import random, warnings, math
warnings.simplefilter('error')
r = random.Random(3)
def strings(n):
    yield 'zeros', 0
    yield 'ones', (1<<n)-1
    yield 'alt', int(('10'*n)[:n],2)
    yield 'one1', 1
    yield 'rand', r.getrandbits(n)
    yield 'period3', int(('110'*n)[:n],2)
for n in (1, 8, 100, 128, 1000, 6272, 2**16, 2**20):
    for name, s in strings(n):
        for test, params in rts.NIST_TESTS + rts.EXTENDED_NIST_TESTS:
            try:
                res = test(s, n, *params)
                vals = [res] if isinstance(res,(int,float)) else [p for _,p in res]
                badv = [v for v in vals if not (0 <= v <= 1) or math.isnan(v)]
                if badv: print('RANGE', n, name, test.__name__, params, badv[:3])
            except nist_suite.InsufficientDataError: pass
            except Exception as e:
                print('EXC', n, name, test.__name__, params, type(e).__name__, str(e)[:60])
