---- MODULE EcProbe ----
EXTENDS Integers, Sequences, FiniteSets, TLC
CONSTANTS P, A, B, GX, GY, Q
Inf == <<-1, -1>>
Inv(x) == CHOOSE y \in 1..(P-1) : (x * y) % P = 1
OnCurve(pt) == pt = Inf \/ ((pt[2] * pt[2] - (pt[1] * pt[1] * pt[1] + A * pt[1] + B)) % P = 0)
Add(p1, p2) ==
  IF p1 = Inf THEN p2 ELSE IF p2 = Inf THEN p1 ELSE
  IF p1[1] = p2[1] /\ (p1[2] + p2[2]) % P = 0 THEN Inf ELSE
  LET lam == IF p1 = p2 THEN ((3 * p1[1] * p1[1] + A) * Inv((2 * p1[2]) % P)) % P
                         ELSE ((p2[2] - p1[2]) * Inv((p2[1] - p1[1]) % P)) % P
      x3 == (lam * lam - p1[1] - p2[1]) % P
      y3 == (lam * (p1[1] - x3) - p1[2]) % P
  IN <<x3, y3>>
Neg(pt) == IF pt = Inf THEN Inf ELSE <<pt[1], (-pt[2]) % P>>
G == <<GX, GY>>
\* k |-> k*G built iteratively as a function (no deep recursion)
Mults[k \in 0..Q] == IF k = 0 THEN Inf ELSE Add(Mults[k-1], G)
Pts == {Mults[k] : k \in 0..(Q-1)}
Log(pt) == CHOOSE k \in 0..(Q-1) : Mults[k] = pt
ASSUME /\ Mults[Q] = Inf
       /\ Cardinality(Pts) = Q
       /\ \A pt \in Pts : OnCurve(pt)
VARIABLES acc
Init == acc \in Pts
Next == \E pt \in Pts : acc' = Add(acc, pt)
Spec == Init /\ [][Next]_acc
Homo == Log(acc) \in 0..(Q-1)
HomoStep == [][\E k \in 0..(Q-1) : acc' = Add(acc, Mults[k]) /\ Log(acc') = (Log(acc) + k) % Q]_acc
====
