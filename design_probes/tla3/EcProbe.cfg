SPECIFICATION Spec
CONSTANTS P = 73
          A = 0
          B = 13
          GX = 4
          GY = 2
          Q = 67
INVARIANT Homo
PROPERTY HomoStep
CHECK_DEADLOCK FALSE
