---- MODULE TraceProbe ----
EXTENDS Naturals, Sequences, TLC, Json, IOUtils
Recs == ndJsonDeserialize(IOEnv.TRACE_FILE)
VARIABLES tid
\* definitional spec: popcount of a bit sequence
RECURSIVE Pop(_)
Pop(s) == IF s = <<>> THEN 0 ELSE Head(s) + Pop(Tail(s))
Verdict(r) == IF r.raised # "none" THEN "Total"
              ELSE IF r.obs.count # Pop(r.args.bits) THEN "PopCountDef"
              ELSE "ok"
Init == tid = 1 /\ TLCSet(1, <<>>)
Next == /\ tid <= Len(Recs)
        /\ LET v == Verdict(Recs[tid]) IN
           IF v = "ok" THEN TRUE ELSE TLCSet(1, Append(TLCGet(1), [tid |-> tid, sid |-> Recs[tid].sid, clause |-> v]))
        /\ tid' = tid + 1
Spec == Init /\ [][Next]_tid
Post == /\ PrintT(<<"CONSUMED", TLCGet("stats").diameter - 1, "OF", Len(Recs)>>)
        /\ \A i \in 1..Len(TLCGet(1)) : PrintT(<<"FAIL", ToJson(TLCGet(1)[i])>>)
        /\ TLCGet("stats").diameter - 1 = Len(Recs)
====
