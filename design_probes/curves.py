import gmpy2
def pts(p,a,b):
    sq = {}
    for y in range(p): sq.setdefault(y*y%p, []).append(y)
    out=[]
    for x in range(p):
        for y in sq.get((x*x*x+a*x+b)%p, []): out.append((x,y))
    return out
def add(P,Q,p,a):
    if P is None: return Q
    if Q is None: return P
    if P[0]==Q[0] and (P[1]+Q[1])%p==0: return None
    lam = ((3*P[0]*P[0]+a)*pow(2*P[1],-1,p) if P==Q else (Q[1]-P[1])*pow(Q[0]-P[0],-1,p))%p
    x=(lam*lam-P[0]-Q[0])%p; return (x,(lam*(P[0]-x)-P[1])%p)
def order(P,p,a):
    k=1; R=P
    while R is not None: R=add(R,P,p,a); k+=1
    return k
found = {'prime_a_m3':[], 'prime_a0':[], 'prime_gen':[], 'cof2':[], 'cof4':[]}
for p in range(59, 260):
    if not gmpy2.is_prime(p): continue
    for a in [p-3, 0] + list(range(1,6)):
        for b in range(1, p):
            if (4*a**3+27*b*b)%p==0: continue
            P = pts(p,a,b); n=len(P)+1
            kind=None
            if gmpy2.is_prime(n) and n!=p: kind = 'prime_a_m3' if a==p-3 else 'prime_a0' if a==0 else 'prime_gen'; q=n; h=1
            elif n%2==0 and gmpy2.is_prime(n//2) and n//2>40: kind='cof2'; q=n//2; h=2
            elif n%4==0 and gmpy2.is_prime(n//4) and n//4>30: kind='cof4'; q=n//4; h=4
            if kind and len(found[kind])<3:
                g = next(pt for pt in P if order(pt,p,a)==q)
                found[kind].append(dict(p=p,a=a,b=b,g=g,q=q,h=h))
            if all(len(v)>=3 for v in found.values()): break
for k,v in found.items(): print(k, v)
