import pb2shim, bmshim; pb2shim.install(); bmshim.install('/tmp/probe/bm_clmul.so')
from absl import logging; logging.set_verbosity(logging.FATAL)
import random, gmpy2, time
from paranoid_crypto import paranoid_pb2 as pb
from paranoid_crypto.lib import rsa_single_checks as rsc, util
rnd = random.Random(17)
def randprime(L):
    while True:
        p = rnd.getrandbits(L) | (3 << (L-2)) | 1
        if gmpy2.is_prime(p): return gmpy2.mpz(p)
def key(n):
    k = pb.RSAKey(); k.rsa_info.n = util.Int2Bytes(int(n)); k.rsa_info.e = b'\x01\x00\x01'; return k
def permuted_prime(L, psize, wsize, dev):
    for attempt in range(400):
        pat = rnd.getrandbits(psize) | 1 | (1 << (psize - 1))
        v = 0; k = 0
        while k < L + 2 * wsize: v |= pat << k; k += psize
        v >>= rnd.randrange(psize)
        limbs = [(v >> (wsize * i)) & ((1 << wsize) - 1) for i in range(L // wsize)]
        for i in range(0, len(limbs) - 1, 2): limbs[i], limbs[i + 1] = limbs[i + 1], limbs[i]
        base = sum(l << (wsize * i) for i, l in enumerate(limbs))
        base |= 3 << (L - 2)
        for _ in range(600):
            p = (base >> dev << dev) | rnd.getrandbits(dev) | 1
            if gmpy2.is_prime(p): return gmpy2.mpz(p)
    return None
chk = rsc.CheckPermutedBitPatterns(); chk2 = rsc.CheckBitPatterns()
for bits in (1024, 2048, 4096):
    L = bits // 2
    for wsize in (8, 16, 32, 64):
        for psize in range(3, wsize, 2):
            d = (2**psize - 1) * (2**(psize * wsize) + 1) // (2**wsize + 1)
            if d.bit_length() > bits // 10: break
            ok = tot = ok2 = 0
            for rep in range(2):
                p = permuted_prime(L, psize, wsize, 16)
                if p is None: continue
                n = p * randprime(L); tot += 1
                ok += chk.Check([key(n)]); ok2 += chk2.Check([key(n)])
            print(bits, 'wsize', wsize, 'psize', psize, 'dbits', d.bit_length(), 'permuted-check', ok, '/', tot, 'plain-pattern-check', ok2, flush=True)
