import pb2shim, bmshim; pb2shim.install(); bmshim.install('/tmp/probe/bm_clmul.so')
import random, math
from fractions import Fraction
from paranoid_crypto.lib import ntheory_util as nt
from paranoid_crypto.lib.randomness_tests import rng, lattice_suite
bad = 0
for line in open('/tmp/probe/java/jdk.txt'):
    seed, n, hx = line.split(); seed = int(seed); n = int(n)
    if rng.GetRng('java').RandomBits(n, seed=seed) != int(hx, 16): bad += 1; print('JAVA MISMATCH', seed, n)
print('java bad', bad)
# purity/range for all seeded rngs
for name in rng.RngNames():
    g = rng.GetRng(name)
    if name.startswith('subsetsum') or name == 'urandom':
        for n in (1, 7, 64, 65, 300):
            v = g.RandomBits(n)
            if not 0 <= v < 2**n: bad += 1; print('RANGE', name, n)
        continue
    for n in list(range(1, 70)) + [127, 128, 129, 1000]:
        for seed in (1, 2**70 + 5):
            v1 = g.RandomBits(n, seed=seed); g.RandomBits(13, seed=seed + 1); v2 = g.RandomBits(n, seed=seed)
            if v1 != v2: bad += 1; print('IMPURE', name, n, seed)
            if not 0 <= v1 < 2**n and not name.startswith('trunclcg'): bad += 1; print('RANGE', name, n, seed)
print('rng bad', bad)
# trunclcg stream vs recurrence
for w in (16, 20, 28, 32, 64, 128):
    g = rng.TruncLcgRand(w); seed = 123456789; st = seed; out = 0; nb = (w + 7)//8
    ba = bytearray()
    for j in range(10):
        st = (st * g.a + g.c) % 2**(2*w); ba += (st >> w).to_bytes(nb, 'little')
    n = 8 * len(ba)
    if g.RandomBits(n, seed=seed) != int.from_bytes(ba, 'little'): bad += 1; print('TRUNCLCG STREAM', w)
print('trunclcg stream bad', bad)
# C19 2-adic
for k in range(0, 11):
    for n in range(0, 2**max(k,1) * 2):
        inv = nt.Inverse2exp(n, k) if k >= 1 else None
        if k >= 1:
            if n % 2 == 0:
                if inv is not None: bad += 1; print('INV even', n, k)
            elif inv is None or inv * n % 2**k != 1 % 2**k: bad += 1; print('INV', n, k, inv)
        isq = nt.InverseSqrt2exp(n, k)
        sols = [a for a in range(2**k) if a*a*n % 2**k == 1 % 2**k]
        if (isq is None) != (not sols): bad += 1; print('ISQRT exist', n, k, isq, sols[:3])
        elif isq is not None and isq % 2**k not in sols: bad += 1; print('ISQRT', n, k, isq)
        if n % 2 == 1:
            roots = sorted(set(int(r) % 2**k for r in nt.Sqrt2exp(n, k)))
            want = [x for x in range(2**k) if (x*x - n) % 2**k == 0]
            if roots != want: bad += 1; print('SQRT', n, k, roots, want)
print('2adic bad', bad)
for a in range(0, 120):
    for b in range(1, 60):
        cf = nt.ContinuedFraction(a, b)
        # reconstruct
        x = None
        for q, r, t in reversed(cf): x = Fraction(q) if x is None else q + 1/x
        if x != Fraction(a, b): bad += 1; print('CF value', a, b)
        if Fraction(cf[-1][1], cf[-1][2]) != Fraction(a, b): bad += 1; print('CF last conv', a, b)
        for i in range(len(cf)):
            y = None
            for q, _, _ in reversed(cf[:i+1]): y = Fraction(q) if y is None else q + 1/y
            if y != Fraction(cf[i][1], cf[i][2]): bad += 1; print('CF conv', a, b, i)
for a in range(-100, 101):
    for b in range(1, 40):
        q, r = nt.DivmodRounded(a, b)
        if a != q*b + r or not (-b/2 <= r <= b/2) : bad += 1; print('DIVMOD', a, b, q, r)
for n in range(2, 300):
    if nt.Sieve(n) != [p for p in range(2, n) if all(p % d for d in range(2, int(p**.5)+1))]: bad += 1; print('SIEVE', n)
print('ntheory bad', bad)
# pseudoaverage brute force
import itertools
def pa_ok(a, n, res):
    m = len(a); best = None; cands = set()
    for lifts in itertools.product((0, 1), repeat=m):
        bl = [x + n*l for x, l in zip(a, lifts)]
        mean = Fraction(sum(bl), m); var = sum((x - mean)**2 for x in bl)
        if best is None or var < best: best = var; cands = set()
        if var == best: cands.add(mean)
    ok = set()
    for mean in cands:
        ok.add(math.floor(mean + Fraction(1,2)) % n); ok.add(math.ceil(mean - Fraction(1,2)) % n); ok.add((sum([0])+ (mean.numerator + (m//2)*1)//1) % n if False else math.floor(mean + Fraction(1,2)) % n)
        ok.add(int((mean*m + m//2)//m) % n)
    return res in ok, ok
rnd = random.Random(4); pab = 0
for _ in range(3000):
    n = rnd.randrange(2, 17); m = rnd.randrange(1, 6); a = [rnd.randrange(n) for _ in range(m)]
    res = lattice_suite.PseudoAverage(a, n); ok, okset = pa_ok(a, n, res)
    if not ok: pab += 1; print('PSEUDOAVG', a, n, res, okset) if pab < 6 else None
print('pseudoavg bad', pab)
