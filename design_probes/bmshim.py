import ctypes, sys, types
def install(so):
    lib = ctypes.CDLL(so)
    lib.bm_lfsr_length.argtypes = [ctypes.c_char_p, ctypes.c_long, ctypes.c_int]
    lib.bm_lfsr_length.restype = ctypes.c_int
    mod = types.ModuleType('paranoid_crypto.lib.randomness_tests.cc_util.pybind.berlekamp_massey')
    mod.LfsrLength = lambda ba, n: lib.bm_lfsr_length(bytes(ba), len(ba), n)
    sys.modules[mod.__name__] = mod
    import paranoid_crypto.lib.randomness_tests.cc_util.pybind as pkg
    pkg.berlekamp_massey = mod
