import pb2shim, bmshim; pb2shim.install(); bmshim.install('/tmp/probe/bm_clmul.so')
from absl import logging; logging.set_verbosity(logging.FATAL)
import time, sys
from paranoid_crypto.lib.randomness_tests import random_test_suite as rts, rng, lattice_suite, extended_nist_suite as ext, nist_suite
def pv(res): return [res] if isinstance(res,(int,float)) else [p for _,p in res]
for name in ['trunclcg16','trunclcg32','trunclcg64','trunclcg128','lehmer128','lehmer128/16','java','mwc64','mwc128','mwc256','mwc512']:
    g = rng.GetRng(name)
    for logn in (16, 18, 20):
        n = 2**logn; out=[]
        for seed in (11, 12345):
            bits = g.RandomBits(n, seed=seed)
            row=[]
            for bs in (256, 384, 512, 1024):
                try: row.append('%.1e' % lattice_suite.FindBias(bits, n, bs))
                except Exception as e: row.append(type(e).__name__)
            out.append(row)
        print(name, logn, out, flush=True)
for name in ['xorshift128+','xorshift*','xorwow','mt19937']:
    g = rng.GetRng(name)
    for logn in (16, 18, 20, 22):
        n = 2**logn
        for seed in (11,):
            bits = g.RandomBits(n, seed=seed)
            r1 = ext.LargeBinaryMatrixRank(bits, n)
            r2 = [ext.LinearComplexityScatter(bits, n, s, m) for s,m in ((32,100000),(64,50000),(128,40000))]
            print(name, logn, [('%s'%a, '%.1e'%b) for a,b in r1], ['%.1e'%x for x in r2], flush=True)
