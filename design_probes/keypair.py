import sys
import pb2shim, bmshim; pb2shim.install(); bmshim.install('/tmp/probe/bm_clmul.so')
from absl import logging; logging.set_verbosity(logging.FATAL)
import time
from paranoid_crypto import paranoid_pb2 as pb
from paranoid_crypto.lib import rsa_single_checks as rsc, keypair_generator, util, consts
bits = int(sys.argv[1]); chk = rsc.CheckKeypairDenylist(); miss = []; t0 = time.time()
for b0 in range(256):
    p, q = keypair_generator.Generator(bytes([b0] + [0] * 31)).generate_key(bits)
    k = pb.RSAKey(); k.rsa_info.n = util.Int2Bytes(p * q); k.rsa_info.e = b'\x01\x00\x01'
    r = chk.Check([k]); f = util.GetAttachedFactors(k.test_info, consts.INFO_NAME_N_FACTORS)
    if not r or f != {p, q}: miss.append(b0)
# uncovered seeds: second byte non-zero
unc = 0
for b0 in range(0, 256, 37):
    p, q = keypair_generator.Generator(bytes([b0, 3] + [0] * 30)).generate_key(bits)
    k = pb.RSAKey(); k.rsa_info.n = util.Int2Bytes(p * q); k.rsa_info.e = b'\x01\x00\x01'
    unc += chk.Check([k])
print('bits', bits, 'covered seeds missed', miss, 'uncovered seeds flagged', unc, round(time.time() - t0), 's', flush=True)
