---- MODULE ChecksProbe ----
EXTENDS Naturals, Sequences, FiniteSets, TLC, SequencesExt
CONSTANTS Arts, MaxHist
\* check table: name |-> [sev, evid (BOOLEAN: attaches factors), joint]
Checks == {"S1", "S2", "J1"}
Sev == [c \in Checks |-> CASE c = "S1" -> 4 [] c = "S2" -> 2 [] c = "J1" -> 4]
Evid == [c \in Checks |-> c \in {"S1", "J1"}]
Classes == {"healthy", "weakS1", "weakS2", "shares"}
VARIABLES cls, ti, ret, hist
vars == <<cls, ti, ret, hist>>
EmptyTI == [weak |-> FALSE, results |-> <<>>, factors |-> {}, version |-> ""]
Find(rs, name) == IF \E i \in 1..Len(rs) : rs[i].name = name
                  THEN CHOOSE i \in 1..Len(rs) : rs[i].name = name /\ \A j \in 1..(i-1) : rs[j].name # name
                  ELSE 0
Max2(a, b) == IF a > b THEN a ELSE b
SetTestResult(t, e) ==
  LET t1 == [t EXCEPT !.version = IF @ = "" THEN "v" ELSE @, !.weak = @ \/ e.result]
      i == Find(t1.results, e.name)
  IN IF i # 0 THEN [t1 EXCEPT !.results[i].result = @ \/ e.result, !.results[i].sev = Max2(@, e.sev)]
     ELSE [t1 EXCEPT !.results = Append(@, e)]
AttachFactors(t, fs) == [t EXCEPT !.factors = @ \cup fs]
\* verdict criteria
Verdict(c, a, batch) ==
  CASE c = "S1" -> cls[a] = "weakS1"
    [] c = "S2" -> cls[a] = "weakS2"
    [] c = "J1" -> cls[a] = "shares" /\ \E b \in Range(batch) : b # a /\ cls[b] = "shares"
Apply(c, batch, t0) ==
  [a \in Arts |-> IF a \in Range(batch)
                  THEN LET v == Verdict(c, a, batch)
                           t1 == IF v /\ Evid[c] THEN AttachFactors(t0[a], {<<c, "true">>}) ELSE t0[a]
                       IN SetTestResult(t1, [name |-> c, result |-> v, sev |-> Sev[c]])
                  ELSE t0[a]]
Batches == UNION {[1..k -> Arts] : k \in 0..Cardinality(Arts)}
Init == /\ cls \in [Arts -> Classes] /\ ti = [a \in Arts |-> EmptyTI] /\ ret = FALSE /\ hist = 0
RunCheck == \E c \in Checks, b \in Batches :
   /\ hist < MaxHist /\ hist' = hist + 1
   /\ ti' = Apply(c, b, ti)
   /\ ret' = \E a \in Range(b) : Verdict(c, a, b)
   /\ UNCHANGED cls
Next == RunCheck
Spec == Init /\ [][Next]_vars
NoDup == \A a \in Arts : \A i, j \in 1..Len(ti[a].results) : ti[a].results[i].name = ti[a].results[j].name => i = j
WeakIff == \A a \in Arts : ti[a].weak <=> \E i \in 1..Len(ti[a].results) : ti[a].results[i].result
FactorsSound == \A a \in Arts : \A f \in ti[a].factors : f[2] = "true" /\ ti[a].weak
Monotone == [][\A a \in Arts : /\ ti[a].weak => ti'[a].weak
                               /\ ti[a].factors \subseteq ti'[a].factors
                               /\ \A i \in 1..Len(ti[a].results) : /\ ti'[a].results[i].name = ti[a].results[i].name
                                                                    /\ ti[a].results[i].result => ti'[a].results[i].result
                                                                    /\ ti'[a].results[i].sev >= ti[a].results[i].sev]_vars
====
