---- MODULE BsgsProbe ----
EXTENDS Integers, Sequences, FiniteSets, TLC
CONSTANTS Q, MaxLen, MaxCalls
\* Z_Q model of EcCurve.PointTable / BatchDL with the cached table.
\* A point is a residue k (k*G); x-coordinate class X(k) = min(k, Q-k), X(0) = -1 (None).
Isqrt(n) == CHOOSE r \in 0..n : r * r <= n /\ (r + 1) * (r + 1) > n
X(k) == LET r == k % Q IN IF r = 0 THEN -1 ELSE IF r <= Q - r THEN r ELSE Q - r
\* PointTable(base=G, n): m = isqrt(n), r = ceil(n/m); entries for i*m + j, i < r, j < m; later index wins
TableSpan(n) == LET m == Isqrt(n) IN ((n + m - 1) \div m) * m
TableLookup(n, x) == \* largest index idx < TableSpan(n) with X(idx) = x, or -1
   LET S == {idx \in 0..(TableSpan(n) - 1) : X(idx) = x} IN
   IF S = {} THEN -1 ELSE CHOOSE i \in S : \A j \in S : j <= i
VARIABLES T, calls, lastOK
vars == <<T, calls, lastOK>>
\* result of BatchDL for the point k with requested table size ts (cached size Tc >= ts), bound n
DL(k, ts, Tc, n) ==
   IF k % Q = 0 THEN 0 ELSE
   LET t == 2 * ts - 1
       gs == 2 + n \div t
       Cands == {c \in {<<j, s, TableLookup(Tc, X(k - j * t))>> : j \in 0..(gs-1), s \in {1, -1}} : c[3] >= 0}
       Hits == {c \in Cands : (c[1] * t + c[2] * c[3]) % Q = k % Q \/ (-(c[1] * t + c[2] * c[3])) % Q = k % Q}
   IN IF Hits = {} THEN -999 ELSE
      LET c == CHOOSE h \in Hits : TRUE
          dl == c[1] * t + c[2] * c[3]
      IN IF dl % Q = k % Q THEN dl ELSE -dl
Init == T = 0 /\ calls = 0 /\ lastOK = TRUE
BatchDL(len, n) ==
   LET ts == Isqrt(n * len)
       Tc == IF ts > T THEN ts ELSE T
   IN /\ ts >= 1
      /\ T' = Tc
      /\ lastOK' = \A x \in 0..(n-1) : LET r == DL(x, ts, Tc, n) IN r # -999 /\ r % Q = x % Q
Next == /\ calls < MaxCalls /\ calls' = calls + 1
        /\ \E len \in 1..MaxLen, n \in 1..Q : BatchDL(len, n)
Spec == Init /\ [][Next]_vars
Complete == lastOK
====
