SPECIFICATION Spec
CONSTANTS Q = 67
          MaxLen = 3
          MaxCalls = 2
INVARIANT Complete
CHECK_DEADLOCK FALSE
