SPECIFICATION Spec
CONSTANTS Arts = {a1, a2, a3}
          MaxHist = 4
INVARIANT NoDup
INVARIANT WeakIff
INVARIANT FactorsSound
PROPERTY Monotone
CHECK_DEADLOCK FALSE
