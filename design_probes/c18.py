import pb2shim, bmshim; pb2shim.install(); bmshim.install('/tmp/probe/bm_clmul.so')
from absl import logging; logging.set_verbosity(logging.FATAL)
import random, time, traceback
from paranoid_crypto import paranoid_pb2 as pb
from paranoid_crypto.lib import paranoid
from paranoid_crypto.lib import ec_util, ec_single_checks as esc, ec_aggregate_checks as eac, util
C = pb.CurveType
def key(cid, x, y):
    k = pb.ECKey(); k.ec_info.curve_type = cid; k.ec_info.x = util.Int2Bytes(x); k.ec_info.y = util.Int2Bytes(y); return k
cases = []
for cid in (C.CURVE_SECP256R1, C.CURVE_SECP256K1, C.CURVE_SECP521R1, C.CURVE_SECP192R1):
    c = ec_util.CURVE_FACTORY[cid]; p = int(c.mod); g = (int(c.g[0]), int(c.g[1]))
    cases += [(cid, 0, 0), (cid, p, p), (cid, g[0] + p, g[1]), (cid, g[0], g[1] + p), (cid, g[0], g[1] ^ 1), (cid, 2**600 + 5, 7), (cid, 0, 1), (cid, 1, 0), (cid, g[0], 0), (cid, p - 1, p - 1), (cid, g[0], g[1])]
for cid in (0, 7, 16, 25, 99):
    cases.append((cid, 5, 7))
bad = 0
for chk in (esc.CheckValidECKey(), esc.CheckWeakCurve(), eac.CheckECKeySmallDifference(max_diff=2**8), esc.CheckWeakECPrivateKey()):
    t0 = time.time()
    for (cid, x, y) in cases:
        for batch in ([key(cid, x, y)], [key(cid, x, y), key(cid, x, y)], [key(cid, x, y), key(C.CURVE_SECP256R1, *map(int, ec_util.CURVE_FACTORY[C.CURVE_SECP256R1].g))]):
            try:
                r = chk.Check(batch)
                if not isinstance(r, bool): print('NONBOOL', chk.check_name, cid, type(r))
            except Exception as e:
                bad += 1; print('EXC', chk.check_name, cid, hex(x)[:12], hex(y)[:12], len(batch), type(e).__name__, str(e)[:60], flush=True)
    print(chk.check_name, 'done', round(time.time() - t0, 1), 's', flush=True)
print('bad', bad)
