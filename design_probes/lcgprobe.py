import sys; sys.argv = ['x', '/usr/lib/x86_64-linux-gnu/libgmp.so.10']
exec(open('/tmp/probe/gmplcg.py').read().split("for size in")[0])
import pb2shim, bmshim; pb2shim.install(); bmshim.install('/tmp/probe/bm_clmul.so')
from absl import logging; logging.set_verbosity(logging.FATAL)
import random, hashlib, time
from paranoid_crypto import paranoid_pb2 as pb
from paranoid_crypto.lib import paranoid
from paranoid_crypto.lib import ec_util, ecdsa_sig_checks as esc, util, consts, lcg_constants
rnd = random.Random(4); C = pb.CurveType
chk = esc.CheckLCGNonceGMP()
for m in lcg_constants.CONSTANT_FACTORY:
    if m['lcg'] != lcg_constants.LcgName.GMP: continue
    cid = m['curve']; c = ec_util.CURVE_FACTORY[cid]; n = int(c.n); bits = n.bit_length()
    for count in sorted({m['min_signatures'], m['sliding_window_size']}):
        ok = 0; trials = 6; t0 = time.time()
        for t in range(trials):
            ks = [k for k in stream(m['lcg_output_size'], rnd.randrange(1, 2**31), bits, count + 3) if 0 < k < n][:count]
            if len(ks) < count: continue
            d = rnd.randrange(1, n); Q = c.Multiply(c.g, d); sigs = []
            for k in ks:
                h = hashlib.sha256(b'%d' % rnd.getrandbits(64)).digest(); z = int(c.TransformOrderLen(int.from_bytes(h, 'big'), 256))
                R = c.Multiply(c.g, k); r_ = int(R[0]) % n; s_ = pow(k, -1, n) * (z + r_ * d) % n
                g = pb.ECDSASignature(); g.ecdsa_sig_info.r = util.Int2Bytes(r_); g.ecdsa_sig_info.s = util.Int2Bytes(s_); g.ecdsa_sig_info.message_hash = h
                g.issuer_key_info.curve_type = cid; g.issuer_key_info.x = util.Int2Bytes(int(Q[0])); g.issuer_key_info.y = util.Int2Bytes(int(Q[1])); sigs.append(g)
            chk.Check(sigs)
            dl = util.GetAttachedInfo(sigs[0].test_info, consts.INFO_NAME_DISCRETE_LOG)
            ok += all(any(tr.result for tr in s.test_info.test_results) for s in sigs) and dl is not None and int(dl.value, 16) == d
        print(c.name, 'gmp out', m['lcg_output_size'], 'count', count, '(min %d, slide %d)' % (m['min_signatures'], m['sliding_window_size']), 'ok', ok, '/', trials, round(time.time() - t0, 1), 's', flush=True)
