import pb2shim, bmshim; pb2shim.install(); bmshim.install('/tmp/probe/bm_clmul.so')
from absl import logging; logging.set_verbosity(logging.FATAL)
import random, collections
from paranoid_crypto import paranoid_pb2 as pb
from paranoid_crypto.lib import paranoid
from paranoid_crypto.lib import ec_util, ecdsa_sig_checks as esc, util, hidden_number_problem as hnp
rnd = random.Random(2); C = pb.CurveType
calls = []
orig = hnp.HiddenNumberProblem
def wrapped(a, b, w, n, bias):
    calls.append(len(a)); return []          # skip LLL, record window size
hnp.HiddenNumberProblem = wrapped
def W(n):
    out = []
    for size in (24, 48, 120):
        for i in range(0, n, size): out.append(min(size, n - i))
        if n <= size: break
    return out
def sig(cid, Q, n):
    g = pb.ECDSASignature(); g.ecdsa_sig_info.r = util.Int2Bytes(rnd.randrange(1, n)); g.ecdsa_sig_info.s = util.Int2Bytes(rnd.randrange(1, n)); g.ecdsa_sig_info.message_hash = bytes(rnd.getrandbits(8) for _ in range(32))
    g.issuer_key_info.curve_type = cid; g.issuer_key_info.x = util.Int2Bytes(Q[0]); g.issuer_key_info.y = util.Int2Bytes(Q[1]); return g
ok = True
for trial in range(20):
    groups = []; sigs = []
    for cid in rnd.sample([C.CURVE_SECP256R1, C.CURVE_SECP384R1, C.CURVE_SECP521R1], rnd.randrange(1, 3)):
        n = int(ec_util.CURVE_FACTORY[cid].n)
        for issuer in range(rnd.randrange(1, 3)):
            Q = (rnd.getrandbits(200), rnd.getrandbits(200)); cnt = rnd.choice([1, 2, 23, 24, 25, 47, 48, 49, 119, 120, 121, 130])
            mine = [sig(cid, Q, n) for _ in range(cnt)]
            dups = [pb.ECDSASignature.FromString(mine[rnd.randrange(cnt)].SerializeToString()) for _ in range(rnd.randrange(0, 4))]
            sigs += mine + dups; groups.append(cnt)
    rnd.shuffle(sigs); calls.clear()
    esc.CheckNonceMSB().Check(sigs)
    want = collections.Counter(x for g in groups for x in W(g))
    if collections.Counter(calls) != want: ok = False; print('WINDOW MISMATCH', groups, sorted(calls), sorted(want.elements()))
print('windows as modelled:', ok)
