import os
if os.environ.get('PROBE_SHIM'):
    import pb2shim, bmshim
    pb2shim.install(); bmshim.install('/tmp/probe/bm_clmul.so')
