---- MODULE JavaRng ----
(* java.util.Random (48-bit LCG) and new BigInteger(numBits, rnd) on four 12-bit limbs. *)
EXTENDS Integers, Sequences, TLC, Bitwise, Json, IOUtils
A == <<1645, 3790, 1502, 0>>        \* 0x5DEECE66D = 0x5DE ECE 66D
CAdd == 11
L == 4096
\* (s * A + c) mod 2^48 on limbs, schoolbook with carries
MulAdd(s) ==
  LET c0 == s[1] * A[1] + CAdd
      c1 == s[1] * A[2] + s[2] * A[1] + (c0 \div L)
      c2 == s[1] * A[3] + s[2] * A[2] + s[3] * A[1] + (c1 \div L)
      c3 == s[1] * A[4] + s[2] * A[3] + s[3] * A[2] + s[4] * A[1] + (c2 \div L)
  IN <<c0 % L, c1 % L, c2 % L, c3 % L>>
Scramble(seed) == [i \in 1..4 |-> seed[i] ^^ A[i]]
\* the four bytes of next(32) = state >> 16, least significant first (nextBytes order)
IntBytes(s) == << s[2] \div 16, s[3] % 256, (s[3] \div 256) + (s[4] % 16) * 16, s[4] \div 16 >>
RECURSIVE Fill(_, _, _)
Fill(st, need, acc) == IF Len(acc) >= need THEN SubSeq(acc, 1, need)
                       ELSE LET st2 == MulAdd(st) IN Fill(st2, need, acc \o IntBytes(st2))
RECURSIVE Pow2(_)
Pow2(k) == IF k = 0 THEN 1 ELSE 2 * Pow2(k - 1)
BigIntegerBytes(seed, n) ==     \* magnitude bytes, most significant first, length (n+7) div 8
  LET nb == (n + 7) \div 8
      raw == Fill(Scramble(seed), nb, <<>>)
      excess == 8 * nb - n
  IN [raw EXCEPT ![1] = @ % Pow2(8 - excess)]
Recs == ndJsonDeserialize(IOEnv.TRACE_FILE)
VARIABLE tid
Init == tid = 1 /\ TLCSet(1, 0)
Next == /\ tid <= Len(Recs)
        /\ IF BigIntegerBytes(Recs[tid].seed, Recs[tid].n) = Recs[tid].bytes THEN TRUE ELSE TLCSet(1, TLCGet(1) + 1)
        /\ tid' = tid + 1
Spec == Init /\ [][Next]_tid
Post == PrintT(<<"RECORDS", Len(Recs), "MISMATCHES", TLCGet(1)>>)
====
