import pb2shim; pb2shim.install()
import itertools
from fractions import Fraction
from paranoid_crypto.lib import linalg_util
def check(a, x):
    b = [sum(ai*xi for ai,xi in zip(row,x)) for row in a]
    a0=[r[:] for r in a]; b0=b[:]
    try: s = linalg_util.solve_right([r[:] for r in a], b[:])
    except Exception as e: return ('EXC', type(e).__name__)
    if s is None: 
        return ('NONE',)
    ok = all(sum(Fraction(ai)*Fraction(int(si.numerator), int(si.denominator)) for ai,si in zip(row,s))==bi for row,bi in zip(a0,b0))
    return ('OK',) if ok else ('WRONG', [str(v) for v in s])
import numpy as np
def rank(a):
    return np.linalg.matrix_rank(np.array(a, dtype=float))
cnt = {}
ex = {}
for m, ncol in [(2,1),(2,2),(3,2),(3,3),(4,2)]:
    for vals in itertools.product(range(-1,2), repeat=m*ncol):
        a = [list(vals[i*ncol:(i+1)*ncol]) for i in range(m)]
        x = [2, -3, 5][:ncol]
        r = check(a, x)
        full = rank(a) == ncol
        key = (m, ncol, r[0], full)
        cnt[key] = cnt.get(key, 0) + 1
        if key not in ex: ex[key] = (a, r)
for k in sorted(cnt): print(k, cnt[k], ex[k])
print('--- search WRONG')
import random
rnd = random.Random(5)
best = None
for it in range(300000):
    m = rnd.randrange(3,6); ncol = rnd.randrange(2, min(m,4)+1)
    a = [[rnd.randrange(-1,2) for _ in range(ncol)] for _ in range(m)]
    if rnd.random()<0.5: a[rnd.randrange(m)] = [0]*ncol
    x = [2,-3,5,7][:ncol]
    r = check(a, x)
    if r[0]=='WRONG':
        size = (m*ncol, sum(abs(v) for row in a for v in row))
        if best is None or size < best[0]: best = (size, a, r); print(best, flush=True)
