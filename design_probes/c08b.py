exec(open('/tmp/probe/c08.py').read().split("C = pb.CurveType")[0])
C = pb.CurveType
for cid, cbits in ((C.CURVE_SECP256R1, 256), (C.CURVE_SECP384R1, 384), (C.CURVE_SECP521R1, 521), (C.CURVE_SECP256K1, 256), (C.CURVE_BRAINPOOLP256R1, 256)):
    for bias_bits in (16, 32):
        for factor in (2.5, 3):
            count = max(24, int(-(-factor*cbits // bias_bits)))
            if count > 120: continue
            mult = rnd.randrange(1, 2**64)
            run('general%d x%.1f' % (bias_bits, factor), esc.CheckNonceGeneralized(), cid, count, lambda n, i: (rnd.getrandbits(n.bit_length() - bias_bits) * int(gmpy2.invert(mult, n))) % n, trials=4)
