SPECIFICATION Spec
CONSTANT MaxLen = 12
INVARIANT MachineMatchesDef
INVARIANT ReversalLemma
INVARIANT ComplementLemma
INVARIANT CyclesDef
INVARIANT VisitsDef
INVARIANT PinnedAgrees
CHECK_DEADLOCK FALSE
