---- MODULE Walk ----
(* SP 800-22 2.13-2.15 integer statistics as a bit-by-bit machine, checked against
   the definitions on the whole string.  Bits are appended in sequence order
   (bit i of the library's integer is the i-th step: +1 for 1, -1 for 0). *)
EXTENDS Integers, Sequences, FiniteSets, TLC
CONSTANT MaxLen
VARIABLES s,        \* the string so far (for the definitional side only)
          pos, mx, mn,   \* walk position S_k, max and min over S_0..S_k
          cycles,   \* number of returns to 0 so far
          visits    \* visits[x] for x in -2..2, x # 0
vars == <<s, pos, mx, mn, cycles, visits>>
Step(b) == IF b = 1 THEN 1 ELSE -1
States == {-2, -1, 1, 2}
Init == s = <<>> /\ pos = 0 /\ mx = 0 /\ mn = 0 /\ cycles = 0 /\ visits = [x \in States |-> 0]
Append1(b) == /\ Len(s) < MaxLen
              /\ s' = Append(s, b)
              /\ pos' = pos + Step(b)
              /\ mx' = IF pos + Step(b) > mx THEN pos + Step(b) ELSE mx
              /\ mn' = IF pos + Step(b) < mn THEN pos + Step(b) ELSE mn
              /\ cycles' = IF pos + Step(b) = 0 THEN cycles + 1 ELSE cycles
              /\ visits' = IF pos + Step(b) \in States THEN [visits EXCEPT ![pos + Step(b)] = @ + 1] ELSE visits
Next == \E b \in {0, 1} : Append1(b)
Spec == Init /\ [][Next]_vars
\* definitions on the whole string
RECURSIVE Partial(_, _)
Partial(t, k) == IF k = 0 THEN 0 ELSE Partial(t, k - 1) + Step(t[k])
Abs(x) == IF x < 0 THEN -x ELSE x
MaxOver(S) == CHOOSE m \in S : \A y \in S : y <= m
FwdDef(t) == IF t = <<>> THEN 0 ELSE MaxOver({Abs(Partial(t, k)) : k \in 1..Len(t)})
BwdDef(t) == IF t = <<>> THEN 0 ELSE MaxOver({Abs(Partial(t, Len(t)) - Partial(t, j)) : j \in 0..(Len(t) - 1)})
Rev(t) == [k \in 1..Len(t) |-> t[Len(t) + 1 - k]]
Compl(t) == [k \in 1..Len(t) |-> 1 - t[k]]
\* machine-side statistics
FwdM == IF mx > -mn THEN mx ELSE -mn
BwdM == IF mx - pos > pos - mn THEN mx - pos ELSE pos - mn          \* extrema include S_0 = 0
MachineMatchesDef == FwdM = FwdDef(s) /\ BwdM = BwdDef(s)
ReversalLemma == BwdDef(s) = FwdDef(Rev(s)) /\ FwdDef(s) = BwdDef(Rev(s))
ComplementLemma == FwdDef(Compl(s)) = FwdDef(s) /\ BwdDef(Compl(s)) = BwdDef(s)
CyclesDef == cycles = Cardinality({k \in 1..Len(s) : Partial(s, k) = 0})
VisitsDef == \A x \in States : visits[x] = Cardinality({k \in 1..Len(s) : Partial(s, k) = x})
\* what the pinned implementation computes for the backward distance (extrema over S_1..S_n
\* restricted to non-zero states when the walk stays within +-9): kept as a named deviation
PinnedBwd == LET nz == {Partial(s, k) : k \in 1..Len(s)} \ {0}
                 hi == IF nz = {} THEN 0 ELSE MaxOver(nz)
                 lo == IF nz = {} THEN 0 ELSE -MaxOver({-y : y \in nz})
             IN IF hi - pos > pos - lo THEN hi - pos ELSE pos - lo
PinnedAgrees == Len(s) > 0 => PinnedBwd = BwdDef(s)
====
