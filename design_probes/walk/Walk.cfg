SPECIFICATION Spec
CONSTANT MaxLen = 12
INVARIANT MachineMatchesDef
INVARIANT ReversalLemma
INVARIANT ComplementLemma
INVARIANT CyclesDef
INVARIANT VisitsDef
CHECK_DEADLOCK FALSE
