import pb2shim, bmshim; pb2shim.install(); bmshim.install('/tmp/probe/bm_clmul.so')
from absl import logging; logging.set_verbosity(logging.FATAL)
import itertools, random
from paranoid_crypto.lib import ec_util
INF = (None, None)
def radd(P, Q, p, a):
    if P == INF: return Q
    if Q == INF: return P
    if P[0] == Q[0] and (P[1] + Q[1]) % p == 0: return INF
    lam = ((3*P[0]*P[0] + a) * pow(2*P[1], -1, p) if P == Q else (Q[1]-P[1]) * pow(Q[0]-P[0], -1, p)) % p
    x = (lam*lam - P[0] - Q[0]) % p; return (x, (lam*(P[0]-x) - P[1]) % p)
curves = [(59, -3, 1, (0, 1), 71), (67, 0, 2, (2, 12), 73), (59, 1, 13, (1, 29), 67), (73, 0, 13, (4, 2), 67)]
rnd = random.Random(1); bad = 0
def norm(P): return INF if P == INF or P[0] is None else (int(P[0]), int(P[1]))
for (p, a, b, g, q) in curves:
    c = ec_util.EcCurve('t', a, b, p, g[0], g[1], q)
    tab = [INF]
    for k in range(1, q): tab.append(radd(tab[-1], g, p, a % p))
    assert radd(tab[-1], g, p, a % p) == INF and len(set(tab)) == q
    idx = {P: k for k, P in enumerate(tab)}
    def chk(name, got, want):
        global bad
        if norm(got) != want: bad += 1; print('MISMATCH', (p,a,b), name, got, want)
    for i in range(q):
        P = tab[i]
        chk('Negate', c.Negate(P), tab[-i % q]); chk('Double', c.Double(P), tab[2*i % q])
        for j in range(q):
            Q = tab[j]
            chk('Add', c.Add(P, Q), tab[(i+j) % q]); chk('Subtract', c.Subtract(P, Q), tab[(i-j) % q])
            z1 = rnd.randrange(1, p); z2 = rnd.randrange(1, p)
            PJ = (1,1,0) if P == INF else (P[0]*z1*z1 % p, P[1]*z1**3 % p, z1); QJ = (1,1,0) if Q == INF else (Q[0]*z2*z2 % p, Q[1]*z2**3 % p, z2)
            chk('AddJacobian', c.JacobianToAffine(c.AddJacobian(PJ, QJ)), tab[(i+j) % q])
        chk('DoubleJacobian', c.JacobianToAffine(c.DoubleJacobian((1,1,0) if P == INF else (P[0]*4 % p, P[1]*8 % p, 2))), tab[2*i % q])
        for k in range(-q-2, 2*q+3):
            chk('Multiply', c.Multiply(P, k), tab[i*k % q]); chk('MultiplyAffine', c.MultiplyAffine(P, k), tab[i*k % q])
    # batch ops on all lists of <=3 from a special vocabulary relative to P
    for i in (0, 1, 5, q-1):
        P = tab[i]
        voc = sorted(set([0, i, (-i) % q, 2*i % q, 1, q-1, 7, (7-i) % q]))
        for L in range(0, 4):
            for ks in itertools.product(voc, repeat=L):
                pts = [tab[k] for k in ks]
                for got, k in zip(c.BatchAdd(P, pts), ks): chk('BatchAdd', got, tab[(i+k) % q])
                for got, k in zip(c.BatchAddX(P, pts), ks):
                    w = tab[(i+k) % q][0]
                    if (None if got is None else int(got)) != w: bad += 1; print('MISMATCH BatchAddX', ks, got, w)
                s_, d_ = c.BatchAddSubtractX(P, pts)
                for gs, gd, k in zip(s_, d_, ks):
                    if (None if gs is None else int(gs)) != tab[(i+k) % q][0] or (None if gd is None else int(gd)) != tab[(i-k) % q][0]: bad += 1; print('MISMATCH BatchAddSubtractX', i, ks)
                for got, k in zip(c.BatchDouble(pts), ks): chk('BatchDouble', got, tab[2*k % q])
                for got, k, m in zip(c.BatchAddList(pts, pts[::-1]), ks, ks[::-1]): chk('BatchAddList', got, tab[(k+m) % q])
    sc = list(range(-5, 3*q)) + [2**40 + 3, -2**33]
    for got, k in zip(c.BatchMultiplyG(sc), sc): chk('BatchMultiplyG', got, tab[k % q])
    for nn in (1, 2, 5, q, q + 3):
        for got, k in zip(c.PointSequence(tab[3], nn), range(nn)): chk('PointSequence', got, tab[3*k % q])
    print((p, a, b), 'done; bad so far', bad, flush=True)
print('bad', bad)
