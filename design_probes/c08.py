import pb2shim, bmshim; pb2shim.install(); bmshim.install('/tmp/probe/bm_clmul.so')
from absl import logging; logging.set_verbosity(logging.FATAL)
import random, gmpy2, sys, time, hashlib
from paranoid_crypto import paranoid_pb2 as pb
from paranoid_crypto.lib import paranoid
from paranoid_crypto.lib import ec_util, ecdsa_sig_checks as esc, util, consts
rnd = random.Random(21)
def sign(curve, d, k, z):
    R = curve.Multiply(curve.g, k); r = int(R[0]) % int(curve.n)
    s = int(gmpy2.invert(k, curve.n)) * (z + r*d) % int(curve.n)
    return r, s
def mk(curve_id, curve, Q, r, s, h):
    sig = pb.ECDSASignature()
    sig.ecdsa_sig_info.r = util.Int2Bytes(r); sig.ecdsa_sig_info.s = util.Int2Bytes(s)
    sig.ecdsa_sig_info.message_hash = h
    sig.issuer_key_info.curve_type = curve_id
    sig.issuer_key_info.x = util.Int2Bytes(int(Q[0])); sig.issuer_key_info.y = util.Int2Bytes(int(Q[1]))
    return sig
def batch(curve_id, count, kgen):
    curve = ec_util.CURVE_FACTORY[curve_id]; n = int(curve.n)
    d = rnd.randrange(1, n); Q = curve.Multiply(curve.g, d)
    sigs = []
    for i in range(count):
        h = hashlib.sha256(b'm%d' % rnd.getrandbits(64)).digest()
        z = curve.TransformOrderLen(int.from_bytes(h,'big'), 256)
        while True:
            k = kgen(n, i)
            if not 0 < k < n: continue
            r, s = sign(curve, d, k, int(z))
            if r and s: break
        sigs.append(mk(curve_id, curve, Q, r, s, h))
    return d, sigs
def run(name, chk, curve_id, count, kgen, trials=3):
    ok = 0; t0 = time.time()
    for _ in range(trials):
        d, sigs = batch(curve_id, count, kgen)
        chk.Check(sigs)
        good = all(any(t.test_name == chk.check_name and t.result for t in s.test_info.test_results) for s in sigs)
        dl = util.GetAttachedInfo(sigs[0].test_info, consts.INFO_NAME_DISCRETE_LOG)
        ok += good and dl is not None and int(dl.value, 16) == d
    print(name, curve_id, 'count', count, 'ok', ok, '/', trials, round(time.time()-t0,1), 's', flush=True)
C = pb.CurveType
for cid, cbits in ((C.CURVE_SECP256R1, 256), (C.CURVE_SECP384R1, 384), (C.CURVE_SECP521R1, 521)):
    for bias_bits in (16, 32, 64):
        count = -(-2*cbits // bias_bits)
        if count > 130: continue
        run('msb%d' % bias_bits, esc.CheckNonceMSB(), cid, count, lambda n, i: rnd.getrandbits(n.bit_length() - bias_bits))
        pre = rnd.getrandbits(bias_bits)
        run('prefix%d' % bias_bits, esc.CheckNonceCommonPrefix(), cid, count, lambda n, i: (pre << (n.bit_length() - bias_bits - 1)) | rnd.getrandbits(n.bit_length() - bias_bits - 1))
        post = rnd.getrandbits(bias_bits)
        run('postfix%d' % bias_bits, esc.CheckNonceCommonPostfix(), cid, count, lambda n, i: (rnd.getrandbits(n.bit_length() - bias_bits - 1) << bias_bits) | post)
        mult = rnd.randrange(1, 2**64)
        run('general%d' % bias_bits, esc.CheckNonceGeneralized(), cid, max(24, count), lambda n, i: (rnd.getrandbits(n.bit_length() - bias_bits) * int(gmpy2.invert(mult, n))) % n)
