import pb2shim, bmshim; pb2shim.install(); bmshim.install('/tmp/probe/bm_clmul.so')
import random, math
from paranoid_crypto.lib.randomness_tests import nist_suite as ns, util
rnd = random.Random(6)
def comp(s, n): return s ^ ((1 << n) - 1)
def rev(s, n): return util.ReverseBits(s, n)
def rot(s, n, k): return ((s >> k) | (s << (n - k))) & ((1 << n) - 1)
def pv(f, s, n, *a):
    r = f(s, n, *a); return dict(r) if isinstance(r, list) else {'result': r}
def close(a, b): return abs(a - b) <= 1e-9 * max(1, abs(a), abs(b))
bad = {}
def cmpd(tag, d1, d2, mapname=lambda k: k):
    for k, v in d1.items():
        k2 = mapname(k)
        if k2 not in d2 or not close(v, d2[k2]): bad[tag] = bad.get(tag, 0) + 1; return
    if len(d1) != len(d2): bad[tag] = bad.get(tag, 0) + 1
def swapdir(k): return k.replace('forward', 'X').replace('reverse', 'forward').replace('X', 'reverse')
def negstate(k):
    for pre in ('random excursions variant ', 'random excursions '):
        if k.startswith(pre): return pre + str(-int(k[len(pre):]))
    return k
for n in [1000, 1024, 4096, 2**14, 2**16, 2**20]:
    for t in range(6 if n < 2**20 else 2):
        s = rnd.getrandbits(n)
        if t == 1: s = int(('1' * 37 + '0' * 11) * (n // 48 + 1), 2) & ((1 << n) - 1)
        if t == 2: # one sided walk
            s = (rnd.getrandbits(n) | (2**64 - 1)) 
        k = rnd.randrange(1, n)
        cmpd('Frequency/comp', pv(ns.Frequency, s, n), pv(ns.Frequency, comp(s, n), n)); cmpd('Frequency/rot', pv(ns.Frequency, s, n), pv(ns.Frequency, rot(s, n, k), n))
        cmpd('BlockFrequency/comp', pv(ns.BlockFrequency, s, n), pv(ns.BlockFrequency, comp(s, n), n))
        cmpd('Runs/comp', pv(ns.Runs, s, n), pv(ns.Runs, comp(s, n), n)); cmpd('Runs/rev', pv(ns.Runs, s, n), pv(ns.Runs, rev(s, n), n))
        if n % 128 == 0 and n < 750000: cmpd('LongestRuns/rev', pv(ns.LongestRuns, s, n), pv(ns.LongestRuns, rev(s, n), n))
        cmpd('Spectral/comp', pv(ns.Spectral, s, n), pv(ns.Spectral, comp(s, n), n)); cmpd('Spectral/rev', pv(ns.Spectral, s, n), pv(ns.Spectral, rev(s, n), n)); cmpd('Spectral/rot', pv(ns.Spectral, s, n), pv(ns.Spectral, rot(s, n, k), n))
        cmpd('Serial/rot', pv(ns.Serial, s, n), pv(ns.Serial, rot(s, n, k), n)); cmpd('Serial/comp', pv(ns.Serial, s, n), pv(ns.Serial, comp(s, n), n)); cmpd('Serial/rev', pv(ns.Serial, s, n), pv(ns.Serial, rev(s, n), n))
        cmpd('ApEn/rot', pv(ns.ApproximateEntropy, s, n), pv(ns.ApproximateEntropy, rot(s, n, k), n)); cmpd('ApEn/comp', pv(ns.ApproximateEntropy, s, n), pv(ns.ApproximateEntropy, comp(s, n), n))
        try:
            w = pv(ns.RandomWalk, s, n)
            cmpd('RandomWalk/rev(swap)', {k_: v for k_, v in w.items() if 'cumulative' in k_}, {k_: v for k_, v in pv(ns.RandomWalk, rev(s, n), n).items() if 'cumulative' in k_}, swapdir)
            cmpd('RandomWalk/comp(neg)', w, pv(ns.RandomWalk, comp(s, n), n), negstate)
        except ZeroDivisionError: bad['RandomWalk/exc'] = bad.get('RandomWalk/exc', 0) + 1
        for f in (ns.Frequency, ns.BlockFrequency, ns.Runs, ns.LongestRuns, ns.Spectral, ns.Serial, ns.ApproximateEntropy, ns.RandomWalk, ns.NonOverlappingTemplateMatching, ns.OverlappingTemplateMatching):
            try:
                for k_, v in pv(f, s, n).items():
                    if not (-1e-12 <= v <= 1 + 1e-9) or math.isnan(v): bad[f.__name__ + '/range'] = bad.get(f.__name__ + '/range', 0) + 1; break
            except ns.InsufficientDataError: pass
            except Exception as e: bad[f.__name__ + '/' + type(e).__name__] = bad.get(f.__name__ + '/' + type(e).__name__, 0) + 1
print(bad)
