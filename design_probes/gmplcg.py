import ctypes, sys
lib = ctypes.CDLL(sys.argv[1])
class MPZ(ctypes.Structure): _fields_ = [('alloc', ctypes.c_int), ('size', ctypes.c_int), ('d', ctypes.c_void_p)]
def stream(size, seed, bits, count):
    st = ctypes.create_string_buffer(128)
    ok = lib.__gmp_randinit_lc_2exp_size(st, ctypes.c_ulong(size))
    if not ok: return None
    lib.__gmp_randseed_ui(st, ctypes.c_ulong(seed))
    z = MPZ(); lib.__gmpz_init(ctypes.byref(z)); out = []
    lib.__gmpz_get_str.restype = ctypes.c_char_p
    for _ in range(count):
        lib.__gmpz_urandomb(ctypes.byref(z), st, ctypes.c_ulong(bits))
        out.append(int(lib.__gmpz_get_str(None, 16, ctypes.byref(z)), 16))
    return out
for size in (16, 20, 28, 32, 64, 100, 128):
    print(size, [hex(v) for v in (stream(size, 12345, 256, 2) or [])])
