import pb2shim, bmshim; pb2shim.install(); bmshim.install('/tmp/probe/bm_clmul.so')
from absl import logging; logging.set_verbosity(logging.FATAL)
import random, time, gmpy2
from paranoid_crypto import paranoid_pb2 as pb
from paranoid_crypto.lib import paranoid, util
rnd = random.Random(5)
def rp(L):
    while True:
        p = rnd.getrandbits(L) | (1 << (L-1)) | 1
        if gmpy2.is_prime(p): return int(p)
def key(n, e=65537):
    k = pb.RSAKey(); k.rsa_info.n = util.Int2Bytes(n); k.rsa_info.e = util.Int2Bytes(e); return k
mods = {'prime64': rp(64), 'semi64': rp(32)*rp(32), 'even': 2*rp(1023), 'pow2_2048': 2**2047, 'pow2_64': 2**63, 'sq': rp(512)**2, 'odd_len': rp(512)*rp(511), 'prime2048': rp(2048),
        'three': rp(700)*rp(700)*rp(648), 'semi2048': rp(1024)*rp(1024), 'p_times_small': 3*rp(2046), 'all_ones': 2**2048-1, '2^63+1': 2**63+1}
for name, n in mods.items():
    for cname, chk in paranoid.GetRSAAllChecks().items():
        for e in (65537, 0, 2**40):
            t0 = time.time()
            try:
                r = chk.Check([key(n, e)]) ; assert isinstance(r, bool)
                r = chk.Check([key(n, e), key(n, e)]); assert isinstance(r, bool)
            except Exception as ex:
                print('EXC', name, cname, e, type(ex).__name__, str(ex)[:70], flush=True)
            if time.time() - t0 > 20: print('SLOW', name, cname, round(time.time()-t0), flush=True)
            if cname not in ('CheckExponents',): break
print('done')
