import pb2shim, bmshim; pb2shim.install(); bmshim.install('/tmp/probe/bm_clmul.so')
from paranoid_crypto.lib import ec_util
import gmpy2, itertools, math
def points(p,a,b):
    pts=[]
    for x in range(p):
        for y in range(p):
            if (y*y - (x*x*x+a*x+b))%p==0: pts.append((x,y))
    return pts
def find(pmin, pmax, want_a_minus3=False):
    out=[]
    for p in range(pmin,pmax):
        if not gmpy2.is_prime(p): continue
        for a in ([p-3] if want_a_minus3 else range(0,p)):
            for b in range(1,p):
                if (4*a**3+27*b*b)%p==0: continue
                pts=points(p,a,b); n=len(pts)+1
                if gmpy2.is_prime(n) and n!=p:
                    out.append((p,a,b,pts[0],n)); break
            else: continue
            break
    return out
cs = find(60,140)
print(cs[:12])
p,a,b,g,n = cs[3]
c = ec_util.EcCurve('small',a,b,p,g[0],g[1],n)
ref = [c.MultiplyAffine(c.g,k) for k in range(n)]
assert len(set(ref))==n
import random
bad=0
for bound in [1,2,3,5,10,n//2,n-1,n]:
  for npts in [1,2,3,7]:
    c._table={}; c._table_size=0
    for trial in range(20):
        xs=[random.randrange(bound) for _ in range(npts)]
        res=c.BatchDL([ref[x] for x in xs], bound)
        for x,r in zip(xs,res):
            if r is None or r % n != x: bad+=1; print('MISS',bound,npts,x,r, c._table_size)
print('bad',bad,'order',n,'p',p)
