import pb2shim, bmshim; pb2shim.install(); bmshim.install('/tmp/probe/bm_clmul.so')
import random, math, mpmath, collections
from paranoid_crypto.lib.randomness_tests import nist_suite as ns
mpmath.mp.dps = 30
def igamc(a, x): return float(mpmath.gammainc(a, x, mpmath.inf, regularized=True)) if x > 0 else 1.0
def erfc(x): return float(mpmath.erfc(x))
def bits_of(s, n): return [(s >> i) & 1 for i in range(n)]
def split(b, m): return [b[i*m:(i+1)*m] for i in range(len(b)//m)]
def ref_frequency(b): n=len(b); S=2*sum(b)-n; return erfc(abs(S)/math.sqrt(n)/math.sqrt(2))
def ref_block(b):
    n=len(b); m=16
    while n//m >= 100: m*=2
    m=max(20,m); bl=split(b,m); chi=4*m*sum((sum(x)/m-0.5)**2 for x in bl); return igamc(len(bl)/2, chi/2)
def ref_runs(b):
    n=len(b); pi=sum(b)/n; V=1+sum(b[i]!=b[i+1] for i in range(n-1)); return erfc(abs(V-2*n*pi*(1-pi))/(2*math.sqrt(2*n)*pi*(1-pi)))
def longest(x):
    best=cur=0
    for v in x:
        cur = cur+1 if v else 0; best=max(best,cur)
    return best
def ref_longest(b):
    n=len(b)
    if n>=750000: M,lo,hi,pi=10000,10,16,[0.0882,0.2092,0.2483,0.1933,0.1208,0.0675,0.0727]
    elif n>=6272: M,lo,hi,pi=128,4,9,[0.1174,0.2430,0.2493,0.1752,0.1027,0.1124]
    else: M,lo,hi,pi=8,1,4,[0.2148,0.3672,0.2305,0.1875]
    bl=split(b,M); v=[0]*(hi-lo+1)
    for x in bl: v[min(max(longest(x),lo),hi)-lo]+=1
    N=len(bl); chi=sum((v[i]-N*pi[i])**2/(N*pi[i]) for i in range(len(pi))); return igamc((hi-lo)/2, chi/2)
def ref_nonoverlap(b):
    n=len(b); M=n//8
    m = 2 if M<64 else 3 if M<256 else 4 if M<1024 else 5 if M<2048 else 6 if M<4096 else 7 if M<8192 else 8 if M<16384 else 9 if M<32768 else 10
    out={}
    mu=(M-m+1)/2**m; var=M*(1/2**m-(2*m-1)/2**(2*m))
    for t in range(2**m):
        # template bits: the library reads block integers LSB-first; compare as integers of m consecutive bits (bit i weight 2^i)
        ok = all((t>>(m-i)) != (t & ((1<<i)-1)) for i in range(1,m))
        if not ok: continue
        W=[]
        for blk in split(b,M):
            c=0; i=0
            while i<=M-m:
                v=sum(blk[i+j]<<j for j in range(m))
                if v==t: c+=1; i+=m
                else: i+=1
            W.append(c)
        chi=sum((w-mu)**2/var for w in W); out["template '%s'" % format(t,'0%db'%m)]=igamc(8/2, chi/2)
    return out
def ref_serial(b, m_max):
    n=len(b)
    def psi(m):
        if m<=0: return 0.0
        c=collections.Counter(tuple(b[(i+j)%n] for j in range(m)) for i in range(n)); return (2**m/n)*sum(v*v for v in c.values())-n
    out={}
    for m in range(2,m_max+1):
        d=psi(m)-psi(m-1); d2=psi(m)-2*psi(m-1)+psi(m-2)
        out['m=%d p-value1'%m]=igamc(2**(m-2), d/2); out['m=%d p-value2'%m]=igamc(2**(m-3), d2/2)
    return out
def ref_apen(b, m_max):
    n=len(b)
    def phi(m):
        c=collections.Counter(tuple(b[(i+j)%n] for j in range(m)) for i in range(n)); return sum(v/n*math.log(v/n) for v in c.values())
    return {'m=%d'%m: igamc(2**(m-1), (2*n*(math.log(2)-(phi(m)-phi(m+1))))/2) for m in range(2,m_max+1)}
def Phi(x): return float(mpmath.ncdf(x))
def cusum_p(n,z):
    s1=sum(Phi((4*k+1)*z/math.sqrt(n))-Phi((4*k-1)*z/math.sqrt(n)) for k in range(math.floor((-n/z+1)/4), math.floor((n/z-1)/4)+1))
    s2=sum(Phi((4*k+3)*z/math.sqrt(n))-Phi((4*k+1)*z/math.sqrt(n)) for k in range(math.floor((-n/z-3)/4), math.floor((n/z-1)/4)+1))
    return 1-s1+s2
def ref_walk(b):
    n=len(b); S=[0]
    for v in b: S.append(S[-1]+(1 if v else -1))
    out={'cumulative sums forward': cusum_p(n, max(abs(x) for x in S[1:])), 'cumulative sums reverse': cusum_p(n, max(abs(S[n]-S[j]) for j in range(n)))}
    cycles=[]; cur=collections.Counter()
    for x in S[1:]:
        if x==0: cycles.append(cur); cur=collections.Counter()
        else: cur[x]+=1
    cycles.append(cur); J=len(cycles)
    if J>=500:
        for x in list(range(-4,0))+list(range(1,5)):
            v=[0]*6
            for c in cycles: v[min(5,c[x])]+=1
            t=1/(2*abs(x)); pi=[1-t]+[t*t*(1-t)**(k-1) for k in range(1,5)]+[t*(1-t)**4]
            chi=sum((v[k]-J*pi[k])**2/(J*pi[k]) for k in range(6)); out['random excursions %d'%x]=igamc(5/2, chi/2)
        tot=collections.Counter()
        for c in cycles: tot.update(c)
        for x in list(range(-9,0))+list(range(1,10)): out['random excursions variant %d'%x]=erfc(abs(tot[x]-J)/math.sqrt(2*J*(4*abs(x)-2))/1.0 if False else abs(tot[x]-J)/math.sqrt(2*J*(4*abs(x)-2)) / math.sqrt(2) * math.sqrt(2))
    return out
rnd=random.Random(12); bad=collections.Counter(); tot=collections.Counter()
def cmp(name, got, want):
    got = dict(got) if isinstance(got, list) else {'result': got}; want = want if isinstance(want, dict) else {'result': want}
    tot[name]+=1
    if set(got)!=set(want): bad[name+'/names']+=1; print(name, 'NAMES', sorted(set(got)^set(want))[:4]); return
    for k in got:
        if abs(got[k]-want[k])>1e-7*max(1,abs(want[k])) and abs(got[k]-want[k])>1e-9: bad[name]+=1; print(name, k, got[k], want[k]); return
for n in [100,128,1000,4096,6272,10000,65536,2**17,10**6+3]:
    for t in range(3 if n<2**17 else 1):
        s=rnd.getrandbits(n)
        if t==1 and n<=65536: s |= (1<<64)-1   # start with a long run of ones: one-sided-ish walk
        b=bits_of(s,n)
        cmp('Frequency', ns.Frequency(s,n), ref_frequency(b)); cmp('BlockFrequency', ns.BlockFrequency(s,n), ref_block(b)); cmp('Runs', ns.Runs(s,n), ref_runs(b))
        if n>=128: cmp('LongestRuns', ns.LongestRuns(s,n), ref_longest(b))
        if n<=65536: cmp('NonOverlapping', ns.NonOverlappingTemplateMatching(s,n), ref_nonoverlap(b))
        mm=max(2,min(22,n.bit_length()-4))
        if n<=65536: cmp('Serial', ns.Serial(s,n), ref_serial(b,mm))
        am = max(2,n.bit_length()-7) if n<2**16 else n.bit_length()-8 if n<2**20 else n.bit_length()-9
        if n<=65536: cmp('ApEn', ns.ApproximateEntropy(s,n), ref_apen(b,am))
        cmp('RandomWalk', ns.RandomWalk(s,n), ref_walk(b))
print('bad', dict(bad)); print('tot', dict(tot))
