import pb2shim, bmshim; pb2shim.install(); bmshim.install('/tmp/probe/bm_clmul.so')
from absl import logging; logging.set_verbosity(logging.FATAL)
import random, gmpy2
from paranoid_crypto import paranoid_pb2 as pb
from paranoid_crypto.lib import paranoid
from paranoid_crypto.lib import ec_util, ecdsa_sig_checks as esc, util
C = pb.CurveType
curve = ec_util.CURVE_FACTORY[C.CURVE_SECP256R1]
d = random.Random(1).randrange(1, int(curve.n)); Q = curve.Multiply(curve.g, d)
def sig(cid):
    s = pb.ECDSASignature(); s.ecdsa_sig_info.r = b'\x05'; s.ecdsa_sig_info.s = b'\x07'; s.ecdsa_sig_info.message_hash = b'\x01'*32
    s.issuer_key_info.curve_type = cid; s.issuer_key_info.x = util.Int2Bytes(int(Q[0])); s.issuer_key_info.y = util.Int2Bytes(int(Q[1])); return s
for order in ([C.CURVE_SECP256R1, C.CURVE_SECP256K1], [C.CURVE_SECP256K1, C.CURVE_SECP256R1]):
    sigs = [sig(c) for c in order]
    r = esc.CheckIssuerKey().Check(sigs)
    print(order, r, [[(t.test_name, t.result, t.severity) for t in s.test_info.test_results] for s in sigs], flush=True)
for c in (C.CURVE_SECP256R1, C.CURVE_SECP256K1):
    k = pb.ECKey(ec_info=sig(c).issuer_key_info); print('solo key', c, paranoid.CheckAllEC([k]), k.test_info.weak)
