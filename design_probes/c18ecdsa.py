import pb2shim, bmshim; pb2shim.install(); bmshim.install('/tmp/probe/bm_clmul.so')
from absl import logging; logging.set_verbosity(logging.FATAL)
import random, time
from paranoid_crypto import paranoid_pb2 as pb
from paranoid_crypto.lib import paranoid
from paranoid_crypto.lib import ec_util, util
C = pb.CurveType; rnd = random.Random(3)
def sig(cid, r, s, h, x, y):
    g = pb.ECDSASignature(); g.ecdsa_sig_info.r = util.Int2Bytes(r); g.ecdsa_sig_info.s = util.Int2Bytes(s); g.ecdsa_sig_info.message_hash = h
    g.issuer_key_info.curve_type = cid; g.issuer_key_info.x = util.Int2Bytes(x); g.issuer_key_info.y = util.Int2Bytes(y); return g
checks = {k: v for k, v in paranoid.GetECDSAAllChecks().items() if k != 'CheckIssuerKey'}
cases = []
for cid in (C.CURVE_SECP256R1, C.CURVE_SECP521R1, C.CURVE_SECP192R1, C.CURVE_SECP224R1, C.CURVE_BRAINPOOLP512R1, C.CURVE_SECT163K1, 0, 77):
    c = ec_util.CURVE_FACTORY.get(cid); n = int(c.n) if c else 2**255
    g = (int(c.g[0]), int(c.g[1])) if c else (5, 7)
    for (r, s) in ((1, 1), (n - 1, n - 1), (1, n - 1), (rnd.randrange(1, n), rnd.randrange(1, n))):
        for h in (b'', b'\x00', b'\xff' * 64, b'\x01' * 20):
            for (x, y) in (g, (0, 0), (g[0], g[1] ^ 1)):
                cases.append((cid, r, s, h, x, y))
bad = 0; t0 = time.time()
for name, chk in checks.items():
    for cs in cases:
        for batch in ([sig(*cs)], [sig(*cs), sig(*cs)], [sig(*cs), sig(*cases[0])]):
            try:
                r = chk.Check(batch); assert isinstance(r, bool)
            except Exception as ex:
                bad += 1; print('EXC', name, cs[0], cs[1] == 1, cs[2] == 1, len(cs[3]), cs[4] == 0, len(batch), type(ex).__name__, str(ex)[:60], flush=True)
    print(name, 'done', round(time.time() - t0), flush=True)
print('bad', bad)
