import pb2shim, bmshim; pb2shim.install(); bmshim.install('/tmp/probe/bm_clmul.so')
from absl import logging; logging.set_verbosity(logging.FATAL)
import random, time, hashlib
from paranoid_crypto import paranoid_pb2 as pb
from paranoid_crypto.lib import paranoid, ec_util, util
rnd = random.Random(8); bad = 0
C = pb.CurveType
def bits2int(h, qlen):  # RFC 6979 2.3.2
    v = int.from_bytes(h, 'big'); blen = 8 * len(h)
    return v >> (blen - qlen) if blen > qlen else v
for cid, c in ec_util.CURVE_FACTORY.items():
    if c is None: continue
    n = int(c.n)
    for hl in (0, 1, 20, 28, 32, 48, 64, 65, 66, 67, 80):
        for lead in (0, 1, 3):
            h = bytes(lead) + bytes(rnd.getrandbits(8) for _ in range(max(0, hl - lead)))
            d = rnd.randrange(1, n); k = rnd.randrange(1, n)
            z = bits2int(h, n.bit_length()) % n
            R = c.Multiply(c.g, k); r = int(R[0]) % n; s = pow(k, -1, n) * (z + r * d) % n
            if r == 0 or s == 0: continue
            sig = pb.ECDSASignatureInfo(r=bytes(rnd.randrange(3)) + util.Int2Bytes(r), s=util.Int2Bytes(s), message_hash=h)
            r2, s2, z2 = ec_util.ECDSAValues(sig, c)
            if (int(r2), int(s2), int(z2)) != (r, s, z): bad += 1; print('ECDSAValues', c.name, hl, lead, int(z2) == z)
            a, b = c.HiddenNumberParams(r2, s2, z2)
            if (int(a) + int(b) * d) % n != k: bad += 1; print('RELATION', c.name, hl)
for v in [0, 1, 255, 256, 2**64 - 1, 2**64, 2**521 - 1] + [rnd.getrandbits(rnd.randrange(1, 600)) for _ in range(300)]:
    if util.Bytes2Int(util.Int2Bytes(v)) != v: bad += 1; print('RT', v)
    hx = format(v, 'x')
    if util.Bytes2Int(util.Hex2Bytes(hx)) != v or util.Bytes2Int(util.Hex2Bytes('0' + hx)) != v: bad += 1; print('HEX', v)
print('c09 bad', bad)
# C10 structured keys
for cid in (C.CURVE_SECP256R1, C.CURVE_SECP224R1):
    c = ec_util.CURVE_FACTORY[cid]; n = int(c.n); bits = n.bit_length()
    keys = []
    for j in range(0, bits - 31, 8):
        keys.append(rnd.getrandbits(32) << j)
    keys += [(2**32 - 1) << (bits - 32 - ((bits - 32) % 8)), 1, 2**32 - 1]
    for rep in range(2, bits // 32 + 1):
        w = rnd.getrandbits(32) | 1; keys.append(sum(w << (32 * i) for i in range(rep)))
    keys = [k for k in keys if 0 < k < n]
    neg = [rnd.getrandbits(33) | (1 << 32), rnd.randrange(1, n)]   # should not be found (33-bit, random)
    t0 = time.time()
    res = c.ExtendedBatchDL(c.BatchMultiplyG(keys + neg))
    miss = [hex(k) for k, r in zip(keys, res) if r is None or int(r) % n != k]
    fp = [r for r in res[len(keys):] if r is not None]
    print(c.name, 'keys', len(keys), 'miss', miss, 'unexpected', fp, round(time.time() - t0, 1), 's', flush=True)
