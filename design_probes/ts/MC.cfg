SPECIFICATION Spec
CONSTANTS Names = {"a", "b"}
          Exps = {0, 6, 7, 8, 29, 30, 9999}
          R = 7
          FailAt = <<30, 35, 39, 43, 46>>
          MinReps = 2
          MaxRuns = 3
INVARIANT FailedIff
INVARIANT ThresholdsOrdered
CHECK_DEADLOCK FALSE
