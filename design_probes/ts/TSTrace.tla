---- MODULE TSTrace ----
EXTENDS TestStructure, Json, IOUtils
FailAtDef == <<30, 35, 39, 43, 46, 49, 52>>
NamesDef == {"a", "b"}
Recs == ndJsonDeserialize(IOEnv.TRACE_FILE)
VARIABLE tid
tvars == <<pe, st, runs, finished, tid>>
ResOf(r) == [n \in {r.args.names[i] : i \in 1..Len(r.args.names)} |->
               r.args.exps[CHOOSE i \in 1..Len(r.args.names) : r.args.names[i] = n]]
ObsState(r, n) == IF \E i \in 1..Len(r.obs.names) : r.obs.names[i] = n
                  THEN r.obs.states[CHOOSE i \in 1..Len(r.obs.names) : r.obs.names[i] = n] ELSE "none"
Fail(r, clause) == TLCSet(1, Append(TLCGet(1), [tid |-> tid, sid |-> r.sid, step |-> r.step, clause |-> clause]))
Compare(r) ==  \* evaluated on the primed (model) state
   /\ IF r.raised # "none" THEN Fail(r, "Raised") ELSE TRUE
   /\ IF \E n \in Names : st'[n] # ObsState(r, n) THEN Fail(r, "StateRule") ELSE TRUE
   /\ IF finished' # r.obs.finished \/ r.obs.ret # r.obs.finished THEN Fail(r, "FinishedRule") ELSE TRUE
   /\ IF runs' # r.obs.runs THEN Fail(r, "RunsCount") ELSE TRUE
   /\ IF (\E n \in Names : st'[n] = "FAILED") # r.obs.failed THEN Fail(r, "FailedIffSomeFailed") ELSE TRUE
TInit == Init /\ tid = 1 /\ TLCSet(1, <<>>)
Reset == /\ pe = [n \in Names |-> <<>>] /\ st = [n \in Names |-> "none"] /\ runs = 0 /\ finished = FALSE
TNext == /\ tid <= Len(Recs)
         /\ LET r == Recs[tid] IN
            \* first record of a behaviour starts from a fresh structure: model that as a composed step
            /\ IF r.step = 1
               THEN LET D == DOMAIN ResOf(r)
                        pe2 == [n \in Names |-> IF n \in D THEN <<ResOf(r)[n]>> ELSE <<>>]
                        st2 == [n \in Names |-> IF n \in D THEN Decide(pe2[n]) ELSE "none"]
                        und == Cardinality({n \in D : st2[n] = "UNDECIDED"})
                    IN pe' = pe2 /\ st' = st2 /\ runs' = 1 /\ finished' = (und = 0 /\ 1 >= MinReps)
               ELSE RunWith(ResOf(r))
            /\ Compare(r)
         /\ tid' = tid + 1
TSpec == TInit /\ [][TNext]_tvars
Post == /\ PrintT(<<"CONSUMED", TLCGet("stats").diameter - 1, "OF", Len(Recs)>>)
        /\ \A i \in 1..Len(TLCGet(1)) : PrintT(<<"FAIL", ToJson(TLCGet(1)[i])>>)
====
