SPECIFICATION Spec
CONSTANTS Names <- NamesDef
          Exps <- ExpsDef
          R = 7
          FailAt <- FailAtDef
          MinReps = 2
          MaxRuns = 3
INVARIANT FailedIff
INVARIANT ThresholdsOrdered
CHECK_DEADLOCK FALSE
