---- MODULE MCTS ----
EXTENDS TestStructure
FailAtDef == <<30, 35, 39, 43, 46>>
NamesDef == {"a", "b"}
ExpsDef == {0, 6, 7, 8, 29, 30, 9999}
====
