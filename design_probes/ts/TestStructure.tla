---- MODULE TestStructure ----
(* Exact model of random_test_suite.TestStructure.Run for p-values of the form 2^-e.
   e = Inf stands for p = 0.  PASSED <=> sum e < k*R ; FAILED <=> sum e >= FailAt[k]. *)
EXTENDS Naturals, Sequences, FiniteSets, TLC
CONSTANTS Names,      \* sub-test names a test may return
          Exps,       \* exponents a run may produce
          R,          \* p_repeat = 2^-R
          FailAt,     \* FailAt[k]: least integer sum with Q(k, ln2*sum) < p_fail
          MinReps, MaxRuns
Inf == 9999
VARIABLES pe, st, runs, finished
vars == <<pe, st, runs, finished>>
RECURSIVE Sum(_)
Sum(s) == IF s = <<>> THEN 0 ELSE Head(s) + Sum(Tail(s))
HasInf(s) == \E i \in 1..Len(s) : s[i] = Inf
Decide(s) == LET k == Len(s) IN
             IF HasInf(s) \/ Sum(s) >= FailAt[k] THEN "FAILED"
             ELSE IF Sum(s) < k * R THEN "PASSED" ELSE "UNDECIDED"
Init == /\ pe = [n \in Names |-> <<>>] /\ st = [n \in Names |-> "none"]
        /\ runs = 0 /\ finished = FALSE
\* one call of Run() whose test returned p-values for the names in D (possibly empty)
RunWith(res) ==
   LET D == DOMAIN res
       pe2 == [n \in Names |-> IF n \in D THEN Append(pe[n], res[n]) ELSE pe[n]]
       st2 == [n \in Names |-> IF n \in D THEN Decide(pe2[n]) ELSE st[n]]
       und == Cardinality({n \in D : st2[n] = "UNDECIDED"})
   IN /\ pe' = pe2 /\ st' = st2 /\ runs' = runs + 1
      /\ finished' = (und = 0 /\ runs + 1 >= MinReps)
RunInsufficient == /\ runs' = runs + 1 /\ finished' = TRUE /\ UNCHANGED <<pe, st>>
Results == UNION {[D -> Exps] : D \in SUBSET Names}
Next == /\ runs < MaxRuns
        /\ \/ \E res \in Results : RunWith(res)
           \/ RunInsufficient
Spec == Init /\ [][Next]_vars
Failed == \E n \in Names : st[n] = "FAILED"
\* properties of the rule
FailedIff == \A n \in Names : pe[n] # <<>> =>
               (st[n] = "FAILED" <=> (HasInf(pe[n]) \/ Sum(pe[n]) >= FailAt[Len(pe[n])]))
FinishedSound == finished /\ runs > 0 => TRUE
ThresholdsOrdered == \A k \in 1..MaxRuns : k * R < FailAt[k]   \* otherwise PASSED and FAILED would overlap
====
