import sys, re, json, glob
sys.path[:0] = ['/tmp/probe', '/repo']
import pb2shim, bmshim; pb2shim.install(); bmshim.install('/tmp/probe/bm_clmul.so')
from absl import logging; logging.set_verbosity(logging.FATAL)
from paranoid_crypto.lib.randomness_tests import random_test_suite as rts, nist_suite
R = 7; MINREPS = 2
def parse(path):
    txt = open(path).read()
    states = []
    for m in re.finditer(r'STATE_\d+ ==\s*\n((?:/\\ .*\n)+)', txt):
        st = {}
        for line in m.group(1).strip().split('\n'):
            k, v = line[3:].split(' = ', 1); st[k] = v
        states.append(st)
    return states
def seqs(v):  # [a |-> <<0, 29>>, b |-> <<7>>]
    return {n: [int(x) for x in re.findall(r'\d+', body)] for n, body in re.findall(r'(\w+) \|-> <<([^>]*)>>', v)}
out = open('/tmp/probe/ts/trace.ndjson', 'w'); nrec = 0
for path in sorted(glob.glob('/tmp/probe/ts/sim/tr_*')):
    states = parse(path)
    script = []
    for a, b in zip(states, states[1:]):
        pa, pb_ = seqs(a['pe']), seqs(b['pe'])
        res = {n: pb_[n][-1] for n in pb_ if len(pb_[n]) > len(pa[n])}
        script.append(res)
    it = iter(script)
    def test(bits, n):
        res = next(it)
        if res is None: raise nist_suite.InsufficientDataError('x')
        return [(k, 0.0 if e == 9999 else 2.0 ** -e) for k, e in sorted(res.items())]
    ts = rts.TestStructure(test, [], 1e-9, 2.0 ** -R, min_repetitions=MINREPS)
    for step, res in enumerate(script, 1):
        ret = ts.Run(0, 0)
        rec = {"sid": path.rsplit('/', 1)[1], "step": step, "ev": "Run",
               "args": {"names": sorted(res), "exps": [res[k] for k in sorted(res)]},
               "obs": {"ret": bool(ret), "finished": bool(ts.finished), "runs": ts.runs,
                       "names": sorted(ts.state), "states": [ts.state[k].name for k in sorted(ts.state)],
                       "failed": bool(ts.Failed())},
               "raised": "none"}
        out.write(json.dumps(rec) + '\n'); nrec += 1
out.close(); print('records', nrec)
