SPECIFICATION TSpec
CONSTANTS Names <- NamesDef
          Exps = {0}
          R = 7
          FailAt <- FailAtDef
          MinReps = 2
          MaxRuns = 99
POSTCONDITION Post
CHECK_DEADLOCK FALSE
