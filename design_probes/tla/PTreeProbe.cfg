SPECIFICATION Spec
CONSTANT MaxN = 130
INVARIANT TInv
INVARIANT Partition
INVARIANT RootOk
CHECK_DEADLOCK FALSE
