---- MODULE BMProbe2 ----
EXTENDS Naturals, Sequences, FiniteSets, TLC, Json, IOUtils, FiniteSetsExt
Shift(A, k) == {e + k : e \in A}
Recs == ndJsonDeserialize(IOEnv.TRACE_FILE)
VARIABLES tid, n, C, B, L, m
vars == <<tid, n, C, B, L, m>>
Disc(s) == Cardinality({e \in C : e <= n /\ s[n - e + 1] = 1}) % 2
Init == tid = 1 /\ n = 0 /\ C = {0} /\ B = {0} /\ L = 0 /\ m = 1
Step == /\ tid <= Len(Recs)
        /\ LET s == Recs[tid].bits IN
           /\ n < Len(s)
           /\ n' = n + 1 /\ tid' = tid
           /\ IF Disc(s) = 0 THEN /\ m' = m + 1 /\ UNCHANGED <<C, B, L>>
              ELSE IF 2 * L <= n
                   THEN /\ C' = SymDiff(C, Shift(B, m)) /\ B' = C /\ L' = n + 1 - L /\ m' = 1
                   ELSE /\ C' = SymDiff(C, Shift(B, m)) /\ m' = m + 1 /\ UNCHANGED <<B, L>>
Finish == /\ tid <= Len(Recs)
          /\ n = Len(Recs[tid].bits)
          /\ Assert(L = Recs[tid].lc, <<"MISMATCH", tid, L, Recs[tid].lc>>)
          /\ tid' = tid + 1 /\ n' = 0 /\ C' = {0} /\ B' = {0} /\ L' = 0 /\ m' = 1
Next == Step \/ Finish
Spec == Init /\ [][Next]_vars
Done == TLCGet("stats").diameter > 0 => TRUE
====
