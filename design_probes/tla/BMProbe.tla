---- MODULE BMProbe ----
EXTENDS Naturals, Sequences, FiniteSets, TLC, Json, IOUtils, FiniteSetsExt

\* Berlekamp-Massey over GF(2); polynomials as sets of exponents.

Shift(A, k) == {e + k : e \in A}

\* discrepancy at position n for connection polynomial C (set of exponents, 0 \in C), L
Disc(s, C, n) == Cardinality({e \in C : e <= n /\ s[n - e + 1] = 1}) % 2

RECURSIVE BMStep(_, _, _, _, _, _)
BMStep(s, n, C, B, L, m) ==
  IF n = Len(s) THEN L
  ELSE IF Disc(s, C, n) = 0 THEN BMStep(s, n + 1, C, B, L, m + 1)
       ELSE IF 2 * L <= n
            THEN BMStep(s, n + 1, SymDiff(C, Shift(B, m)), C, n + 1 - L, 1)
            ELSE BMStep(s, n + 1, SymDiff(C, Shift(B, m)), B, L, m + 1)

LC(s) == BMStep(s, 0, {0}, {0}, 0, 1)

Recs == ndJsonDeserialize(IOEnv.TRACE_FILE)

VARIABLE i
Init == i = 1
Next == /\ i <= Len(Recs)
        /\ i' = i + 1
Check == i <= Len(Recs) => LC(Recs[i].bits) = Recs[i].lc
Spec == Init /\ [][Next]_i
====
