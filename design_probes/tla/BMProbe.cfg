SPECIFICATION Spec
INVARIANT Check
CHECK_DEADLOCK FALSE
