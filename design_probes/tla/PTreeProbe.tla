---- MODULE PTreeProbe ----
EXTENDS Naturals, Sequences, FiniteSets, TLC
CONSTANT MaxN
\* Symbolic (free commutative semiring) model of ntheory_util.ExtendedProductTree:
\* a value is the set of leaf indices whose product it is; a t-value is a set of monomials.
VARIABLES n, values, t, tree, phase
vars == <<n, values, t, tree, phase>>
PolyTimesMono(P, M) == {m \cup M : m \in P}
Init == /\ n \in 1..MaxN /\ values = [i \in 1..n |-> {i}] /\ t = [i \in 1..n |-> {{}}]
        /\ tree = <<values>> /\ phase = "build"
Pairs(k) == k \div 2
Level == /\ phase = "build" /\ Len(values) > 1
         /\ LET k == Len(values)
                h == k \div 2
                newt == [i \in 1..h |-> PolyTimesMono(t[2*i-1], values[2*i]) \cup PolyTimesMono(t[2*i], values[2*i-1])]
                newv == [i \in 1..((k+1) \div 2) |-> IF 2*i <= k THEN values[2*i-1] \cup values[2*i] ELSE values[2*i-1]]
            IN /\ t' = IF k % 2 = 1 THEN Append(newt, t[k]) ELSE newt
               /\ values' = newv
               /\ tree' = Append(tree, newv)
         /\ UNCHANGED <<n, phase>>
Done == /\ phase = "build" /\ Len(values) = 1 /\ phase' = "done" /\ UNCHANGED <<n, values, t, tree>>
Next == Level \/ Done
Spec == Init /\ [][Next]_vars
\* invariant: each node's t is e_{k-1} of its leaves, value sets partition 1..n in order
TInv == \A i \in 1..Len(values) : t[i] = {values[i] \ {v} : v \in values[i]}
Partition == /\ UNION {values[i] : i \in 1..Len(values)} = 1..n
             /\ \A i, j \in 1..Len(values) : i # j => values[i] \cap values[j] = {}
RootOk == phase = "done" => /\ values[1] = 1..n /\ t[1] = {(1..n) \ {v} : v \in 1..n}
====
