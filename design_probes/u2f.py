import pb2shim, bmshim; pb2shim.install(); bmshim.install('/tmp/probe/bm_clmul.so')
from absl import logging; logging.set_verbosity(logging.FATAL)
import random, hashlib, time
from paranoid_crypto import paranoid_pb2 as pb
from paranoid_crypto.lib import paranoid
from paranoid_crypto.lib import ec_util, ecdsa_sig_checks as esc, util, consts
rnd = random.Random(9); chk = esc.CheckCr50U2f()
for cid, c in ec_util.CURVE_FACTORY.items():
    if c is None: continue
    n = int(c.n); bits = n.bit_length()
    if bits % 32: print(c.name, 'order length not multiple of 32: skipped by the check'); continue
    ok = 0; trials = 6; t0 = time.time()
    for t in range(trials):
        d = rnd.randrange(1, n); Q = c.Multiply(c.g, d); sigs = []
        for i in range(2):
            while True:
                k = int.from_bytes(b''.join(bytes([rnd.getrandbits(8)]) * 4 for _ in range(bits // 32)), 'big')
                if 0 < k < n: break
            h = hashlib.sha256(b'%d' % rnd.getrandbits(64)).digest(); z = int(c.TransformOrderLen(int.from_bytes(h, 'big'), 256))
            R = c.Multiply(c.g, k); r_ = int(R[0]) % n; s_ = pow(k, -1, n) * (z + r_ * d) % n
            g = pb.ECDSASignature(); g.ecdsa_sig_info.r = util.Int2Bytes(r_); g.ecdsa_sig_info.s = util.Int2Bytes(s_); g.ecdsa_sig_info.message_hash = h
            g.issuer_key_info.curve_type = cid; g.issuer_key_info.x = util.Int2Bytes(int(Q[0])); g.issuer_key_info.y = util.Int2Bytes(int(Q[1])); sigs.append(g)
        chk.Check(sigs)
        dl = util.GetAttachedInfo(sigs[0].test_info, consts.INFO_NAME_DISCRETE_LOG)
        ok += all(any(tr.result for tr in s.test_info.test_results) for s in sigs) and dl is not None and int(dl.value, 16) == d
    print(c.name, 'u2f 2 sigs ok', ok, '/', trials, round(time.time() - t0, 1), 's', flush=True)
