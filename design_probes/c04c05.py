import pb2shim, bmshim; pb2shim.install(); bmshim.install('/tmp/probe/bm_clmul.so')
import random, gmpy2, sys, time
from paranoid_crypto.lib import rsa_util
rnd = random.Random(11)
def next_prime_from(x):
    return gmpy2.next_prime(x)
def prime_with_bits(L, low, r, high, s):
    # L-bit prime with r lowest bits = low (low odd), s highest bits = high
    while True:
        mid = rnd.getrandbits(L - r - s)
        p = (high << (L - s)) | (mid << r) | low
        if gmpy2.is_prime(p): return gmpy2.mpz(p)
# C04 high/low equal
for bits in (512, 1024, 2048):
    L = bits // 2
    tot = miss = 0
    for (r, s) in [(3, bits//4 - 1), (bits//8+1, bits//8+1), (bits//4 - 1 , 3), (8, bits//4-6), (bits//4+2-2, 2)]:
        if s < 2: continue
        for _ in range(6):
            low = rnd.getrandbits(r) | 1
            high = rnd.getrandbits(s) | (1 << (s-1)) | (1 << (s-2))
            p = prime_with_bits(L, low, r, high, s); q = prime_with_bits(L, low, r, high, s)
            if p == q: continue
            n = p*q
            f1 = rsa_util.FermatFactor(n, 100000); f2 = rsa_util.FactorHighAndLowBitsEqual(n)
            tot += 1
            if not f1 and not f2: miss += 1; print('MISS highlow', bits, r, s, r+s, bits//4+2)
    print('highlow', bits, 'miss', miss, '/', tot)
