import pb2shim, bmshim; pb2shim.install(); bmshim.install('/tmp/probe/bm_clmul.so')
import time, sys
from paranoid_crypto.lib.randomness_tests import random_test_suite as rts, rng
n = int(sys.argv[1]); name = sys.argv[2]
g = rng.GetRng(name)
bits = g.RandomBits(n, seed=4242)
tot=time.time()
for test, params in rts.TESTS:
    t=time.time()
    ts = rts.TestStructure(test, params, 1e-9, 0.01)
    ts.Run(bits, n)
    print('%-40s %6.2fs  %s' % (ts.test_name, time.time()-t, {k:(v.name) for k,v in list(ts.state.items())[:3]}), 'npv', len(ts.state), 'minp', min(ts.combined_p_values.values()) if ts.combined_p_values else None)
print('total', time.time()-tot)
